"""C18: canconvert options have exactly their documented effect.

SEARCH  generated DBC files (frames longer than 8 bytes, zero-width signals, ECUs that send and receive, attributes and
        definitions, names that are prefixes of each other) are converted DBC -> DBC through click's entry point
        (canmatrix.cli.convert.cli_convert.main(args, standalone_mode=False)) and through canmatrix.convert.convert(),
        the output is re-read with the DBC reader and compared with an ORACLE: the documented effect of the option(s)
        (help texts of cli/convert.py, docs/cli.rst) applied to the plain description of the loaded input, written
        here without reference to convert.py.  No option: the output file must be byte-identical to load + dump through
        the API.  All single options with argument variations, all ordered pairs of a reduced option set (the oracle
        composes the two effects in the pipeline order, whatever the order on the command line).
TIE     model/Convert.v (cmd 1801-1810): the parsing functions against str.split / int, and `pipeline` over the directly
        modelled options (skipLongDlc, cutLongFrames, setFrameFd, unsetFrameFd, frameIdIncrement, changeFrameId,
        addFrameReceiver, recalcDLC, ignorePduContainer / PDU rewrite) against the matrix convert() hands to the writer
        (captured by wrapping canmatrix.formats.dumpp), single options, pairs and malformed arguments.
"""
import copy
import itertools
import json
import os
import shutil
import tempfile

import core
import matgen

LEVEL_NOTE = ("theorems are about model/Convert.v: the option-string parsing, the directly modelled options on a matrix type of "
              "its own and the stage order of convert() generic in the operations (the operations proved in C10/C11/C12/C16/C17 "
              "stand behind the fields of `ops` and are quoted as corollaries, their matrix types are not unified); click, file "
              "I/O, the DBC writer/reader and logging are exercised by the search, not modelled; format-derived attributes "
              "(VFrameFormat, GenSigStartValue, GenSigCycleTime, BusType) are compared through the object fields they encode; "
              "the model follows convert.py WITH fixes/C18_*.patch applied")

C18_COQ = ["model/Convert.v", "model/Run_C18.v", "proofs/C18_parse.v", "proofs/C18_direct.v", "proofs/C18_pipeline.v"]

# the order of the `if` blocks of convert() as the documentation of the pair oracle (independent list: the tie compares it
# with Convert.post_order through cmd 1806)
PIPELINE_ORDER = ["ecus", "frames", "signals", "merge", "renameEcu", "deleteEcu", "renameFrame", "deleteFrame", "addFrameReceiver",
                  "frameIdIncrement", "changeFrameId", "setFrameFd", "unsetFrameFd", "skipLongDlc", "cutLongFrames", "renameSignal",
                  "deleteSignal", "deleteZeroSignals", "deleteSignalAttributes", "deleteFrameAttributes", "deleteObsoleteDefines",
                  "deleteObsoleteEcus", "compressFrame", "recalcDLC", "ignorePduContainer"]
KIND = {k: i for i, k in enumerate(PIPELINE_ORDER)}
SWITCHES = {"deleteZeroSignals", "deleteObsoleteDefines", "deleteObsoleteEcus", "ignorePduContainer"}
DIRECT = ["addFrameReceiver", "frameIdIncrement", "changeFrameId", "setFrameFd", "unsetFrameFd", "skipLongDlc", "cutLongFrames",
          "recalcDLC", "ignorePduContainer"]
DERIVED_ATTRS = {"VFrameFormat", "GenMsgCycleTime", "GenSigStartValue", "GenSigCycleTime", "SystemMessageLongSymbol",
                 "SystemSignalLongSymbol", "SystemNodeLongSymbol"}
DERIVED_GLOBAL = {"BusType", "ProtocolType"}


def ensure_vo():
    """Until the C18 files are listed in _CoqProject `make` does not know them: compile the chain in dependency order (under
    the build lock) when an object file is missing or older than its source / than what it depends on."""
    core.build()
    with core.Lock():
        deps = ["lib/Prelude.vo", "model/Glob.vo", "model/EcuOps.vo", "model/Codec.vo", "model/Layout.vo", "model/RunBase.vo",
                "model/BulkOps.vo", "model/CopyOps.vo", "model/Lookup.vo", "proofs/C16_dlc.vo"]
        ref = max([os.path.getmtime(os.path.join(core.COQ, d)) for d in deps if os.path.exists(os.path.join(core.COQ, d))] or [0])
        stale = False
        for rel in C18_COQ:
            src = os.path.join(core.COQ, rel)
            vo = src + "o"
            if not os.path.exists(src):
                continue
            if stale or not os.path.exists(vo) or os.path.getmtime(vo) < os.path.getmtime(src) or os.path.getmtime(vo) < ref:
                stale = True
                core.sh("timeout 600 coqc -Q . CM %s" % rel, cwd=core.COQ, timeout=630)
            ref = max(ref, os.path.getmtime(vo)) if os.path.exists(vo) else ref


def codes(s):
    return [ord(c) for c in s]


# ------------------------------------------------------------------------------------------------------------------
# plain description of a matrix: matgen.normal_form + the free signals as a list; `view` removes what the DBC format
# derives from object fields (the information is compared through is_fd / is_j1939 / cycle_time / initial_value)
def describe(db):
    nf = matgen.normal_form(db)
    nf["free_list"] = [matgen.signal_nf(s) for s in db.signals]
    nf.pop("free_signals", None)
    for f in nf["frames"].values():
        f["transmitters"] = list(f["transmitters"])
    return nf


def view(nf, sort_tx=True):
    v = copy.deepcopy(nf)
    for f in v["frames"].values():
        for a in DERIVED_ATTRS:
            f["attributes"].pop(a, None)
        if sort_tx:
            f["transmitters"] = sorted(f["transmitters"])
        for s in f["signals"].values():
            for a in DERIVED_ATTRS:
                s["attributes"].pop(a, None)
    for s in v["free_list"]:
        for a in DERIVED_ATTRS:
            s["attributes"].pop(a, None)
    for e in v["ecus"].values():
        for a in DERIVED_ATTRS:
            e["attributes"].pop(a, None)
    for cat in v["defines"]:
        for a in list(v["defines"][cat]):
            if a in DERIVED_ATTRS or a in DERIVED_GLOBAL:
                del v["defines"][cat][a]
    for a in DERIVED_GLOBAL:
        v["attributes"].pop(a, None)
    return v


def fkey(f):
    return "%d_%d" % (f["id"], int(f["ext"]))


def finalize(st):
    """what a DBC file can carry of a description: frame receivers are the receivers of the signals; an ECU that is referenced
    is listed (the reader's update_ecu_list); frames are keyed by their identifier"""
    st = copy.deepcopy(st)
    frames = {}
    order = []
    for k in st["frame_order"]:
        f = st["frames"][k]
        f["receivers"] = sorted({r for s in f["signals"].values() for r in s["receivers"]})
        assert list(f["signals"]) == f["signal_order"] or set(f["signals"]) == set(f["signal_order"])
        frames[fkey(f)] = f
        order.append(fkey(f))
    st["frames"] = frames
    st["frame_order"] = order
    for f in frames.values():
        for n in list(f["transmitters"]) + [r for s in f["signals"].values() for r in s["receivers"]]:
            st["ecus"].setdefault(n, dict(comment=None, attributes={}))
    for s in st["free_list"]:
        for n in s["receivers"]:
            st["ecus"].setdefault(n, dict(comment=None, attributes={}))
    return st


class Silent(Exception):
    """the oracle has no verdict (argument outside the documented syntax / outside the property's envelope)"""


# ------------------------------------------------------------------------------------------------------------------
# the oracle: documented effect of one option on a description.  `st` is modified in place and returned.
def frames_in_order(st):
    return [st["frames"][k] for k in st["frame_order"]]


def drop_frames(st, pred):
    for k in [k for k in st["frame_order"] if pred(st["frames"][k])]:
        del st["frames"][k]
        st["frame_order"].remove(k)


def drop_signals(f, pred):
    for n in [n for n in f["signal_order"] if pred(f["signals"][n])]:
        del f["signals"][n]
        f["signal_order"].remove(n)
    f["signal_groups"] = [(g, i, [m for m in mem if m in f["signals"]]) for g, i, mem in f["signal_groups"]]


def plain(name):
    return name != "" and not any(c in name for c in ",:*?[")


def pattern_ok(p):
    """a name pattern of the modelled glob language ('*', '?', literals) that is one item of an option list"""
    return p != "" and not any(c in p for c in ",:[")


def matching(pat, names):
    """the names a glob pattern selects, in the given order (fnmatch semantics, re-implemented in glob_oracle)"""
    if not pattern_ok(pat):
        raise Silent("pattern outside the modelled glob language")
    return [n for n in names if glob_oracle(pat, n)]


def rename_by_pattern(old, new, name):
    """rename_frame / rename_signal: 'old name or part of the name with * at the beginning or the end'"""
    if old.endswith("*"):
        pre = old[:-1]
        return new + name[len(pre):] if name.startswith(pre) else name
    if old.startswith("*"):
        suf = old[1:]
        return name[:len(name) - len(suf)] + new if name.endswith(suf) else name
    return new if name == old else name


def split_pairs(arg):
    out = []
    for item in arg.split(","):
        p = item.split(":")
        if len(p) != 2:
            raise Silent("malformed tuple")
        out.append(p)
    return out


def min_len(f):
    end = 0
    for s in f["signals"].values():
        end = max(end, s["start"] + s["size"])       # `start` is Signal.start_bit: LSB0 number (Intel) / MSB0 sequential (Motorola)
    return (end + 7) // 8


BY_FRAME_NAME = {"deleteFrame", "renameFrame", "setFrameFd", "unsetFrameFd", "addFrameReceiver", "compressFrame", "frames"}


def oracle_one(st, opt, arg, aux=None):
    if opt in BY_FRAME_NAME:
        names = [f["name"] for f in st["frames"].values()]
        if len(set(names)) != len(names):
            raise Silent("frame names are not unique: 'the frame called X' is not defined")
    if opt == "deleteEcu":
        for pat in arg.split(","):
            if pat == "":
                continue
            # "delete Ecu from databases": every LISTED ECU the name / pattern selects, together with every reference to it
            for n in matching(pat, list(st["ecus"])):
                del st["ecus"][n]
                for f in st["frames"].values():
                    f["transmitters"] = [t for t in f["transmitters"] if t != n]
                    f["receivers"] = [r for r in f["receivers"] if r != n]
                    for s in f["signals"].values():
                        s["receivers"] = [r for r in s["receivers"] if r != n]
    elif opt == "renameEcu":
        for old, new in split_pairs(arg):
            if not plain(new) or old == "":
                raise Silent("name")
            if old not in st["ecus"]:
                continue
            if new in st["ecus"]:
                raise Silent("rename onto an existing ECU")
            st["ecus"] = {(new if k == old else k): v for k, v in st["ecus"].items()}
            for f in st["frames"].values():
                f["transmitters"] = [new if t == old else t for t in f["transmitters"]]
                f["receivers"] = sorted(new if t == old else t for t in f["receivers"])
                for s in f["signals"].values():
                    s["receivers"] = sorted(new if t == old else t for t in s["receivers"])
    elif opt == "deleteFrame":
        names = arg.split(",")
        drop_frames(st, lambda f: f["name"] in names)
    elif opt == "renameFrame":
        for old, new in split_pairs(arg):
            if old == "" or not plain(new) or "*" in old[1:-1] or old in ("*", "**") or "?" in old or "[" in old:
                raise Silent("pattern")
            if old.startswith("*") and old.endswith("*"):
                raise Silent("pattern with two stars")
            for f in st["frames"].values():
                f["name"] = rename_by_pattern(old, new, f["name"])
            names = [f["name"] for f in st["frames"].values()]
            if len(set(names)) != len(names) or "" in names:
                raise Silent("rename makes two frames share a name")
    elif opt == "renameSignal":
        for old, new in split_pairs(arg):
            if old == "" or not plain(new) or "*" in old[1:-1] or old in ("*", "**") or "?" in old or "[" in old:
                raise Silent("pattern")
            if old.startswith("*") and old.endswith("*"):
                raise Silent("pattern with two stars")
            for f in st["frames"].values():
                ren = {n: rename_by_pattern(old, new, n) for n in f["signal_order"]}
                if all(k == v for k, v in ren.items()):
                    continue
                if len(set(ren.values())) != len(ren) or "" in ren.values():
                    raise Silent("rename makes two signals of a frame share a name")
                if any(t["muxer_for_signal"] in ren and ren[t["muxer_for_signal"]] != t["muxer_for_signal"] for t in f["signals"].values()):
                    raise Silent("renaming a multiplexer")
                for n, sg in f["signals"].items():
                    sg["name"] = ren[n]
                f["signals"] = {ren[k]: v for k, v in f["signals"].items()}
                f["signal_order"] = [ren[k] for k in f["signal_order"]]
                f["signal_groups"] = [(g, i, sorted(ren.get(m, m) for m in mem)) for g, i, mem in f["signal_groups"]]
    elif opt == "deleteSignal":
        pats = [n for n in arg.split(",") if n != ""]
        if not all(pattern_ok(n) for n in pats):
            raise Silent("pattern outside the modelled glob language")
        for f in st["frames"].values():
            drop_signals(f, lambda s: any(glob_oracle(n, s["name"]) for n in pats))
    elif opt == "deleteZeroSignals":
        for f in st["frames"].values():
            drop_signals(f, lambda s: s["size"] == 0)
    elif opt == "deleteSignalAttributes":
        names = arg.split(",")
        if set(names) & DERIVED_ATTRS:
            raise Silent("format-derived attribute")
        for f in st["frames"].values():
            for s in f["signals"].values():
                for n in names:
                    s["attributes"].pop(n, None)
    elif opt == "deleteFrameAttributes":
        names = arg.split(",")
        if set(names) & (DERIVED_ATTRS - {"GenMsgCycleTime"}):
            raise Silent("format-derived attribute")
        for f in st["frames"].values():
            for n in names:
                f["attributes"].pop(n, None)
            if "GenMsgCycleTime" in names:
                # docs/cli.rst uses exactly this attribute as its example: afterwards no frame carries a cycle time
                f["cycle_time"] = 0
    elif opt == "deleteObsoleteDefines":
        # "remove all defines which no attribute exist for": frame, ECU and signal definitions no object carries a value of
        def used(cat_objs):
            return {a for o in cat_objs for a in o["attributes"]}
        uf = used(st["frames"].values())
        ue = used(st["ecus"].values())
        us = used([s for f in st["frames"].values() for s in f["signals"].values()] + st["free_list"])
        for cat, u in (("frame_defines", uf), ("ecu_defines", ue), ("signal_defines", us)):
            st["defines"][cat] = {k: v for k, v in st["defines"][cat].items() if k in u or k in DERIVED_ATTRS}
    elif opt == "deleteObsoleteEcus":
        ref = set()
        for f in st["frames"].values():
            ref |= set(f["transmitters"]) | set(f["receivers"])
            for s in f["signals"].values():
                ref |= set(s["receivers"])
        for s in st["free_list"]:
            ref |= set(s["receivers"])
        st["ecus"] = {k: v for k, v in st["ecus"].items() if k in ref}
    elif opt == "addFrameReceiver":
        for fname, ecu in split_pairs(arg):
            if not plain(ecu):
                raise Silent("name")
            for f in st["frames"].values():
                if glob_oracle(fname, f["name"]) and f["signals"]:
                    for s in f["signals"].values():
                        if ecu not in s["receivers"]:
                            s["receivers"] = sorted(s["receivers"] + [ecu])
                    if ecu not in f["receivers"]:
                        f["receivers"] = sorted(f["receivers"] + [ecu])
    elif opt == "frameIdIncrement":
        n = int_arg(arg)
        for f in st["frames"].values():
            f["id"] += n
            if not 0 <= f["id"] <= (0x1FFFFFFF if f["ext"] else 0x7FF):
                raise Silent("identifier leaves its range")
    elif opt == "changeFrameId":
        for old, new in split_pairs(arg):
            old, new = int_arg(old), int_arg(new)
            hit = [f for f in frames_in_order(st) if f["id"] == old]
            if len(hit) > 1:
                raise Silent("two frames carry that number")
            for f in hit:
                if not 0 <= new <= (0x1FFFFFFF if f["ext"] else 0x7FF):
                    raise Silent("identifier out of range for the frame type")
                if any(g is not f and g["id"] == new and g["ext"] == f["ext"] for g in st["frames"].values()):
                    raise Silent("identifier already in use")
                f["id"] = new
    elif opt in ("setFrameFd", "unsetFrameFd"):
        names = arg.split(",")
        for f in st["frames"].values():
            if f["name"] in names:
                f["is_fd"] = opt == "setFrameFd"
    elif opt == "skipLongDlc":
        t = int_arg(arg)
        drop_frames(st, lambda f: f["size"] > t)
    elif opt == "cutLongFrames":
        t = int_arg(arg)
        for f in st["frames"].values():
            if f["size"] > t:
                if any(s["is_multiplexer"] or s["mux_val"] is not None for s in f["signals"].values()):
                    raise Silent("multiplexed frame")
                drop_signals(f, lambda s: s["start"] + s["size"] > 8 * t)
                f["size"] = min_len(f)
    elif opt == "recalcDLC":
        if arg not in ("max", "force"):
            return st
        for f in st["frames"].values():
            f["size"] = max(f["size"], min_len(f)) if arg == "max" else min_len(f)
    elif opt == "compressFrame":
        raise Silent("compressFrame has its own oracle")
    elif opt in ("ecus", "frames", "signals", "merge"):
        return oracle_select(st, opt, arg, aux)
    else:
        raise ValueError(opt)
    return st


def int_arg(s):
    import re
    if not re.fullmatch(r"[+-]?[0-9]+", s):
        raise Silent("not a number")
    return int(s)


def glob_oracle(pat, name):
    """'*' any run of characters, '?' exactly one, everything else itself"""
    if "[" in pat:
        raise Silent("character class")
    n, m = len(pat), len(name)
    t = [[False] * (m + 1) for _ in range(n + 1)]
    t[0][0] = True
    for i in range(1, n + 1):
        for j in range(0, m + 1):
            if pat[i - 1] == "*":
                t[i][j] = t[i - 1][j] or (j > 0 and t[i][j - 1])
            elif j > 0 and (pat[i - 1] == "?" or pat[i - 1] == name[j - 1]):
                t[i][j] = t[i - 1][j - 1]
    return t[n][m]


def empty_like(st):
    return dict(ecus={}, frames={}, frame_order=[], free_list=[], attributes={},
                defines={c: {} for c in st["defines"]}, value_tables={}, env_vars={}, _selected=True,
                _source=st.get("_source", st))


def add_frame_copy(tgt, f, src):
    k = fkey(f)
    if k in tgt["frames"]:
        return                                          # "Don't make duplicates": the frame already there wins
    tgt["frames"][k] = copy.deepcopy(f)
    tgt["frames"][k]["_copied"] = True                 # where a copied frame is placed among the others is not documented
    tgt["frame_order"].append(k)
    for n in list(f["transmitters"]) + [r for s in f["signals"].values() for r in s["receivers"]]:
        if n in src["ecus"] and n not in tgt["ecus"]:
            tgt["ecus"][n] = copy.deepcopy(src["ecus"][n])


def oracle_select(st, opt, arg, aux):
    """--ecus / --frames / --signals copy into ONE new matrix (the first of them creates it); --merge adds the frames of the
    other file(s).  st["_source"] is the loaded input."""
    src = st.get("_source", st)
    tgt = st if st.get("_selected") else empty_like(st)
    if opt == "ecus":
        wanted = []
        for item in arg.split(","):
            p = item.split(":")
            if len(p) > 2:
                raise Silent("malformed")
            direction = p[1] if len(p) == 2 else None
            # a name or a pattern: every ECU of the source it selects is requested, in the order the source lists them
            for e in matching(p[0], list(src["ecus"])):
                wanted.append(e)
                if e not in tgt["ecus"]:
                    tgt["ecus"][e] = copy.deepcopy(src["ecus"][e])
                if direction != "rx":
                    for f in frames_in_order(src):
                        if e in f["transmitters"]:
                            add_frame_copy(tgt, f, src)
                if direction != "tx":
                    for f in frames_in_order(src):
                        if any(e in s["receivers"] for s in f["signals"].values()):
                            add_frame_copy(tgt, f, src)
        # "lite ECU extract": besides the requested ECUs only the senders of the extracted frames stay; the other ECUs
        # disappear together with their entries in receiver lists
        keep = set(wanted) | {t for f in tgt["frames"].values() for t in f["transmitters"]}
        keep |= set(tgt.get("_keep", set()))
        tgt["_keep"] = keep
        for n in [n for n in tgt["ecus"] if n not in keep]:
            del tgt["ecus"][n]
        for f in tgt["frames"].values():
            f["transmitters"] = [t for t in f["transmitters"] if t in keep]
            f["receivers"] = [r for r in f["receivers"] if r in keep]
            for s in f["signals"].values():
                s["receivers"] = [r for r in s["receivers"] if r in keep]
    elif opt == "frames":
        for n in arg.split(","):
            for f in frames_in_order(src):
                if f["name"] == n:
                    add_frame_copy(tgt, f, src)
                    break
    elif opt == "signals":
        for n in arg.split(","):
            for f in frames_in_order(src):
                for sn in f["signal_order"]:
                    if glob_oracle(n, sn):
                        tgt["free_list"].append(copy.deepcopy(f["signals"][sn]))
        names = [s["name"] for s in tgt["free_list"]]
        if len(set(names)) != len(names):
            raise Silent("two free signals of one name: a DBC file cannot carry them (the writer numbers them)")
    elif opt == "merge":
        # --merge filename[:ecu=SOMEECU][:frame=FRAME1][:frame=FRAME2]: the whole file, or only the named ECUs (with the frames
        # they send and receive) and frames of it, are merged INTO the matrix; what is there stays as it is and wins on an
        # identifier conflict
        tgt = st
        other = aux[0]
        for spec in arg.split(","):
            parts = spec.split(":")
            if len(parts) == 1:
                for f in frames_in_order(other):
                    add_frame_copy(tgt, f, other)
                for k, v in other["env_vars"].items():
                    tgt["env_vars"].setdefault(k, copy.deepcopy(v))
            for part in parts[1:]:
                kv = part.split("=")
                if len(kv) != 2 or kv[0] not in ("ecu", "frame") or not pattern_ok(kv[1]):
                    raise Silent("merge sub-option")
                if kv[0] == "ecu":
                    for e in matching(kv[1], list(other["ecus"])):
                        if e not in tgt["ecus"]:
                            tgt["ecus"][e] = copy.deepcopy(other["ecus"][e])
                        for f in frames_in_order(other):
                            if e in f["transmitters"]:
                                add_frame_copy(tgt, f, other)
                        for f in frames_in_order(other):
                            if any(e in sg["receivers"] for sg in f["signals"].values()):
                                add_frame_copy(tgt, f, other)
                else:
                    for f in frames_in_order(other):
                        if f["name"] == kv[1]:
                            add_frame_copy(tgt, f, other)
                            break
        tgt["_merged"] = True
    return tgt


# options whose documentation describes the OUTPUT ("force new calculated dlc", "defines no attribute exists for", "ECUs not
# referenced", "zero length signals") - their place after the edits they speak about is part of that documentation
STATE_OPTIONS = {"recalcDLC", "deleteObsoleteDefines", "deleteObsoleteEcus", "deleteZeroSignals"}
SELECTION = {"ecus", "frames", "signals", "merge"}


def swappable(opts):
    """the two in-place options of a command line whose mutual order no documentation fixes, or None"""
    inplace = [o for o in opts if o[0] not in SELECTION]
    if len(inplace) != 2 or inplace[0][0] == inplace[1][0]:
        return None
    if any(o[0] in STATE_OPTIONS or o[0] == "compressFrame" for o in inplace):
        return None
    return tuple(sorted((inplace[0][0], inplace[1][0]), key=lambda k: KIND[k]))


def oracle(st0, opts, aux=None, reverse=False, swap=None):
    """opts: list of (option, argument); composed in the pipeline order (reverse: in the opposite order - used only to measure
    how many generated pairs would give another result if the stages ran the other way round)"""
    st = copy.deepcopy(st0)
    st["_source"] = copy.deepcopy(st0)
    seq = sorted(opts, key=lambda oa: KIND[oa[0]], reverse=reverse)
    if swap:
        i, j = [n for n, oa in enumerate(seq) if oa[0] in swap]
        seq[i], seq[j] = seq[j], seq[i]
    for opt, arg in seq:
        if opt not in SWITCHES and arg == "" and opt in ("ecus", "frames", "signals", "deleteSignalAttributes",
                                                          "deleteFrameAttributes", "recalcDLC"):
            continue                                    # an empty argument counts as "not given"
        st = oracle_one(st, opt, arg, aux)
    return st


def layout(nf):
    """what every format of the plumbing runs carries: frames in order with identifier, name, length and the signals' names,
    positions, widths, byte order, signedness and scaling"""
    return dict(order=list(nf["frame_order"]),
                frames={k: dict(name=f["name"], size=f["size"],
                                signals={n: (sg["start"], sg["size"], sg["le"], sg["signed"], sg["factor"], sg["offset"])
                                         for n, sg in f["signals"].items()},
                                signal_order=list(f["signal_order"]))
                        for k, f in nf["frames"].items()})


def compare(expected_st, observed_nf, level="full"):
    """list of differences between the oracle's description and the re-read output.
    Frame order: the frames the options leave in place keep their relative order (nothing else changes); the documentation of
    --ecus / --frames / --merge names WHICH frames are copied, not where a copied frame is placed among the others, so the
    position of copied frames is not compared."""
    exp = finalize(expected_st)
    selected = exp.pop("_selected", False)
    merged = exp.pop("_merged", False)
    for k in ("_source", "_keep"):
        exp.pop(k, None)
    copied = {k for k, f in exp["frames"].items() if f.pop("_copied", False)}
    exp_order = [k for k in exp["frame_order"] if k not in copied]
    obs_order = [k for k in observed_nf["frame_order"] if k not in copied]
    order_diff = [("/frame_order (frames left in place)", exp_order, obs_order)] if exp_order != obs_order else []
    if level == "layout":
        le, lo = layout(exp), layout(observed_nf)
        le.pop("order"), lo.pop("order")
        return matgen.diff(le, lo) + order_diff
    e, o = view(exp), view(observed_nf)
    if selected or merged:
        # a new matrix / a merged one: the documentation speaks about frames, ECUs and their attributes; every attribute carried
        # by a kept object must still be defined as in the source; what else the new matrix holds is not documented
        out = list(order_diff)
        for part in ("frames", "ecus", "free_list"):
            out += matgen.diff(e[part], o[part], "/" + part)
        for cat, objs in (("frame_defines", list(e["frames"].values())), ("ecu_defines", list(e["ecus"].values())),
                          ("signal_defines", [s for f in e["frames"].values() for s in f["signals"].values()] + e["free_list"])):
            for a in sorted({a for ob in objs for a in ob["attributes"]}):
                src_def = (expected_st.get("_source") or expected_st)["defines"][cat].get(a)
                if src_def is not None and not merged and o["defines"][cat].get(a) != src_def:
                    out.append(("/defines/%s/%s" % (cat, a), src_def, o["defines"][cat].get(a, "<absent>")))
                if merged and a not in o["defines"][cat]:
                    out.append(("/defines/%s/%s" % (cat, a), "defined", "<absent>"))
        return out
    return matgen.diff(e, o)


# ------------------------------------------------------------------------------------------------------------------
# input files
def gen_input(rng, C, idx, big=False):
    """a matrix inside the DBC envelope with what the property asks for: frames longer than 8 bytes, zero-width signals,
    an ECU that sends and receives, attributes with definitions, names that are prefixes of each other"""
    db = matgen.gen_matrix(rng, C, n_frames=(3, 6) if not big else (5, 9), n_ecus=(3, 5), max_len=64, fd=True, ext_ids=True,
                           attributes=True, comments=True, cycle_times=idx % 3 != 2, value_tables=True, multi_senders=idx % 2 == 0,
                           initial_on_grid=True, fd_j1939_exclusive=True, mux="none", unique_signal_names=idx % 4 == 0,
                           signal_groups=False, long_names=False)
    frames = list(db.frames)
    ecus = [e.name for e in db.ecus]
    # names that are prefixes of each other
    if len(frames) >= 2:
        base = frames[0].name
        if all(f.name != base + "X" for f in frames):
            frames[1].name = base + "X"
    # an ECU that sends and receives; an ECU nobody references (every second file)
    f0 = frames[0]
    snd = f0.transmitters[0] if f0.transmitters else ecus[0]
    for f in frames[1:]:
        if f.signals and snd not in f.transmitters:
            f.signals[0].add_receiver(snd)
            f.update_receiver()
            break
    if idx % 2 == 0:
        db.add_ecu(C.Ecu("EUnused%d" % idx))
    # an ECU that only receives
    ro = C.Ecu("ERcvOnly")
    db.add_ecu(ro)
    for f in frames[:2]:
        if f.signals:
            f.signals[-1].add_receiver("ERcvOnly")
            f.update_receiver()
    # zero-width signals, two adjacent ones in one frame
    for f in rng.sample(frames, min(2, len(frames))):
        used = {s.name for s in f.signals} | ({s.name for g in frames for s in g.signals} if idx % 4 == 0 else set())
        for j in range(2 if f is frames[0] else 1):
            n = "SZero%d_%d" % (frames.index(f), j)
            if n in used:
                continue
            z = C.Signal(n, start_bit=rng.randrange(0, 8 * f.size), size=0, is_little_endian=True, is_signed=False)
            z.min, z.max = 0, 0
            if ecus:
                z.add_receiver(rng.choice(ecus))
            f.signals.insert(rng.randrange(0, len(f.signals) + 1), z) if j == 0 else f.signals.insert(f.signals.index(prev) + 1, z)
            prev = z
        f.update_receiver()
    # a frame whose declared length is larger / smaller than its signals need (recalcDLC, cutLongFrames)
    if len(frames) >= 3 and frames[2].size < 8:
        frames[2].size += 1
    if 2 <= frames[-1].size <= 8 and len(frames) >= 2:
        frames[-1].size -= 1
    # a 29-bit frame whose identifier number would also fit into 11 bits (changeFrameId)
    if idx % 3 == 0:
        for f in frames:
            if f.arbitration_id.extended and not f.is_j1939:
                small = rng.randrange(1, 0x7FF)
                if all(g.arbitration_id.id != small for g in frames):
                    f.arbitration_id.id = small
                break
    # an attribute definition nobody uses (deleteObsoleteDefines)
    db.add_frame_defines("FrUnusedAttr", "INT 0 10")
    db.add_define_default("FrUnusedAttr", "3")
    db.add_signal_defines("SigUnusedAttr", "STRING")
    db.add_define_default("SigUnusedAttr", "u")
    add_interaction_frames(rng, C, db)
    return db


def add_interaction_frames(rng, C, db):
    """three small frames on which later stages of convert() depend on earlier ones (interaction_cases):
      FGapFrame  8 bytes declared, Intel signals at 16 and 40: gaps for compressFrame, the last signal determines the needed
                 length (6), declared > needed; the only frame of its sender EGapOnly; the only carrier of FrOnlyAttr, its signal
                 SGapA the only carrier of SigOnlyAttr
      FZeroEnd   4 bytes, a zero-width signal at bit 31 is the only thing behind byte 0
      FShortDecl declared 2 bytes, its signal needs 3"""
    used = {f.arbitration_id.id for f in db.frames}
    ids = [i for i in range(0x700, 0x7F0) if all(abs(i - u) > 2 for u in used)]
    rcv = db.ecus[0].name
    db.add_ecu(C.Ecu("EGapOnly"))
    db.add_frame_defines("FrOnlyAttr", "INT 0 100")
    db.add_define_default("FrOnlyAttr", "1")
    db.add_signal_defines("SigOnlyAttr", "INT 0 100")
    db.add_define_default("SigOnlyAttr", "2")

    def sig(name, start, size, receiver=True):
        sg = C.Signal(name, start_bit=start, size=size, is_little_endian=True, is_signed=False)
        if size == 0:
            sg.min, sg.max = 0, 0
        if receiver:
            sg.add_receiver(rcv)
        return sg
    a, b, c = rng.sample(ids[::6], 3)          # apart from each other: frameIdIncrement x changeFrameId must not collide
    gap = C.Frame("FGapFrame", arbitration_id=C.ArbitrationId(a, False), size=8)
    gap.add_transmitter("EGapOnly")
    gap.add_attribute("FrOnlyAttr", "7")
    sa = sig("SGapA", 16, 8)
    sa.add_attribute("SigOnlyAttr", "5")
    gap.add_signal(sa)
    gap.add_signal(sig("SGapB", 40, 8))
    ze = C.Frame("FZeroEnd", arbitration_id=C.ArbitrationId(b, False), size=4)
    ze.add_transmitter(rcv)
    ze.add_signal(sig("SZeA", 0, 8))
    ze.add_signal(sig("SZeroEnd", 31, 0))
    sh = C.Frame("FShortDecl", arbitration_id=C.ArbitrationId(c, False), size=2)
    sh.add_transmitter(rcv)
    sh.add_signal(sig("SShA", 16, 8))
    # ECU names with a common prefix: EGwFront sends FZeroEnd and receives, EGwRear only receives, EGwSpare is listed only
    for n in ("EGwFront", "EGwRear", "EGwSpare"):
        db.add_ecu(C.Ecu(n))
    db.ecus[-2].add_comment("rear gateway")
    ze.transmitters[:] = ["EGwFront"]
    gap.signals[1].add_receiver("EGwRear")
    gap.signals[1].add_receiver("EGwFront")
    sh.signals[0].add_receiver("EGwRear")
    for f in (gap, ze, sh):
        f.update_receiver()
        db.add_frame(f)


# ------------------------------------------------------------------------------------------------------------------
# running the converter
class Runner:
    def __init__(self, CM, tmp):
        import canmatrix.formats
        import canmatrix.convert
        import canmatrix.cli.convert
        self.CM = CM
        self.formats = canmatrix.formats
        self.convert = canmatrix.convert
        self.cli = canmatrix.cli.convert
        self.tmp = tmp
        self.n = 0
        self.captured = None
        self.fake_input = None
        orig_dump = canmatrix.formats.dumpp
        orig_load = canmatrix.formats.loadp
        runner = self

        def dumpp(dbs, fn, **o):
            runner.captured = copy.deepcopy(dbs)
            return orig_dump(dbs, fn, **o)

        def loadp(path, *a, **o):
            if runner.fake_input is not None and path == "<memory>":
                return {"": copy.deepcopy(runner.fake_input)}
            return orig_load(path, *a, **o)
        self._orig = (orig_dump, orig_load)
        canmatrix.formats.dumpp = dumpp
        canmatrix.formats.loadp = loadp

    def close(self):
        self.formats.dumpp, self.formats.loadp = self._orig

    def load(self, path):
        return self.formats.loadp_flat(path)

    def write(self, db, name):
        path = os.path.join(self.tmp, name)
        self._orig[0]({"": db}, path)
        return path

    CLI_PLUMB = {"import_type": "-i", "force_output": "-f"}

    def cli_args(self, opts, style, plumb=None):
        args = []
        for i, (k, v) in enumerate(opts):
            if k in SWITCHES:
                args.append("--" + k)
            elif (style + i) % 2 == 0:
                args.append("--%s=%s" % (k, v))
            else:
                args += ["--" + k, v]
        for k, v in (plumb or {}).items():
            if v is True:
                args.append("--" + k)
            elif k in self.CLI_PLUMB:
                args += [self.CLI_PLUMB[k], v]
            else:
                args.append("--%s=%s" % (k, v))
        return args

    def run(self, infile, opts, how, style=0, reread=True, plumb=None, out_name=None, load_opts=None):
        """how: 'fn' | 'cli'.  plumb: format / encoding options of canconvert (import_type, force_output, jsonExportAll,
        dbc*Encoding) given on top; out_name: output file name (default out_<how>.dbc); load_opts: how to re-read the output.
        returns dict(status, exc, bytes, nf, db)"""
        self.n += 1
        out = os.path.join(self.tmp, ("%s_" % how) + out_name if out_name else "out_%s.dbc" % how)
        if os.path.exists(out):
            os.remove(out)
        self.captured = None
        try:
            if how == "fn":
                kw = dict(plumb or {})
                for k, v in opts:
                    kw[k] = True if k in SWITCHES else v
                r = self.convert.convert(infile, out, **kw)
                rc = 0
            else:
                rc = self.cli.cli_convert.main(self.cli_args(opts, style, plumb) + [infile, out], standalone_mode=False)
        except BaseException as e:          # noqa: click raises its own exception classes, SystemExit included
            if isinstance(e, (KeyboardInterrupt, MemoryError)):
                raise
            if self.captured is not None:
                # the pipeline had finished and handed its matrix to the writer: the writer failed, not the options
                return dict(status="dumpfail", exc=type(e).__name__, msg=str(e)[:200], db=list(self.captured.values())[0])
            return dict(status="exc", exc=type(e).__name__, msg=str(e)[:200], db=None)
        if not os.path.exists(out):
            return dict(status="exc", exc="no output file", msg="", db=None)
        data = open(out, "rb").read()
        if not reread:
            return dict(status="ok", rc=rc, bytes=data, nf=None, db=list(self.captured.values())[0] if self.captured else None)
        try:
            nf = describe(self.formats.loadp_flat(out, **(load_opts or {})))
        except Exception as e:              # noqa
            return dict(status="unreadable", exc=type(e).__name__, msg=str(e)[:200], bytes=data, db=None)
        db = None
        if self.captured is not None:
            db = list(self.captured.values())[0]
        return dict(status="ok", rc=rc, bytes=data, nf=nf, db=db)


# ------------------------------------------------------------------------------------------------------------------
# argument variations
def single_cases(rng, st, other_path=None, other_st=None):
    """[(option, argument, tag)] for one input description: comma lists, tuples, suffixes, thresholds at/below/above the
    existing lengths, empty selections, names that do not exist"""
    F = [f["name"] for f in frames_in_order(st)]
    E = list(st["ecus"])
    S = []
    for f in frames_in_order(st):
        for n in f["signal_order"]:
            if n not in S:
                S.append(n)
    sizes = sorted({f["size"] for f in st["frames"].values()})
    senders = [t for f in st["frames"].values() for t in f["transmitters"]]
    receivers = {r for f in st["frames"].values() for s in f["signals"].values() for r in s["receivers"]}
    both = [e for e in E if e in senders and e in receivers]
    only = [e for e in E if e not in senders and e not in receivers]
    pick = lambda l, k=1: rng.sample(l, min(k, len(l)))
    cs = []
    add = lambda o, a, t: cs.append((o, a, t))
    # ---- ECUs
    for e in pick(E, 2) + both[:1]:
        add("deleteEcu", e, "one")
        add("renameEcu", e + ":EZz" + e[1:3], "one")
        add("ecus", e, "both")
        add("ecus", e + ":rx", "rx")
        add("ecus", e + ":tx", "tx")
    if len(E) >= 2:
        a, b = pick(E, 2)
        add("deleteEcu", a + "," + b, "list")
        add("renameEcu", "%s:ERenA,%s:ERenB" % (a, b), "list")
        add("ecus", a + "," + b, "list")
        add("ecus", a + ":rx," + b, "rx-then-plain")
        add("ecus", a + ":tx," + b, "tx-then-plain")
        add("ecus", a + "," + b + ":tx", "plain-then-tx")
        add("ecus", a + ":rx," + b + ":tx", "rx-then-tx")
    for b in both[:1]:
        o = [e for e in E if e != b]
        if o:
            add("ecus", o[0] + ":rx," + b, "rx-then-plain-sender-receiver")
            add("ecus", o[0] + ":tx," + b, "tx-then-plain-sender-receiver")
    add("deleteEcu", "ENope", "missing")
    add("renameEcu", "ENope:EOther", "missing")
    add("ecus", "ENope", "missing")
    for e in only[:1]:
        add("ecus", e, "unreferenced")
        add("deleteEcu", e, "unreferenced")
    add("deleteObsoleteEcus", "", "switch")
    # ---- frames
    for f in pick(F, 2) + F[:1]:
        add("deleteFrame", f, "one")
        add("renameFrame", f + ":FNew_" + f[1:4], "one")
        add("frames", f, "one")
        add("setFrameFd", f, "one")
        add("unsetFrameFd", f, "one")
        add("addFrameReceiver", f + ":ENewRcv", "new-ecu")
        add("compressFrame", f, "one")
        if E:
            add("addFrameReceiver", f + ":" + rng.choice(E), "listed-ecu")
    if len(F) >= 2:
        a, b = pick(F, 2)
        add("deleteFrame", a + "," + b, "list")
        add("renameFrame", "%s:FRa,%s:FRb" % (a, b), "list")
        add("frames", a + "," + b, "list")
        add("frames", a + ",FNope", "list-with-missing")
        add("setFrameFd", a + "," + b, "list")
        add("unsetFrameFd", a + "," + b, "list")
        add("addFrameReceiver", "%s:ENewRcv,%s:ENewRcv2" % (a, b), "list")
    add("addFrameReceiver", F[0][:2] + "*:ENewRcv", "glob")
    add("addFrameReceiver", "*:ENewRcv", "glob-all")
    add("compressFrame", "*", "glob-all")
    for o in ("deleteFrame", "frames", "setFrameFd", "unsetFrameFd"):
        add(o, "FNope", "missing")
    add("renameFrame", "FNope:FOther", "missing")
    add("addFrameReceiver", "FNope:ENewRcv", "missing")
    # ---- identifiers
    ids = [(f["id"], f["ext"]) for f in frames_in_order(st)]
    top = max(i for i, _ in ids)
    for n in (1, 0, 16):
        add("frameIdIncrement", str(n), "up")
    if min(i for i, _ in ids) >= 1:
        add("frameIdIncrement", "-1", "down")
    free_std = [i for i in range(1, 0x7FF) if all(j != i for j, _ in ids)]
    for (i, ext) in ids[:4]:
        new = rng.choice(free_std)
        add("changeFrameId", "%d:%d" % (i, new), "ext" if ext else "std")
    if len(ids) >= 2:
        n1, n2 = rng.sample(free_std, 2)
        add("changeFrameId", "%d:%d,%d:%d" % (ids[0][0], n1, ids[1][0], n2), "list")
    add("changeFrameId", "%d:5" % rng.choice([i for i in range(1, 0x7FF) if all(j != i for j, _ in ids)]), "missing-std")
    add("changeFrameId", "%d:5" % (top + 0x800), "missing-large")
    # ---- lengths
    for L in sizes:
        for t in (L - 1, L, L + 1):
            if t >= 0:
                add("skipLongDlc", str(t), "below" if t < L else ("at" if t == L else "above"))
                add("cutLongFrames", str(t), "below" if t < L else ("at" if t == L else "above"))
    for t in (0, 8, 64):
        add("skipLongDlc", str(t), "fixed")
        add("cutLongFrames", str(t), "fixed")
    ends = sorted({(s["start"] + s["size"] + 7) // 8 for f in st["frames"].values() for s in f["signals"].values()})
    for t in pick([e for e in ends if e >= 1], 3):
        add("cutLongFrames", str(t), "signal-end")
        add("cutLongFrames", str(t - 1), "before-signal-end")
    for a in ("max", "force", "other"):
        add("recalcDLC", a, a)
    # ---- signals
    for s in pick(S, 2):
        add("deleteSignal", s, "one")
        add("renameSignal", s + ":SNew_" + s[1:4], "one")
        add("signals", s, "one")
    if len(S) >= 2:
        a, b = pick(S, 2)
        add("deleteSignal", a + "," + b, "list")
        add("renameSignal", "%s:SRa,%s:SRb" % (a, b), "list")
        add("signals", a + "," + b, "list")
    add("deleteSignal", "SNope", "missing")
    add("renameSignal", "SNope:SOther", "missing")
    add("signals", "SNope", "missing")
    add("deleteZeroSignals", "", "switch")
    # ---- attributes / definitions
    fa = sorted({a for f in st["frames"].values() for a in f["attributes"] if a not in DERIVED_ATTRS})
    sa = sorted({a for f in st["frames"].values() for s in f["signals"].values() for a in s["attributes"] if a not in DERIVED_ATTRS})
    for a in fa[:2]:
        add("deleteFrameAttributes", a, "one")
    if len(fa) >= 2:
        add("deleteFrameAttributes", ",".join(fa[:2]), "list")
    add("deleteFrameAttributes", "GenMsgCycleTime", "cycle-time")
    add("deleteFrameAttributes", "GenMsgCycleTime," + (fa[0] if fa else "NoSuchAttr"), "cycle-time-list")
    add("deleteFrameAttributes", "NoSuchAttr", "missing")
    for a in sa[:2]:
        add("deleteSignalAttributes", a, "one")
    if len(sa) >= 2:
        add("deleteSignalAttributes", ",".join(sa[:2]), "list")
    add("deleteSignalAttributes", "NoSuchAttr", "missing")
    add("deleteObsoleteDefines", "", "switch")
    # ---- names that are patterns: '*' any run, '?' one character; matching none, one and several objects
    for a in ("EGw*", "EGwR*", "EGw?ear", "E*Only", "ENo*", "*", "EGwR*:rx", "EGw*:rx", "EGw*:tx", "EGw*:rx,EGwFront:tx",
              "EGwR*," + E[0], E[0] + ":tx,EGw*"):
        add("ecus", a, "pattern")
    for a in ("EGw*", "EGwR*", "EGw?ear", "E*Only", "ENo*", "EGwS*," + E[0]):
        add("deleteEcu", a, "pattern")
    for a in ("SGap*", "SGap?", "SZero*", "S*End", "SNo*", "SGap?,SZeA"):
        add("deleteSignal", a, "pattern")
    for a in ("FGap*:ENewRcv", "F?eroEnd:ENewRcv", "FNo*:ENewRcv", "F*:EGwSpare"):
        add("addFrameReceiver", a, "pattern")
    for a in ("FGap*", "FNo*", "F???Frame"):
        add("compressFrame", a, "pattern")
    for a in ("FGap*:FX", "*End:Fin", "FNo*:FX", F[0] + "*:FPre", "*NoSuchEnd:X"):
        add("renameFrame", a, "pattern")
    for a in ("SGap*:SG", "*End:Fin", "SZero*:SZ", "SNo*:SX", "SGap*:SG,*A:Alpha"):
        add("renameSignal", a, "pattern")
    if other_path and other_st:
        for a in ("EGw*", "EGwR*", "ENo*", "E*Only"):
            add("merge", other_path + ":ecu=" + a, "merge-ecu-pattern")
    if other_path and other_st:
        add("merge", other_path, "file")
        OF = [f["name"] for f in frames_in_order(other_st)]
        osend = [t for f in other_st["frames"].values() for t in f["transmitters"]]
        orecv = {r for f in other_st["frames"].values() for sg in f["signals"].values() for r in sg["receivers"]}
        OE = [e for e in other_st["ecus"] if e in osend and e in orecv] or list(other_st["ecus"])
        add("merge", other_path + ":ecu=" + OE[0], "merge-ecu")
        add("merge", other_path + ":frame=" + OF[-1], "merge-frame")
        add("merge", other_path + ":frame=" + OF[0], "merge-frame-id-conflict")
        add("merge", other_path + ":frame=FNope", "merge-frame-missing")
        add("merge", other_path + ":ecu=ENope", "merge-ecu-missing")
        add("merge", "%s:ecu=%s:frame=%s:frame=%s" % (other_path, OE[-1], OF[1], OF[-1]), "merge-ecu-and-frames")
    return cs


def pair_args(rng, st, other_path, thorough):
    """one argument per option of the reduced set, chosen so that the stages do NOT commute wherever the options allow it
    (a later stage addresses what an earlier one creates: the renamed frame / ECU / signal is deleted, the incremented
    identifier is changed, the cut threshold lies below the skip threshold, the selection uses the names before renaming)"""
    F = [f["name"] for f in frames_in_order(st)]
    E = list(st["ecus"])
    S = []
    for f in frames_in_order(st):
        for n in f["signal_order"]:
            if n not in S:
                S.append(n)
    ids = [(f["id"], f["ext"]) for f in frames_in_order(st)]
    sizes = sorted({f["size"] for f in st["frames"].values()})
    free_std = [i for i in range(1, 0x7FF) if all(abs(j - i) > 1 for j, _ in ids)]
    mid = sizes[len(sizes) // 2]
    fa = sorted({a for f in st["frames"].values() for a in f["attributes"] if a not in DERIVED_ATTRS})
    na, nb = rng.sample(free_std, 2)
    d = {
        "ecus": E[0] + ":rx," + E[-1],
        "frames": ",".join(F[:max(1, len(F) - 1)]),
        "renameEcu": E[0] + ":ERenamed",
        "deleteEcu": "ERenamed," + E[-1],
        "renameFrame": F[0] + ":FRenamed",
        "deleteFrame": "FRenamed," + F[-1],
        "frameIdIncrement": "1",
        "changeFrameId": "%d:%d,%d:%d" % (ids[0][0] + 1, na, ids[-1][0], nb),
        "setFrameFd": F[0] + "," + F[-1],
        "skipLongDlc": str(mid),
        "cutLongFrames": str(max(1, mid - 1)),
        "renameSignal": S[0] + ":SRenamed",
        "deleteSignal": "SRenamed," + S[-1],
        "deleteZeroSignals": "",
        "deleteObsoleteEcus": "",
        "recalcDLC": "force",
    }
    if thorough:
        d.update({
            "unsetFrameFd": ",".join(F[:-1]),
            "addFrameReceiver": F[0] + ":ENewRcv,FRenamed:ENewRcv2",
            "deleteSignalAttributes": "SigFloatAttr",
            "deleteFrameAttributes": (fa[0] if fa else "FrHexAttr") + ",FrOnlyAttr",      # (GenMsgCycleTime: singles; known finding)
            "deleteObsoleteDefines": "",
            "signals": S[0],
        })
        if other_path:
            d["merge"] = other_path
    return d


def interaction_cases(st, other_st, other_path):
    """[(kind, (option, argument) of the EARLIER stage, (option, argument) of the LATER stage)]: for every pair of stages of
    convert() whose effects can depend on their order, arguments built on this input so that they DO (the later stage addresses
    what the earlier one creates, removes or resizes).  Uses the frames of add_interaction_frames and the first ordinary frame."""
    F = [f["name"] for f in frames_in_order(st)]
    f0 = st["frames"][st["frame_order"][0]]
    E = [e for e in st["ecus"] if e not in ("EGapOnly", "ERcvOnly") and not e.startswith("EUnused")]
    e0 = E[0]
    not_rcv = [f["name"] for f in frames_in_order(st) if f["signals"] and all(e0 not in sg["receivers"] for sg in f["signals"].values())]
    gap = [f for f in st["frames"].values() if f["name"] == "FGapFrame"][0]
    sh = [f for f in st["frames"].values() if f["name"] == "FShortDecl"][0]
    s0 = f0["signal_order"][0] if f0["signal_order"] else "SGapA"
    nonfd = [f["name"] for f in frames_in_order(st) if not f["is_fd"]][0]
    cs = []
    add = lambda kind, a, b: cs.append((kind, a, b))
    # ECUs
    add("renameEcu-deleteEcu", ("renameEcu", e0 + ":ENewName"), ("deleteEcu", "ENewName"))
    if not_rcv:
        add("renameEcu-addFrameReceiver", ("renameEcu", e0 + ":ENewName"), ("addFrameReceiver", not_rcv[0] + ":" + e0))
        add("deleteEcu-addFrameReceiver", ("deleteEcu", e0), ("addFrameReceiver", not_rcv[0] + ":" + e0))
    add("deleteFrame-deleteObsoleteEcus", ("deleteFrame", "FGapFrame"), ("deleteObsoleteEcus", ""))
    add("skipLongDlc-deleteObsoleteEcus", ("skipLongDlc", "7"), ("deleteObsoleteEcus", ""))
    # frames by name
    add("renameFrame-deleteFrame", ("renameFrame", F[0] + ":FNewName"), ("deleteFrame", "FNewName"))
    add("renameFrame-setFrameFd", ("renameFrame", nonfd + ":FNewName"), ("setFrameFd", "FNewName"))
    isfd = [f["name"] for f in frames_in_order(st) if f["is_fd"]]
    if isfd:
        add("renameFrame-unsetFrameFd", ("renameFrame", isfd[0] + ":FNewName"), ("unsetFrameFd", "FNewName"))
    add("renameFrame-addFrameReceiver", ("renameFrame", "FGapFrame:FNewName"), ("addFrameReceiver", "FNewName:ENewRcv"))
    add("renameFrame-compressFrame", ("renameFrame", "FGapFrame:FNewName"), ("compressFrame", "FNewName"))
    add("setFrameFd-unsetFrameFd", ("setFrameFd", nonfd), ("unsetFrameFd", nonfd))
    # identifiers
    add("frameIdIncrement-changeFrameId", ("frameIdIncrement", "1"), ("changeFrameId", "%d:%d" % (gap["id"] + 1, gap["id"] + 2)))
    # lengths
    add("skipLongDlc-cutLongFrames", ("skipLongDlc", "7"), ("cutLongFrames", "6"))
    add("skipLongDlc-recalcDLC", ("skipLongDlc", "6"), ("recalcDLC", "force"))
    add("cutLongFrames-recalcDLC", ("cutLongFrames", str(sh["size"])), ("recalcDLC", "force"))
    add("cutLongFrames-deleteObsoleteDefines", ("cutLongFrames", "1"), ("deleteObsoleteDefines", ""))
    add("deleteSignal-recalcDLC", ("deleteSignal", "SGapB"), ("recalcDLC", "force"))
    add("deleteZeroSignals-recalcDLC", ("deleteZeroSignals", ""), ("recalcDLC", "force"))
    add("compressFrame-recalcDLC", ("compressFrame", "FGapFrame"), ("recalcDLC", "force"))
    add("renameSignal-deleteSignal-last", ("renameSignal", "SGapB:SNewName"), ("deleteSignal", "SNewName"))
    # signals by name
    add("renameSignal-deleteSignal", ("renameSignal", s0 + ":SNewName"), ("deleteSignal", "SNewName"))
    # attributes and definitions
    add("deleteSignal-deleteObsoleteDefines", ("deleteSignal", "SGapA"), ("deleteObsoleteDefines", ""))
    add("deleteSignalAttributes-deleteObsoleteDefines", ("deleteSignalAttributes", "SigOnlyAttr"), ("deleteObsoleteDefines", ""))
    add("deleteFrameAttributes-deleteObsoleteDefines", ("deleteFrameAttributes", "FrOnlyAttr"), ("deleteObsoleteDefines", ""))
    add("deleteFrame-deleteObsoleteDefines", ("deleteFrame", "FGapFrame"), ("deleteObsoleteDefines", ""))
    add("deleteEcu-deleteObsoleteDefines", ("deleteEcu", ",".join(e for e in st["ecus"] if st["ecus"][e]["attributes"])), ("deleteObsoleteDefines", ""))
    # the merged file
    if other_path and other_st:
        OF = [f["name"] for f in frames_in_order(other_st)]
        OE = [e for e in other_st["ecus"] if e not in st["ecus"]]
        add("merge-deleteFrame", ("merge", other_path), ("deleteFrame", OF[-1]))
        add("merge-renameFrame", ("merge", other_path), ("renameFrame", OF[1] + ":FNewName"))
        add("merge-skipLongDlc", ("merge", other_path), ("skipLongDlc", "3"))
        if OE:
            add("merge-deleteEcu", ("merge", other_path), ("deleteEcu", OE[0]))
    # selection by the names / numbers before the later stages change them
    add("frames-renameFrame", ("frames", F[0] + ",FGapFrame"), ("renameFrame", F[0] + ":FNewName"))
    add("ecus-renameEcu", ("ecus", e0), ("renameEcu", e0 + ":ENewName"))
    add("ecus-deleteEcu", ("ecus", e0 + ",EGapOnly"), ("deleteEcu", e0))
    return [c for c in cs if c[1][1] != "" or c[1][0] in SWITCHES]


QUICK_PAIR_SET = ["ecus", "frames", "renameEcu", "deleteEcu", "renameFrame", "deleteFrame", "frameIdIncrement", "changeFrameId",
                  "skipLongDlc", "cutLongFrames", "deleteSignal", "deleteObsoleteEcus"]


# ------------------------------------------------------------------------------------------------------------------
# tie: the matrix as model/Run_C18.v reads it
class Interner:
    def __init__(self):
        self.d = {"VFrameFormat": 0}

    def __call__(self, s):
        s = str(s)
        if s not in self.d:
            self.d[s] = len(self.d)
        return self.d[s]


def put_str(s):
    return [len(s)] + codes(s)


def sig_group(tag, s, uid):
    mv = -1 if s.mux_val is None else int(s.mux_val)
    g = [tag, uid, int(s.get_startbit()), int(s.size), int(bool(s.is_little_endian)), int(bool(s.is_multiplexer)), mv, 0] + put_str(s.name) + [len(s.receivers)]
    for r in s.receivers:
        g += put_str(r)
    return g


def matrix_groups(db, intern, uids=None):
    """uids: dict id(obj) -> uid (stable across the conversion when given), else positions"""
    out = []
    nxt = [1]

    def uid(o):
        if uids is None:
            nxt[0] += 1
            return nxt[0]
        return uids.setdefault(id(o), len(uids) + 1)
    for f in db.frames:
        g = [1, uid(f), int(f.arbitration_id.id), int(bool(f.arbitration_id.extended)), int(f.size), int(bool(f.is_fd)), 0] + put_str(f.name)
        g.append(len(f.attributes))
        for k, v in f.attributes.items():
            g += [intern(k), intern("v:" + str(v))]
        g.append(len(f.receivers))
        for r in f.receivers:
            g += put_str(r)
        out.append(g)
        sig_uid = {}
        for s in f.signals:
            sig_uid[id(s)] = uid(s)
            out.append(sig_group(2, s, sig_uid[id(s)]))
        for gr in f.signalGroups:
            out.append([5, int(gr.id)] + put_str(gr.name) + [sig_uid.get(id(s), -1) for s in gr.signals])
        for p in f.pdus:
            out.append([3, int(p.id), int(p.size)] + put_str(p.name))
            for s in p.signals:
                out.append(sig_group(4, s, uid(s)))
    return out


def strip_uids(groups):
    """identities are not comparable across a deep copy: compare everything but the uid; group members by position"""
    out = []
    pos = {}
    for g in groups:
        if g[0] == 1:
            pos = {}
            out.append([1] + g[2:])
        elif g[0] in (2, 4):
            pos[g[1]] = len(pos)
            out.append([g[0]] + g[2:])
        elif g[0] == 5:
            n = g[2]
            out.append(g[:3 + n] + [pos.get(u, -1) for u in g[3 + n:]])
        else:
            out.append(g)
    return out


def in_syntax(opt, arg):
    """the argument is written as the option's documentation says (numbers: decimal integers; tuples: exactly one ':')"""
    import re
    num = lambda x: re.fullmatch(r"[+-]?[0-9]+", x) is not None
    if opt in ("frameIdIncrement", "skipLongDlc", "cutLongFrames"):
        return num(arg)
    if opt == "changeFrameId":
        return all(len(t.split(":")) == 2 and all(num(x) for x in t.split(":")) for t in arg.split(","))
    if opt == "addFrameReceiver":
        return all(len(t.split(":")) == 2 and all(t.split(":")) for t in arg.split(","))
    return True


def known_group_names(db):
    """names a signal group can have by documentation: the names of the PDUs and of the groups that exist already"""
    return {p.name for f in db.frames for p in f.pdus if p.name} | {g.name for f in db.frames for g in f.signalGroups}


def canon_labels(groups, known):
    """the name convert() invents for the signal group of an UNNAMED contained PDU is not documented: projected away (empty
    name) on both sides of the tie; members, group number and every named group stay compared"""
    out = []
    for g in groups:
        if g and g[0] == 5:
            n = g[2]
            name = "".join(chr(c) for c in g[3:3 + n])
            if name not in known:
                g = g[:2] + [0] + g[3 + n:]
        out.append(g)
    return out


def unstrip_uids(groups):
    """answer groups of the model (no identities, group members as positions) -> matrix groups it reads"""
    out, uid, sig_uids = [], 0, []
    for g in groups:
        if g[0] == 1:
            uid += 1
            sig_uids = []
            out.append([1, uid] + g[1:])
        elif g[0] in (2, 4):
            uid += 1
            if g[0] == 2:
                sig_uids.append(uid)
            out.append([g[0], uid] + g[1:])
        elif g[0] == 5:
            n = g[2]
            out.append(g[:3 + n] + [sig_uids[x] if 0 <= x < len(sig_uids) else -1 for x in g[3 + n:]])
        else:
            out.append(g)
    return out


def reverse_model(rev):
    """stage `second` alone, then stage `first` on its result, through the model"""
    cl_second, cl_first, matrix = rev
    a = core.parse_out(core.run_model([core.fmt_case(1807, cl_second + matrix)])[0])
    if a == [[0]]:
        return a
    return core.parse_out(core.run_model([core.fmt_case(1807, cl_first + unstrip_uids(a[1:]))])[0])


def cl_groups(opts):
    return [[10, KIND[k]] + codes("" if k in SWITCHES else v) for k, v in opts]



def gen_tiny(rng, C, pdu=False):
    """a small in-memory matrix for the volume tie (handed to convert() through a wrapped loadp)"""
    db = C.CanMatrix()
    db.add_frame_defines("Other", "INT 0 10")
    db.add_frame_defines("VFrameFormat", 'ENUM  "StandardCAN","ExtendedCAN","reserved","reserved","reserved","reserved","reserved","reserved","reserved","reserved","reserved","reserved","reserved","reserved","StandardCAN_FD","ExtendedCAN_FD"')
    names = ["A", "AB", "B", "Fr1", "Fr2", "AX"]
    rng.shuffle(names)
    used = set()
    for i in range(rng.randrange(0, 5)):
        ext = rng.random() < 0.4
        for _ in range(50):
            fid = rng.randrange(0, 0x20 if rng.random() < 0.7 else (0x1FFFFFFF if ext else 0x7FF))
            if (fid, ext) not in used:
                break
        used.add((fid, ext))
        f = C.Frame(names[i], arbitration_id=C.ArbitrationId(fid, ext), size=rng.choice([0, 1, 2, 3, 8, 9, 12, 64]),
                    is_fd=rng.random() < 0.4)
        if rng.random() < 0.5:
            f.add_attribute("VFrameFormat", rng.choice(["StandardCAN", "StandardCAN_FD"]))
        if rng.random() < 0.4:
            f.add_attribute("Other", str(rng.randrange(3)))
        f.add_transmitter("E1")
        for j in range(rng.randrange(0, 4)):
            s = C.Signal("S%d%s" % (j, rng.choice(["", "x"])), start_bit=rng.randrange(0, 80), size=rng.choice([0, 1, 4, 8, 16]),
                         is_little_endian=rng.random() < 0.5, is_signed=False)
            for r in rng.sample(["E1", "E2", "E3"], rng.randrange(0, 3)):
                s.add_receiver(r)
            f.add_signal(s)
        f.update_receiver()
        if pdu and rng.random() < 0.6:
            if rng.random() < 0.6:
                f.add_signal(C.Signal("Header_ID", start_bit=0, size=rng.choice([8, 24]), is_little_endian=True, is_signed=False))
                if rng.random() < 0.8:
                    f.add_signal(C.Signal("Header_DLC", start_bit=24, size=8, is_little_endian=True, is_signed=False))
            for pi in range(rng.randrange(1, 4)):
                p = C.Pdu(name=rng.choice(["", "Pdu%d_%d" % (i, pi)]), size=rng.randrange(1, 9), id=rng.randrange(0, 300))
                for j in range(rng.randrange(0, 3)):
                    p.add_signal(C.Signal("P%d_%d_%d" % (i, pi, j), start_bit=rng.randrange(0, 32), size=rng.choice([1, 8]),
                                          is_little_endian=True, is_signed=False))
                f.pdus.append(p)
        db.add_frame(f)
    return db


def tiny_opts(rng, db, pdu=False):
    """one or two directly modelled options, well-formed or not"""
    F = [f.name for f in db.frames] + ["Nope"]
    ids = [f.arbitration_id.id for f in db.frames] + [5, 0x800, 123456]
    def one():
        k = rng.choice(DIRECT if not pdu else ["ignorePduContainer", "recalcDLC", "cutLongFrames", "skipLongDlc"])
        r = rng.random()
        if k == "addFrameReceiver":
            a = rng.choice([rng.choice(F) + ":" + rng.choice(["E1", "E9"]), "*:E9", rng.choice(F)[:1] + "*:E2,Nope:E1", "A?:E3",
                            rng.choice(F), "a:b:c", "", rng.choice(F) + ":"])
        elif k == "frameIdIncrement":
            a = rng.choice(["1", "0", "-1", "+7", "16", "x", "", "1.5", "0x10", "12a", "--1"])
        elif k == "changeFrameId":
            a = rng.choice(["%d:%d" % (rng.choice(ids), rng.randrange(0, 0x7FF)),
                            "%d:%d,%d:%d" % (rng.choice(ids), rng.randrange(0, 0x7FF), rng.choice(ids), rng.randrange(0, 0x7FF)),
                            "%d:x" % rng.choice(ids), "x:1", "%d" % rng.choice(ids), "1:2:3", "", "-1:4", "%d:-3" % rng.choice(ids)])
        elif k in ("setFrameFd", "unsetFrameFd"):
            a = rng.choice([rng.choice(F), ",".join(rng.sample(F, min(2, len(F)))), "", "Nope,,"])
        elif k in ("skipLongDlc", "cutLongFrames"):
            a = rng.choice([str(rng.choice([0, 1, 2, 3, 7, 8, 9, 11, 12, 63, 64])), "-1", "x", "", "+2"])
        elif k == "recalcDLC":
            a = rng.choice(["max", "force", "other", "", "Max"])
        else:
            a = ""
        return (k, a)
    if not pdu and db.frames and rng.random() < 0.3:
        f = rng.choice(db.frames)
        t = rng.choice([f.size, max(0, f.size - 1), f.size + 1])
        return rng.choice([
            [("skipLongDlc", str(t)), ("recalcDLC", rng.choice(["force", "max"]))],
            [("recalcDLC", "force"), ("cutLongFrames", str(t))],
            [("cutLongFrames", str(t)), ("skipLongDlc", str(max(0, t - 1)))],
            [("unsetFrameFd", f.name), ("setFrameFd", f.name)],
            [("changeFrameId", "%d:%d" % (f.arbitration_id.id + 1, 3)), ("frameIdIncrement", "1")],
            [("addFrameReceiver", f.name + ":E9"), ("skipLongDlc", str(t))],
        ])
    o = [one()]
    if rng.random() < 0.4:
        p = one()
        if p[0] != o[0][0]:
            o.append(p)
    return o


def run(chk):
    thorough = chk.tier == "thorough"
    rng = chk.rng
    chk.rule = ("inputs: seeded matrices inside the DBC envelope (3-9 frames up to 64 bytes, CAN FD and 29-bit identifiers, zero-width "
                "signals incl. adjacent ones, an ECU that sends and receives, an unreferenced ECU, attributes with definitions, unused "
                "definitions, frame names that are prefixes of each other, declared lengths above and below what the signals need), written "
                "to a DBC file that is a fixed point of load+dump.  cases: every option with the argument variations of single_cases() "
                "(comma lists, tuples, rx/tx suffixes incl. mixed lists, thresholds below/at/above every existing length and signal end, "
                "empty selections, unknown names) and all ordered pairs of the reduced option set, each through cli_convert.main and "
                "through convert(); malformed arguments, PDU containers and small in-memory matrices for the model tie.  non-trivial = the "
                "oracle's description differs from the input's (the option had something to do); distinct by (input, options)")
    ensure_vo()
    ok = chk.build_and_audit()
    if os.environ.get("VERIF_C18_ASSUME_KNOWN"):       # development aid only: treat these keys as if they were recorded
        chk.known += [dict(property="C18", key=k, what="(assumed for this run) " + k) for k in os.environ["VERIF_C18_ASSUME_KNOWN"].split(",")]
    C = core.import_impl()
    tmp = tempfile.mkdtemp(prefix="c18_", dir="/tmp")
    R = Runner(C, tmp)
    try:
        _run(chk, rng, thorough, ok, C, R, tmp)
    finally:
        R.close()
        shutil.rmtree(tmp, ignore_errors=True)


def short(x, n=1500):
    s = json.dumps(x, default=str)
    return s if len(s) <= n else s[:n] + "..."


def _run(chk, rng, thorough, ok, C, R, tmp):
    import canmatrix.cli.convert as cli_mod
    import click
    intern = Interner()
    lines, expect, info = [], [], []         # model tie: pipeline
    small = []                               # candidates for the in-Coq shard

    def add_model(cmd, groups, exp, inf, shard=False):
        l = core.fmt_case(cmd, groups)
        lines.append(l)
        expect.append(exp)
        info.append(inf)
        if shard and len(l) < 1200:
            small.append((cmd, groups, exp))

    # ---- documentation of the options themselves ----
    params = {p.name: p for p in cli_mod.cli_convert.params if isinstance(p, click.Option)}
    chk.count("cli-options-declared", len(params))
    rf = params.get("renameFrame")
    if rf is None or "rename" not in (rf.help or "").lower():
        chk.violation("opt-renameFrame-help", "--renameFrame renames frames, its help text describes another option",
                      dict(option="renameFrame"), "a help text about renaming frames (docs/cli.rst: 'rename Frame form databases ...')",
                      None if rf is None else rf.help)
    chk.case("help-renameFrame", True)

    # ---- input files ----
    n_inputs = 4 if not thorough else 60
    inputs = []
    for idx in range(n_inputs):
        db0 = gen_input(rng, C, idx, big=thorough and idx % 3 == 0)
        p0 = R.write(db0, "gen_%d.dbc" % idx)
        p1 = R.write(R.load(p0), "in_%d.dbc" % idx)
        st = describe(R.load(p1))
        # the other file for --merge: one frame collides with the input by identifier (the input's frame must win)
        other = gen_input(rng, C, idx + 1000)
        for f in other.frames:
            f.name = "O" + f.name[1:]          # frame names stay unique in the merged matrix; ECU and signal names may coincide
        f0 = R.load(p1).frames[0]
        other.frames[0].arbitration_id = C.ArbitrationId(f0.arbitration_id.id, f0.arbitration_id.extended)
        other._frames_dict_id_extend = {}
        ids_in = {(f.arbitration_id.id, f.arbitration_id.extended) for f in R.load(p1).frames}
        names_in = {f.name for f in R.load(p1).frames}
        for f in list(other.frames)[1:]:
            if (f.arbitration_id.id, f.arbitration_id.extended) in ids_in:
                other.frames.remove(f)
        po = R.write(R.load(R.write(other, "other_gen_%d.dbc" % idx)), "other_%d.dbc" % idx)
        st_other = describe(R.load(po))
        inputs.append(dict(idx=idx, path=p1, st=st, other_path=po, other_st=st_other))
        chk.count("input-frames", len(st["frames"]))
        chk.count("input-frames-longer-than-8", sum(1 for f in st["frames"].values() if f["size"] > 8))
        chk.count("input-zero-width-signals", sum(1 for f in st["frames"].values() for s in f["signals"].values() if s["size"] == 0))
        if open(p0, "rb").read() != open(p1, "rb").read():
            chk.count("input-not-a-dump-fixed-point-at-first")

    def replay_input(inp, opts):
        return dict(input_dbc=open(inp["path"], "rb").read().decode("iso-8859-1"), options=[list(o) for o in opts],
                    how="canmatrix.convert.convert(in.dbc, out.dbc, **options) and cli_convert.main([...], standalone_mode=False)",
                    merge_file=(open(inp["other_path"], "rb").read().decode("iso-8859-1") if any(o == "merge" for o, _ in opts) else None))

    order_votes = {}

    def judge(inp, opts, style, plumb=None, out_name=None, load_opts=None, st=None, aux=None, level="full", path=None):
        """returns (failure description | None, nontrivial, results).  plumb/out_name/load_opts: see Runner.run; st / aux / path:
        another input description, merge file description, input file than inp's; level: 'full' | 'layout' comparison"""
        st = inp["st"] if st is None else st
        aux = [inp["other_st"]] if aux is None else aux
        try:
            exp = oracle(st, opts, aux)
        except Silent as e:
            exp = None
            chk.count("oracle-silent")
        res = {how: R.run(path or inp["path"], opts, how, style, plumb=plumb, out_name=out_name, load_opts=load_opts)
               for how in ("fn", "cli")}
        fn, cl = res["fn"], res["cli"]
        fail = None
        if fn["status"] != cl["status"] or (fn["status"] == "ok" and fn["bytes"] != cl["bytes"]) or \
                (fn["status"] == "exc" and fn["exc"] != cl["exc"]):
            what = "function: %s %s / command line: %s %s" % (fn["status"], fn.get("exc", ""), cl["status"], cl.get("exc", ""))
            if cl.get("exc") == "NoSuchOption":
                fail = ("cli-option-missing", "convert() implements the option, the command line does not declare it", "option accepted", what)
            else:
                fail = ("cli-vs-function", "the command line entry point and convert() disagree", "same result", what)
        nontrivial = False
        sw = swappable(opts)
        alt = None
        if exp is not None and sw:
            try:
                alt = oracle(st, opts, aux, swap=sw)
            except Silent:
                alt = None
        if exp is not None and alt is not None and all(res[h]["status"] == "ok" for h in res):
            # two options whose mutual order is documented nowhere: the output must be the composition of the two documented
            # effects in ONE order - which one is judged over the whole run (order_votes: the same for every input, entry point
            # and order on the command line)
            d_f = [bool(compare(exp, res[h]["nf"], level)) for h in ("fn", "cli")]
            d_r = [bool(compare(alt, res[h]["nf"], level)) for h in ("fn", "cli")]
            if any(d_f) != any(d_r) or (any(d_f) and any(d_r)):
                vote = "neither" if (any(d_f) and any(d_r)) else ("pipeline" if not any(d_f) else "reverse")
                order_votes.setdefault(sw, []).append((vote, [list(o) for o in opts], path or inp["path"]))
                if vote == "reverse":
                    exp = alt
        if exp is not None:
            nontrivial = bool(matgen.diff(view(finalize(st)), view(finalize({k: v for k, v in exp.items() if not k.startswith("_")}))))  \
                if not exp.get("_selected") else True
            for how in ("fn", "cli"):
                r = res[how]
                if r["status"] != "ok":
                    if fail is None or how == "fn":
                        fail = ("effect", "conversion failed", "documented effect", "%s: %s %s" % (how, r.get("exc"), r.get("msg")))
                    continue
                if r.get("rc") not in (0, None):
                    fail = ("effect", "exit status", 0, r.get("rc"))
                d = compare(exp, r["nf"], level)
                if d and (fail is None or fail[0] in ("cli-vs-function", "cli-option-missing")):
                    fail = ("effect", "output differs from the documented effect (%d difference(s), first ones shown)" % len(d),
                            {x[0]: short(x[1], 300) for x in d[:6]},
                            dict(via="convert()" if how == "fn" else "cli_convert.main", **{x[0]: short(x[2], 300) for x in d[:6]}))
        return fail, nontrivial, res, exp

    # ---- no options: byte-identical to load + dump through the API ----
    for inp in inputs:
        api = R.write(R.load(inp["path"]), "api.dbc")
        api_bytes = open(api, "rb").read()
        for how in ("fn", "cli"):
            r = R.run(inp["path"], [], how)
            chk.case(("none", inp["idx"], how), True)
            chk.count("no-options")
            if r["status"] != "ok" or r["bytes"] != api_bytes:
                chk.violation("no-options-differs", "canconvert without options does not produce what load + dump produces",
                              replay_input(inp, []), "byte-identical to canmatrix.formats.dumpp(loadp(in))",
                              r["status"] if r["status"] != "ok" else "different bytes (%d vs %d)" % (len(r["bytes"]), len(api_bytes)))
            if r["status"] == "ok" and r.get("rc") != 0 and how == "cli":
                chk.violation("no-options-differs", "exit status", replay_input(inp, []), 0, r.get("rc"))

    def tie_direct(inp_db, opts, fn_res, inf, shard=False):
        if not all(k in DIRECT for k, _ in opts):
            return
        if not all(in_syntax(k, a) for k, a in opts):
            # an argument outside the documented syntax (a number that is not a decimal integer, a tuple without exactly one
            # ':'): the property says nothing about it - neither judged nor tied (the parsing functions themselves are tied to
            # Python's str.split / int in the option-strings suite)
            chk.count("tie-skipped-argument-outside-syntax")
            return
        groups = cl_groups(opts) + matrix_groups(inp_db, intern)
        known = known_group_names(inp_db)
        if fn_res["status"] in ("ok", "dumpfail", "unreadable") and fn_res["db"] is not None:
            raw = strip_uids(matrix_groups(fn_res["db"], intern))
            exp = [[1]] + canon_labels(raw, known)
            shard = shard and exp[1:] == raw
        elif fn_res["status"] == "exc":
            exp = [[0]]
        else:
            return
        sw = swappable(opts)
        extra = {}
        if sw and len(opts) == 2:
            # the model applies the two stages in convert()'s present order; no documentation fixes it: on a disagreement the
            # two stages are run through the model one after the other in the opposite order (reverse_model)
            first = [o for o in opts if o[0] == sw[0]][0]
            second = [o for o in opts if o[0] == sw[1]][0]
            extra = dict(_reverse=(cl_groups([second]), cl_groups([first]), matrix_groups(inp_db, intern)))
            shard = False
        add_model(1807, groups, exp, dict(inf, known_group_names=sorted(known), **extra), shard)

    # ---- single options ----
    sampled = 0
    for inp in inputs:
        in_db = R.load(inp["path"])
        cases = single_cases(rng, inp["st"], inp["other_path"], inp["other_st"])
        if not thorough:
            # quick: every option and every tag once per input, thresholds thinned
            seen, keep = {}, []
            for c in cases:
                k = (c[0], c[2])
                seen[k] = seen.get(k, 0) + 1
                if seen[k] <= (2 if c[0] in ("skipLongDlc", "cutLongFrames") else 1) or "pattern" in c[2]:
                    keep.append(c)
            cases = keep
        for n, (opt, arg, tag) in enumerate(cases):
            opts = [(opt, arg)]
            chk.count("single-" + opt)
            chk.count("arg-" + tag)
            if opt == "compressFrame":
                fail, nontrivial, res = judge_compress(chk, R, inp, arg)
                exp = None
            else:
                fail, nontrivial, res, exp = judge(inp, opts, n)
            chk.case(("single", inp["idx"], opt, arg), nontrivial)
            if sampled < 5 and nontrivial and opt in ("cutLongFrames", "ecus", "changeFrameId", "renameEcu"):
                sampled += 1
                chk.sample(dict(input="in_%d.dbc (%d frames)" % (inp["idx"], len(inp["st"]["frames"])), option=opt, argument=arg, tag=tag))
            if fail is not None:
                key = fail[0] if fail[0] in ("cli-vs-function", "cli-option-missing") else "opt-%s-effect" % opt
                chk.violation(key, "--%s: %s" % (opt, fail[1]), replay_input(inp, opts), fail[2], fail[3])
            tie_direct(in_db, opts, res["fn"], dict(input=inp["idx"], options=opts))

    # ---- ordered pairs ----
    n_pair_inputs = 2 if not thorough else 24
    for inp in inputs[:n_pair_inputs]:
        in_db = R.load(inp["path"])
        args = pair_args(rng, inp["st"], inp["other_path"], thorough)
        names = QUICK_PAIR_SET if not thorough else list(args)
        single_ok = {}
        for a, b in itertools.permutations(names, 2):
            opts = [(a, args[a]), (b, args[b])]
            chk.count("pair")
            fail, nontrivial, res, exp = judge(inp, opts, 0)
            if exp is not None and not exp.get("_selected") and not exp.get("_merged"):
                # does the order of the two stages matter for these arguments?
                try:
                    other_way = oracle(inp["st"], opts, [inp["other_st"]], reverse=True)
                    sensitive = bool(matgen.diff(view(finalize({k: v for k, v in exp.items() if not k.startswith("_")})),
                                                 view(finalize({k: v for k, v in other_way.items() if not k.startswith("_")}))))
                except Silent:
                    sensitive = False
                chk.count("pair-order-sensitive" if sensitive else "pair-commuting")
                nontrivial = nontrivial and sensitive
            elif exp is not None:
                chk.count("pair-with-selection")
            chk.case(("pair", inp["idx"], a, b), nontrivial)
            if sampled < 6 and nontrivial:
                sampled += 1
                chk.sample(dict(input="in_%d.dbc" % inp["idx"], options=opts))
            if fail is not None:
                key = fail[0] if fail[0] in ("cli-vs-function", "cli-option-missing") else "pair-%s-%s" % (a, b)
                if fail[0] not in ("cli-vs-function", "cli-option-missing"):
                    # a pair inherits the failure of a member that already fails alone with the same argument
                    for m in (a, b):
                        if m not in single_ok:
                            f1, _, _, _ = judge(inp, [(m, args[m])], 0)
                            single_ok[m] = f1 is None or f1[0] in ("cli-vs-function", "cli-option-missing")
                        if not single_ok[m]:
                            key = "opt-%s-effect" % m
                            break
                chk.violation(key, "--%s --%s: %s" % (a, b, fail[1]), replay_input(inp, opts), fail[2], fail[3])
            tie_direct(in_db, opts, res["fn"], dict(input=inp["idx"], options=opts))

    # ---- interacting pairs: every pair of stages whose order can matter, with arguments for which it does ----
    def rest_of(x):
        return {k: v for k, v in x.items() if not k.startswith("_")}
    for inp in inputs:
        in_db = R.load(inp["path"])
        for kind, first, second in interaction_cases(inp["st"], inp["other_st"], inp["other_path"]):
            for opts in ([first, second], [second, first]):            # both orders on the command line, one expected result
                chk.count("interaction")
                if "compressFrame" in (first[0], second[0]):
                    fail, sensitive, res = judge_compress(chk, R, inp, opts)
                    exp = None
                else:
                    fail, nontrivial, res, exp = judge(inp, opts, 1)
                    sensitive = None
                    if exp is not None:
                        # what the two stages would give the other way round (the later one first): different = order-sensitive
                        try:
                            st2 = rest_of(oracle(inp["st"], [second], [inp["other_st"]]))
                            rev = finalize(rest_of(oracle(st2, [first], [inp["other_st"]])))
                            fwd = finalize(rest_of(exp))
                            sensitive = any(matgen.diff(view(fwd)[part], view(rev)[part])
                                            for part in ("frames", "frame_order", "ecus", "free_list", "defines"))
                        except Silent:
                            sensitive = None
                if sensitive is None:
                    chk.count("interaction-%s-undetermined" % kind)
                    sensitive = False
                    chk.case(("interaction", inp["idx"], kind, opts[0][0]), False)
                    if fail is None:
                        tie_direct(in_db, opts, res["fn"], dict(input=inp["idx"], interaction=kind, options=opts))
                        continue
                chk.count("interaction-%s-%s" % (kind, "order-sensitive" if sensitive else "commuting"))
                chk.case(("interaction", inp["idx"], kind, opts[0][0]), sensitive)
                if fail is not None:
                    a, b = opts[0][0], opts[1][0]
                    key = fail[0] if fail[0] in ("cli-vs-function", "cli-option-missing") else "pair-%s-%s" % (a, b)
                    if fail[0] not in ("cli-vs-function", "cli-option-missing"):
                        for m in (first, second):
                            if m[0] == "compressFrame":
                                f1 = judge_compress(chk, R, inp, [m])[0]
                            else:
                                f1 = judge(inp, [m], 0)[0]
                            if f1 is not None and f1[0] not in ("cli-vs-function", "cli-option-missing"):
                                key = "opt-%s-effect" % m[0]
                                break
                    chk.violation(key, "--%s --%s: %s" % (a, b, fail[1]), replay_input(inp, opts), fail[2], fail[3])
                tie_direct(in_db, opts, res["fn"], dict(input=inp["idx"], interaction=kind, options=opts))

    # ---- formats and encodings: the plumbing options of canconvert as a second dimension ----
    formats_section(chk, rng, thorough, C, R, tmp, inputs, judge, replay_input)

    # ---- an object addressed again AFTER an earlier stage edited it, on matrices of every provenance ----
    stale_section(chk, thorough, R, tmp, inputs, judge, replay_input)

    # ---- one order per pair of options, the same everywhere ----
    for sw, votes in sorted(order_votes.items()):
        kinds = {v[0] for v in votes}
        for k in kinds:
            chk.count("pair-order-%s-%s-%s" % (sw[0], sw[1], k), sum(1 for v in votes if v[0] == k))
        if "pipeline" in kinds and "reverse" in kinds:
            a = [v for v in votes if v[0] == "pipeline"][0]
            b = [v for v in votes if v[0] == "reverse"][0]
            chk.violation("pair-order-not-fixed-%s-%s" % sw,
                          "--%s and --%s are applied in one order for some inputs / entry points / command lines and in the other "
                          "order for others" % sw, dict(one_order=dict(options=a[1], input=os.path.basename(a[2])),
                                                        other_order=dict(options=b[1], input=os.path.basename(b[2]))),
                          "one fixed order", "both orders occur")

    # ---- the command line knows every option convert() implements ----
    for opt in PIPELINE_ORDER:
        chk.case(("declared", opt), True)
        if opt not in params:
            inp = inputs[0]
            arg = "1" if opt == "frameIdIncrement" else "x"
            r = R.run(inp["path"], [(opt, arg)], "cli")
            chk.violation("cli-option-missing", "--%s is implemented by convert() (and named in a help text) but the command line rejects it" % opt,
                          replay_input(inp, [(opt, arg)]), "option accepted", "%s %s" % (r.get("exc"), r.get("msg")))

    # ---- malformed arguments: both entry points must agree; the model says which raise ----
    bad = [("renameEcu", "NoColon"), ("renameEcu", "a:b:c"), ("renameFrame", "NoColon"), ("renameSignal", "x"), ("addFrameReceiver", "x"),
           ("changeFrameId", "12"), ("changeFrameId", "a:b"), ("frameIdIncrement", "x"), ("skipLongDlc", "x"), ("cutLongFrames", ""),
           ("ecus", "a:b:c"), ("renameEcu", ""), ("deleteEcu", ""), ("deleteFrame", ""), ("setFrameFd", ""), ("recalcDLC", ""),
           ("ecus", ""), ("frames", ""), ("deleteSignalAttributes", ""), ("frameIdIncrement", "")]
    inp = inputs[0]
    in_db = R.load(inp["path"])
    for opt, arg in bad:
        opts = [(opt, arg)]
        res = {how: R.run(inp["path"], opts, how) for how in ("fn", "cli")}
        chk.case(("malformed", opt, arg), res["fn"]["status"] == "exc")
        chk.count("malformed")
        chk.count("malformed-raises" if res["fn"]["status"] == "exc" else "malformed-accepted")
        if res["cli"].get("exc") == "NoSuchOption":
            chk.violation("cli-option-missing", "--%s is implemented by convert() but the command line rejects it" % opt,
                          replay_input(inp, opts), "option accepted", res["cli"].get("msg"))
        elif res["fn"]["status"] != res["cli"]["status"] or res["fn"].get("exc") != res["cli"].get("exc") or \
                res["fn"].get("bytes") != res["cli"].get("bytes"):
            chk.violation("cli-vs-function", "the command line entry point and convert() disagree on a malformed argument",
                          replay_input(inp, opts), "same result", "%s / %s" % (res["fn"].get("exc"), res["cli"].get("exc")))
        tie_direct(in_db, opts, res["fn"], dict(input=inp["idx"], options=opts))
        # `given by truth value` (cmd 1810): an empty --ecus / --frames / --signals selects nothing if it counted as given (the
        # output would be an empty matrix) - it must not count
        if arg == "":
            if opt in ("ecus", "frames", "signals") and res["fn"]["status"] == "ok":
                given = len(res["fn"]["nf"]["frames"]) == 0
                add_model(1810, [[KIND[opt]], []], [[int(given)]], dict(option=opt, argument=""), True)

    # ---- small in-memory matrices (wrapped loadp): volume tie of the directly modelled options, PDU containers ----
    n_tiny = 400 if not thorough else 12000
    for i in range(n_tiny):
        pdu = i % 4 == 3
        db = gen_tiny(rng, C, pdu)
        opts = tiny_opts(rng, db, pdu)
        if pdu and rng.random() < 0.5:
            opts = [o for o in opts if o[0] != "ignorePduContainer"]
        R.fake_input = db
        r = R.run("<memory>", opts, "fn", reread=False)
        R.fake_input = None
        chk.count("tiny")
        chk.count("tiny-raises" if r["status"] == "exc" else "tiny-ok")
        chk.case(("tiny", i, tuple(opts)), bool(db.frames))
        if pdu:
            pdu_search(chk, C, db, opts, r)
        tie_direct(db, opts, r, dict(tiny=i, options=opts, frames=[f.name for f in db.frames]), shard=True)
    # convert_pdu_container_to_multiplexed on its own (cmd 1809)
    from canmatrix.convert import convert_pdu_container_to_multiplexed
    for i in range(150 if not thorough else 1500):
        db = gen_tiny(rng, C, True)
        if not db.frames:
            continue
        newdb = C.CanMatrix()
        for f in db.frames:
            newdb.add_frame(convert_pdu_container_to_multiplexed(f))
        known = known_group_names(db)
        raw = strip_uids(matrix_groups(newdb, intern))
        add_model(1809, matrix_groups(db, intern), canon_labels(raw, known), dict(pdu_function=i, known_group_names=sorted(known)),
                  canon_labels(raw, known) == raw)
        chk.count("pdu-function")

    # ---- option strings: the parsing functions against Python ----
    parse_lines, parse_expect, parse_info = [], [], []

    def add_parse(cmd, groups, exp, inf):
        parse_lines.append(core.fmt_case(cmd, groups))
        parse_expect.append(exp)
        parse_info.append(inf)
        if len(small) < 2000:
            small.append((cmd, groups, exp))
    n_parse = 1500 if not thorough else 30000
    for i in range(n_parse):
        s = "".join(rng.choice("ab,:rtx") for _ in range(rng.randrange(0, 9)))
        sep = rng.choice(",:")
        parts = s.split(sep)
        add_parse(1801, [[ord(sep)], codes(s)], [[len(parts)]] + [codes(p) for p in parts], dict(split=s, sep=sep))
        add_parse(1811, [[ord(sep)]] + [codes(p) for p in parts], [codes(sep.join(parts))], dict(join=parts, sep=sep))
        try:
            ps = [tuple(t.split(":")) for t in s.split(",")]
            if any(len(p) != 2 for p in ps):
                raise ValueError
            e = [[1, len(ps)]] + [codes(x) for p in ps for x in p]
        except ValueError:
            e = [[0]]
        add_parse(1802, [codes(s)], e, dict(pairs=s))
        # --ecus, as the code in the tree under test does it (1803: direction reset per item, 1813: carried over)
        for cmd, carry in ((1803, False), (1813, True)):
            try:
                out = []
                direction = None
                for ecu in s.split(","):
                    if not carry:
                        direction = None
                    if ":" in ecu:
                        ecu, direction = ecu.split(":")
                    out.append([int(direction != "tx"), int(direction != "rx")] + codes(ecu))
                e = [[1]] + out
            except ValueError:
                e = [[0]]
            add_parse(cmd, [codes(s)], e, dict(ecus=s, carry=carry))
        t = "".join(rng.choice("0123456789+-x") for _ in range(rng.randrange(0, 6))) if i % 2 else str(rng.randrange(-10 ** 9, 10 ** 9))
        try:
            e = [[1, int(t)]] if "_" not in t else [[0]]
        except ValueError:
            e = [[0]]
        add_parse(1804, [codes(t)], e, dict(int=t))
        z = rng.choice([0, 1, -1, 9, 10, 99, 100, 255, 300, rng.randrange(-10 ** 12, 10 ** 12)])
        add_parse(1805, [[z]], [codes(str(z))], dict(str=z))
    add_parse(1806, [], [[KIND[k] for k in PIPELINE_ORDER[3:-1]]], dict(order="post_order"))
    chk.count("parse-cases", len(parse_lines))
    chk.evaluations += len(parse_lines)

    # which reading of --ecus does the tree under test implement?  (search: the documented example must work)
    chk.assumptions.append("patterns of literals, '*' and '?' only; names without ',' ':' and white space; int() arguments without "
                           "white space, '_' and non-ASCII digits")
    if not ok:
        chk.ties["correspondence"] = "not run (build failed)"
        return

    # ---- TIE ----
    out = core.run_model(lines)
    bad_n = 0
    explained = 0
    tie_reverse_order = 0
    known_keys = {k.get("key") for k in chk.known}
    for i, (l, e, o) in enumerate(zip(lines, expect, out)):
        got = core.parse_out(o)
        if "known_group_names" in info[i]:
            kn = set(info[i]["known_group_names"])
            got = ([got[0]] + canon_labels(got[1:], kn)) if l.startswith("70f ") else canon_labels(got, kn)
        if got != e and "_reverse" in info[i]:
            alt = reverse_model(info[i]["_reverse"])
            alt = [alt[0]] + canon_labels(alt[1:], set(info[i].get("known_group_names", [])))
            if alt == e:
                tie_reverse_order += 1
                continue
        if got != e:
            if "opt-changeFrameId-effect" in known_keys and l.startswith("70f "):
                alt = core.parse_out(core.run_model(["710 " + l.split(" ", 1)[1]])[0])
                if alt == e:
                    explained += 1
                    continue
            bad_n += 1
            chk.tie_break("convert-pipeline", {k: v for k, v in info[i].items() if k != "_reverse"}, short(got, 600), short(e, 600))
    chk.ties["correspondence"] = {"suite": "pipeline over the directly modelled options + PDU rewrite (cmd 1807/1809/1810) vs convert()",
                                  "cases": len(lines), "disagreements": bad_n, "explained_by_known_finding": explained,
                                  "agree_in_the_other_undocumented_stage_order": tie_reverse_order}
    out = core.run_model(parse_lines)
    bad_n = 0
    for inf, e, o, l in zip(parse_info, parse_expect, out, parse_lines):
        if core.parse_out(o) != e:
            bad_n += 1
            chk.tie_break("option-strings", inf, core.parse_out(o), e)
    chk.ties["option_strings"] = {"suite": "split / join / tuples / --ecus items / int / str (cmd 1801-1806, 1811, 1813) vs Python",
                                  "cases": len(parse_lines), "disagreements": bad_n}
    idx = rng.sample(range(len(small)), min(300, len(small)))
    shard = [small[i] for i in idx]
    mm, log = core.coq_shard([(c, g, e) for c, g, e in shard], "c18")
    if mm and "opt-changeFrameId-effect" in known_keys:
        # while that finding is recorded instead of repaired: explained when the model of the unpatched code (cmd 1808) agrees
        mm = [i for i in mm if not (shard[i][0] == 1807 and
                                    core.parse_out(core.run_model([core.fmt_case(1808, shard[i][1])])[0]) == shard[i][2])]
    chk.ties["vm_compute_shard"] = {"cases": len(shard), "mismatches": mm}
    if mm is None:
        chk.obligation_failures.append("in-Coq shard failed to evaluate")
        chk.build_log = log[-3000:]
    else:
        for i in mm:
            chk.tie_break("convert-shard", short(shard[i][1], 400), "vm_compute differs", short(shard[i][2], 400))


def judge_compress(chk, R, inp, opts):
    """--compressFrame (alone or with other options): 'remove gaps between signals' - only start bits of the named frames'
    signals may change (what the compression itself guarantees is C16's subject).  The stages before compressFrame are applied
    by the oracle, the start bits of the frames compressFrame names are taken from the output, the stages after it (recalcDLC)
    are applied by the oracle again: a length recalculated BEFORE the compression shows.
    returns (failure | None, the compression changed what a later stage computes / moved something, results)"""
    if isinstance(opts, str):
        opts = [("compressFrame", opts)]
    st = inp["st"]
    arg = [a for k, a in opts if k == "compressFrame"][0]
    before = [o for o in opts if KIND[o[0]] < KIND["compressFrame"]]
    after = [o for o in opts if KIND[o[0]] > KIND["compressFrame"]]
    res = {how: R.run(inp["path"], opts, how) for how in ("fn", "cli")}
    fn, cl = res["fn"], res["cli"]
    if fn["status"] != cl["status"] or fn.get("bytes") != cl.get("bytes"):
        return ("cli-vs-function", "the command line entry point and convert() disagree", "same result",
                "%s / %s" % (fn.get("exc"), cl.get("exc"))), False, res
    if fn["status"] != "ok":
        return ("effect", "conversion failed", "documented effect", "%s %s" % (fn.get("exc"), fn.get("msg"))), False, res
    try:
        e = oracle(st, before, [inp["other_st"]])
    except Silent:
        return None, False, res
    e = {k: v for k, v in e.items() if not k.startswith("_")}
    for f in e["frames"].values():
        f.pop("_copied", None)
    o = fn["nf"]
    by_name = {f["name"]: f for f in o["frames"].values()}
    changed = False
    lengths_before = {f["name"]: min_len(f) for f in e["frames"].values()}
    for f in e["frames"].values():
        hit = any(glob_oracle(p, f["name"]) for p in arg.split(","))
        fo = by_name.get(f["name"])
        for n, sg in f["signals"].items():
            so = (fo or {}).get("signals", {}).get(n)
            if so is not None and so["start"] != sg["start"]:
                if hit:
                    sg["start"] = so["start"]
                    changed = True
    moved = changed
    if after:
        for k, a in sorted(after, key=lambda oa: KIND[oa[0]]):
            e = oracle_one(e, k, a, [inp["other_st"]])
        # order-sensitive: the length a later stage computes differs from the one it would have computed before compressing
        changed = any(min_len(f) != lengths_before[f["name"]] for f in e["frames"].values() if f["name"] in lengths_before)
    d = matgen.diff(view(finalize(e)), view(o))
    if d:
        return ("effect", "output differs from: the other options' documented effect + only start bits of the compressed frames moved"
                          " (%d difference(s))" % len(d),
                {x[0]: short(x[1], 300) for x in d[:6]}, dict(via="convert()", **{x[0]: short(x[2], 300) for x in d[:6]})), changed, res
    return None, (changed if after else moved), res


def pdu_search(chk, C, db, opts, r):
    """the documented default (docs/cli.rst): PDU container frames become multiplexed frames; with --ignorePduContainer they are
    dropped; every other frame stays"""
    if r["status"] not in ("ok", "dumpfail") or r["db"] is None:
        return
    if any(k != "ignorePduContainer" for k, _ in opts):
        return
    ignore = any(k == "ignorePduContainer" for k, _ in opts)
    plain_frames = [f for f in db.frames if not f.pdus]
    cont = [f for f in db.frames if f.pdus]
    exp = [(f.name, [s.name for s in f.signals], []) for f in plain_frames]
    if not ignore:
        for f in cont:
            both = any(s.name == "Header_ID" for s in f.signals) and any(s.name == "Header_DLC" for s in f.signals)
            off = 0
            if both:
                off = [s.size for s in f.signals if s.name == "Header_ID"][0] + [s.size for s in f.signals if s.name == "Header_DLC"][0]
            exp.append((f.name, [s.name for s in f.signals] + [s.name for p in f.pdus for s in p.signals],
                        [(s.name, p.id, s.start_bit + off) for p in f.pdus for s in p.signals]))
    got = []
    for f in r["db"].frames:
        got.append((f.name, [s.name for s in f.signals], [(s.name, s.mux_val, s.start_bit) for s in f.signals if s.mux_val is not None]))
        if f.pdus:
            got[-1] = (f.name, "still a container", [])
    chk.count("pdu-search")
    if got != exp:
        chk.violation("opt-ignorePduContainer-effect", "PDU containers are not %s as documented" % ("dropped" if ignore else "rewritten to multiplexed frames"),
                      dict(frames=[(f.name, [s.name for s in f.signals], [(p.name, p.id, [s.name for s in p.signals]) for p in f.pdus]) for f in db.frames],
                           options=opts), exp, got)


# ------------------------------------------------------------------------------------------------------------------
# formats and encodings
FOREIGN = [("json", {"jsonExportAll": True}), ("dbf", {}), ("kcd", {}), ("sym", {})]


def simple_matrix(rng, C, avoid_ids):
    """a small matrix every format carries on the layout level (names, identifiers, lengths, signal positions and scaling)"""
    db = matgen.gen_matrix(rng, C, n_frames=(2, 4), n_ecus=(2, 3), max_len=8, fd=False, ext_ids=False, attributes=False, comments=False,
                           cycle_times=False, value_tables=False, mux="none", signed=True, floats=False, units=False, digits=2,
                           unique_signal_names=True, max_width=32)
    for f in list(db.frames):
        f.name = "X" + f.name[1:]
        for sg in f.signals:
            sg.name = "X" + sg.name[1:]
        if f.arbitration_id.id in avoid_ids:
            db.frames.remove(f)
    db._frames_dict_id_extend = {}
    return db


def formats_section(chk, rng, thorough, C, R, tmp, inputs, judge, replay_input):
    dump, load = R._orig[0], R._orig[1]

    def load_first(path, **o):
        return list(load(path, **o).values())[0]

    def through_dbc(db, name):
        """the description of a matrix as a DBC file carries it"""
        pth = os.path.join(tmp, name)
        dump({"": db}, pth)
        return describe(load_first(pth))

    def report(key, what, inp, opts, exp, obs, extra):
        chk.violation(key, what, dict(replay_input(inp, opts), **extra), exp, obs)

    n_fmt = 2 if not thorough else 10
    for inp in inputs[:n_fmt]:
        in_db = load_first(inp["path"])
        st = inp["st"]
        F = [f["name"] for f in frames_in_order(st)]
        ids_in = {f["id"] for f in st["frames"].values()}
        api_dbc = os.path.join(tmp, "api_fmt.dbc")
        dump({"": load_first(inp["path"])}, api_dbc)
        api_dbc_bytes = open(api_dbc, "rb").read()

        # -- (1) no options, other format pairs: convert in.X -> out.Y equals dump(load(in.X), Y) byte for byte
        def same_as_api(src, ext, plumb, api_bytes, label, out_name=None):
            for how in ("fn", "cli"):
                r = R.run(src, [], how, reread=False, plumb=plumb, out_name=out_name or "fmt." + ext)
                chk.case(("format-none", inp["idx"], label, how), True)
                chk.count("format-no-options-" + label)
                got = r.get("bytes")
                if got is not None and ext == "kcd":          # the KCD writer names the bus after the output file
                    stem = os.path.join(tmp, "%s_fmt" % how).encode()
                    got = got.replace(stem, b"<out>")
                if r["status"] != "ok" or got != api_bytes:
                    report("no-options-differs", "canconvert %s without manipulation options does not produce what load + dump produces" % label,
                           inp, [], "byte-identical to canmatrix.formats.dumpp(loadp(in), out)",
                           r["status"] if r["status"] != "ok" else "different bytes (%d vs %d)" % (len(got), len(api_bytes)),
                           dict(formats=label, plumbing=plumb, via=how))
        for ext, fo in FOREIGN + [("json", {})]:
            api = os.path.join(tmp, "api_fmt." + ext)
            dump({"": load_first(inp["path"])}, api, **fo)
            b = open(api, "rb").read()
            if ext == "kcd":
                b = b.replace(os.path.join(tmp, "api_fmt").encode(), b"<out>")
            same_as_api(inp["path"], ext, fo, b, "dbc->%s%s" % (ext, "(all)" if fo else ""))
        same_as_api(inp["path"], "txt", {"import_type": "dbc", "force_output": "dbc"}, api_dbc_bytes, "dbc->dbc(-i -f, out.txt)")
        simple = simple_matrix(rng, C, ids_in)
        for ext, fo, src_db in (("json", {"jsonExportAll": True}, in_db), ("sym", {}, in_db), ("dbf", {}, simple), ("json", {}, simple)):
            src = os.path.join(tmp, "src_fmt." + ext)
            dump({"": src_db}, src, **fo)
            api = os.path.join(tmp, "api_back.dbc")
            dump(load(src), api)
            same_as_api(src, "dbc", {}, open(api, "rb").read(), "%s->dbc" % ext, out_name="back.dbc")
            same_as_api(src, "dbc", {"import_type": ext}, open(api, "rb").read(), "%s->dbc(-i)" % ext, out_name="back.dbc")

        # -- (2) the merge file in another format than the input, with and without the input format hint
        other_dbc = inp["other_path"]
        manip = [("merge", [("merge", other_dbc)]),
                 ("frames", [("frames", F[0] + ",FGapFrame,FNope")]),
                 ("deleteFrame", [("deleteFrame", F[-1] + "," + F[0])]),
                 ("renameSignal", [("renameSignal", "SGap*:SG")]),
                 ("deleteFrame+renameSignal", [("renameSignal", "*End:Fin"), ("deleteFrame", "FGapFrame")])]
        for ext, fo in FOREIGN:
            opath = os.path.join(tmp, "xother_%d.%s" % (inp["idx"], ext))
            dump({"": simple}, opath, **fo)
            ost = through_dbc(load_first(opath), "xother_norm.dbc")
            for pname, plumb in (("plain", {}), ("input_format", {"import_type": "dbc"})):
                for spec, tag in ((opath, "file"), (opath + ":frame=" + simple.frames[-1].name, "frame")):
                    opts = [("merge", spec)]
                    fail, nontrivial, res, exp = judge(inp, opts, 0, plumb=plumb, aux=[ost], level="layout")
                    chk.case(("format-merge", inp["idx"], ext, pname, tag), nontrivial)
                    chk.count("format-merge-%s-%s" % (ext, pname))
                    if fail is not None:
                        report("format-%s-merge" % pname if fail[0] == "effect" else fail[0],
                               "--merge of a .%s file%s: %s" % (ext, " with -i dbc" if plumb else "", fail[1]), inp, opts, fail[2], fail[3],
                               dict(plumbing=plumb, merge_file_format=ext,
                                    merge_file=open(opath, "rb").read().decode("iso-8859-1")[:6000]))

        # -- (3) format / encoding options on top of manipulation options
        enc = {"dbcImportEncoding": "utf-8", "dbcImportCommentEncoding": "utf-8", "dbcExportEncoding": "utf-8",
               "dbcExportCommentEncoding": "utf-8"}
        enc_db = load_first(inp["path"])
        enc_db.frames[0].add_comment("Gr\u00f6\u00dfe \u00b5 caf\u00e9")
        for sg in enc_db.frames[0].signals[:1]:
            sg.unit = "\u00b0C"
        enc_path = os.path.join(tmp, "in_utf8.dbc")
        dump({"": enc_db}, enc_path, dbcExportEncoding="utf-8", dbcExportCommentEncoding="utf-8")
        enc_load = {"dbcImportEncoding": "utf-8", "dbcImportCommentEncoding": "utf-8"}
        enc_st = describe(load_first(enc_path, **enc_load))
        json_path = os.path.join(tmp, "in_all.json")
        dump({"": in_db}, json_path, jsonExportAll=True)
        json_st = through_dbc(load_first(json_path), "in_all_norm.dbc")
        variants = [
            ("input_format", dict(plumb={"import_type": "dbc"})),
            ("force_output", dict(plumb={"force_output": "dbc"}, out_name="forced.txt", load_opts={"import_type": "dbc"})),
            ("input+output_format", dict(plumb={"import_type": "dbc", "force_output": "dbc"}, out_name="forced.txt",
                                         load_opts={"import_type": "dbc"})),
            ("encoding", dict(plumb=enc, load_opts=enc_load, st=enc_st, path=enc_path)),
            # (layout level: the JSON reader brings VFrameFormat back as an attribute but not Frame.is_fd, so what the DBC writer
            # derives for FD frames depends on the other frames - a matter of the JSON round trip, C07, not of the options)
            ("input-json", dict(st=json_st, path=json_path, level="layout")),
            ("input-json(-i)", dict(plumb={"import_type": "json"}, st=json_st, path=json_path, level="layout")),
            ("output-json", dict(plumb={"jsonExportAll": True}, out_name="o.json", level="layout")),
            ("output-json(-f)", dict(plumb={"jsonExportAll": True, "force_output": "json"}, out_name="o.txt", level="layout",
                                     load_opts={"import_type": "json"})),
        ]
        api = os.path.join(tmp, "api_enc.dbc")
        dump(load(enc_path, **enc_load), api, dbcExportEncoding="utf-8", dbcExportCommentEncoding="utf-8")
        same_as_api(enc_path, "dbc", enc, open(api, "rb").read(), "dbc->dbc(utf-8)", out_name="enc.dbc")
        for vname, kw in variants:
            for mname, opts in manip:
                fail, nontrivial, res, exp = judge(inp, opts, 1, **kw)
                chk.case(("format", inp["idx"], vname, mname), nontrivial)
                chk.count("format-%s-%s" % (vname, mname))
                if fail is not None:
                    report("format-%s-%s" % (vname, mname) if fail[0] == "effect" else fail[0],
                           "%s with %s: %s" % (" ".join("--" + o for o, _ in opts), vname, fail[1]), inp, opts, fail[2], fail[3],
                           dict(plumbing=kw.get("plumb"), variant=vname))


# ------------------------------------------------------------------------------------------------------------------
# addressing an object after an earlier stage has edited it
def stale_cases(st, frame_old, ecu_old):
    """[(kind, earlier stage, later stage)]: the earlier stage renames / renumbers an object, the later stage addresses it by
    its OLD name / number (nothing carries it any more: documented effect = none), by the new one, or by both"""
    f0 = [f for f in st["frames"].values() if f["name"] == frame_old][0]
    s0 = f0["signal_order"][0]
    gap = [f for f in st["frames"].values() if f["name"] == "FGapFrame"][0]
    cs = []
    add = lambda later, earlier, a, b: cs.append(("%s-after-%s" % (later, earlier), a, b))
    ren = ("renameFrame", frame_old + ":FNewName")
    for later in ("deleteFrame", "setFrameFd", "unsetFrameFd"):
        add(later, "renameFrame", ren, (later, frame_old))
        add(later, "renameFrame", ren, (later, frame_old + ",FNope"))
        add(later, "renameFrame", ren, (later, "FNewName," + frame_old))
    add("addFrameReceiver", "renameFrame", ren, ("addFrameReceiver", frame_old + ":ENewRcv"))
    add("compressFrame", "renameFrame", ("renameFrame", "FGapFrame:FNewName"), ("compressFrame", "FGapFrame"))
    add("deleteSignal", "renameSignal", ("renameSignal", s0 + ":SNewName"), ("deleteSignal", s0))
    add("deleteSignal", "renameSignal", ("renameSignal", "SGapB:SNewName"), ("deleteSignal", "SGapB,SNewNam?"))
    add("deleteEcu", "renameEcu", ("renameEcu", ecu_old + ":ENewName"), ("deleteEcu", ecu_old))
    add("addFrameReceiver", "renameEcu", ("renameEcu", ecu_old + ":ENewName"), ("addFrameReceiver", "FGapFrame:" + ecu_old))
    add("changeFrameId", "frameIdIncrement", ("frameIdIncrement", "1"), ("changeFrameId", "%d:%d" % (gap["id"], gap["id"] + 3)))
    add("changeFrameId", "changeFrameId", ("changeFrameId", "%d:%d,%d:%d" % (gap["id"], gap["id"] + 2, gap["id"], gap["id"] + 3)), None)
    return cs


def stale_section(chk, thorough, R, tmp, inputs, judge, replay_input):
    """Every stage must see the matrix as the stages before it left it, whatever way the frames got into the matrix: read from
    a DBC file, read from another format (other readers build the matrix through other calls), copied into a new matrix by
    --frames / --ecus, or merged in from a second file.  Oracle: the documented effects composed in pipeline order (a name that
    nothing carries any more addresses nothing)."""
    dump, load = R._orig[0], R._orig[1]
    n = 2 if not thorough else 12
    for inp in inputs[:n]:
        st = inp["st"]
        F = [f["name"] for f in frames_in_order(st)]
        nonfd = [f["name"] for f in frames_in_order(st) if not f["is_fd"] and f["signals"]][0]
        E = [e for e in st["ecus"] if e not in ("EGapOnly", "ERcvOnly") and not e.startswith(("EUnused", "EGw"))]
        json_path = os.path.join(tmp, "stale_in.json")
        in_db = list(load(inp["path"]).values())[0]
        dump({"": in_db}, json_path, jsonExportAll=True)
        norm = os.path.join(tmp, "stale_norm.dbc")
        dump({"": list(load(json_path).values())[0]}, norm)
        json_st = describe(list(load(norm).values())[0])
        OF = [f["name"] for f in frames_in_order(inp["other_st"])]
        provenances = [
            ("dbc-input", [], {}, nonfd),
            ("json-input", [], dict(st=json_st, path=json_path, level="layout"), nonfd),
            ("copied-by-frames", [("frames", ",".join(F))], {}, nonfd),
            ("copied-by-ecus", [("ecus", "*")], {}, nonfd),
            ("merged-in", [("merge", inp["other_path"])], {}, OF[1]),
        ]
        for pname, prefix, kw, frame_old in provenances:
            base_st = dict(st, frames=dict(st["frames"]))
            cases = stale_cases(st if pname != "merged-in" else
                                dict(st, frames=dict(list(st["frames"].items()) + list(inp["other_st"]["frames"].items()))),
                                frame_old, E[0])
            for kind, first, second in cases:
                opts = prefix + [first] + ([second] if second else [])
                if "compressFrame" in [o for o, _ in opts]:
                    if pname != "dbc-input":
                        continue
                    fail, nontrivial, res = judge_compress(chk, R, inp, opts)
                else:
                    fail, nontrivial, res, exp = judge(inp, opts, 0, **kw)
                chk.count("stale-%s" % kind)
                chk.count("stale-provenance-%s" % pname)
                chk.case(("stale", inp["idx"], pname, kind, opts[-1][1]), True)
                if fail is not None:
                    key = fail[0] if fail[0] in ("cli-vs-function", "cli-option-missing") else "stale-%s" % kind
                    chk.violation(key, "%s on a matrix %s: a stage does not see the matrix as the stage before it left it: %s"
                                  % (" ".join("--" + o for o, _ in opts), pname, fail[1]),
                                  dict(replay_input(inp, opts), provenance=pname, plumbing=kw.get("plumb")), fail[2], fail[3])
