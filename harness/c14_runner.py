"""Determinism runner of C14: started by harness/p_c14.py once per PYTHONHASHSEED value, in its own process.
usage: c14_runner.py <base_seed> <idx,idx,...> [--bytes <idx> <writer>]
Rebuilds case idx from (base_seed, idx), exports a FRESH deep copy with every writer twice, and prints one JSON line per case:
  {"idx":..., "state": <digest of the matrix snapshot>, "w": {writer: sha256 | "REJ ..."}, "same_process": [writers whose 2nd export differs]}
--bytes prints the exported bytes (hex) of one writer on one case instead (used to show the first differing line)."""
import copy
import hashlib
import json
import os
import shutil
import sys
import tempfile

sys.path.insert(0, os.path.dirname(os.path.abspath(__file__)))
import core
import c14_cases as K


def main():
    import resource
    resource.setrlimit(resource.RLIMIT_AS, (8 << 30, 8 << 30))
    base_seed = int(sys.argv[1])
    idxs = [int(x) for x in sys.argv[2].split(",") if x.strip() not in ("", "none")]
    cm = core.import_impl()
    import canmatrix.formats as F
    C = cm.canmatrix
    tmp = tempfile.mkdtemp(prefix="c14run_", dir="/tmp")
    try:
        if len(sys.argv) > 3 and sys.argv[3] == "--bytes":
            idx, w = int(sys.argv[4]), sys.argv[5]
            db, _ = K.build_case(base_seed, idx, C)
            print(K.export(F, K.copier(db, base_seed, idx, C)(), w, tmp).hex())
            return
        for idx in idxs:
            db, info = K.build_case(base_seed, idx, C)
            if db is None:
                print(json.dumps({"idx": idx, "skipped": info.get("skipped")}))
                continue
            out = {"idx": idx, "state": K.digest(K.snapshot(db)), "w": {}, "same_process": [],
                   "hashseed": os.environ.get("PYTHONHASHSEED")}
            fresh = K.copier(db, base_seed, idx, C)
            try:      # the cluster-wide view CanCluster builds over the matrix (kcd.dump, arxml.load): same lists under every hash seed
                import canmatrix.cancluster as CC
                cl = CC.CanCluster({K.BUS: fresh()})
                out["cluster_view"] = K.digest([[[f.name, list(f.transmitters), list(f.receivers)] for f in cl.frames],
                                                [[s.name, list(s.receivers)] for s in cl.signals], [e.name for e in cl.ecus]])
            except Exception as e:
                out["cluster_view"] = "REJ " + type(e).__name__
            for w in K.WRITER_KEYS:
                r1 = K.try_export(F, fresh(), w, tmp)
                r2 = K.try_export(F, fresh(), w, tmp)
                if r1[0] == "ok":
                    out["w"][w] = hashlib.sha256(r1[1]).hexdigest()[:24]
                    if r2 != r1:
                        out["same_process"].append(w)
                else:
                    out["w"][w] = "REJ " + r1[1]
            print(json.dumps(out, sort_keys=True))
    finally:
        shutil.rmtree(tmp, ignore_errors=True)


main()
