"""Seeded generator of canmatrix.CanMatrix objects inside a format's expressible envelope, and the normal form
used to compare matrices (DESIGN.md section 4 'Matrix.v' and Appendix A).

gen_matrix(rng, C, **features) builds the matrix through the public API.  Features (all optional):
  n_frames=(lo,hi)  n_ecus=(lo,hi)  max_len=8|64  ext_ids  fd  j1939  motorola  intel  signed  floats
  mux='none'|'simple'|'extended'|'mixed'   value_tables  units  comments  attributes  long_names
  multi_senders  receivers  free_signals  env_vars  signal_groups  cycle_times  initial_values
  unique_signal_names (matrix-wide)  digits (max significant digits of factor/offset)  explicit_limits
  mux_intel_unsigned (KCD)  unit_max (SYM: 16)  unique_id_numbers (XLS)
  mux_choices (list drawn from when mux='mixed'; default none,none,simple,extended)
  fd_j1939_exclusive (no frame is CAN FD and J1939 at once)  initial_on_grid (every signal's initial value inside its limits and on the raw grid)
  len_choices (list of frame lengths drawn from, overrides max_len/fd for the length)
  mux_value_tables (probability of a value table on the multiplexer signal)  mux_declared_01 (probability that such a
    multiplexer wider than one bit declares min 0 / max 1 and uses selector values 0/1 only)
  id_twins (probability that a frame reuses an earlier frame's identifier number in the other frame format)
  tables_named_like_signals (probability per signal of a matrix-wide value table of the same name with other content)
  bare_signals (probability of a signal with all defaults - unsigned, factor 1, offset 0, natural limits, no unit - and a value table)
  static_in_mux (default True; False: a multiplexed frame holds only the multiplexer and multiplexed signals)
  float_signed_default (probability that a float signal keeps Signal's default is_signed=True; default: floats are unsigned)
normal_form(db, ...) returns plain dicts/lists/strings only (JSON-able), decimals as normalised strings.
"""
import decimal

D = decimal.Decimal

NAME_POOL = ["Eng", "Engine", "EngineSpeed", "Speed", "Trq", "Torque", "Body", "BodyCtl", "Gw", "Gateway", "Abs", "Esp",
             "Temp", "TempOut", "Volt", "Cur", "State", "Status", "Mode", "Req", "Ack", "Diag", "Door", "Light"]
UNITS = ["", "rpm", "km/h", "V", "A", "degC", "%", "Nm", "bar", "ms", "m/s^2", "kWh/100km"]
LABELS = ["Off", "On", "Init", "Error", "Not available", "Low", "High", "Reserved", "SNA", "Active", "Idle", "Fault 2"]
COMMENT_WORDS = ["engine", "speed", "value", "of", "the", "sensor", "raw", "filtered", "status;", "see", "spec", "(rev 2)", "100%"]


def _dec_str(x):
    """normalised decimal string: value only, no exponent games"""
    if x is None:
        return None
    x = D(str(x)) if not isinstance(x, D) else x
    if x == 0:
        return "0"
    s = format(x.normalize(), "f")
    return s


def pick_name(rng, used, long_names=False, prefix="", minlen=2):
    for _ in range(200):
        n = prefix + rng.choice(NAME_POOL)
        if rng.random() < 0.6:
            n += rng.choice(["_", ""]) + rng.choice(NAME_POOL)
        if rng.random() < 0.4:
            n += str(rng.randrange(0, 20))
        if long_names and rng.random() < 0.35:
            while len(n) <= 32:
                n += "_" + rng.choice(NAME_POOL)
            n += "_%d" % rng.randrange(1000)
        if len(n) >= minlen and n not in used:
            # 32-char prefixes must be unique too (DBC long-name mechanism)
            if all(u[:32] != n[:32] for u in used):
                used.add(n)
                return n
    raise RuntimeError("name pool exhausted")


def rand_decimal(rng, digits, allow_neg=True, nonzero=False):
    nd = rng.randrange(1, digits + 1)
    m = rng.randrange(1 if nonzero else 0, 10 ** nd)
    if m == 0 and nonzero:
        m = 1
    e = rng.choice([0, 0, -1, -2, -3, 1, -6, 2])
    v = D(m).scaleb(e)
    if allow_neg and rng.random() < 0.3:
        v = -v
    return v


def gen_matrix(rng, C, **ft):
    import layouts
    g = lambda k, d: ft.get(k, d)
    db = C.CanMatrix()
    used_ecu, used_frame, used_sig_global = set(), set(), set()
    n_ecus = rng.randrange(*[g("n_ecus", (2, 5))[0], g("n_ecus", (2, 5))[1] + 1])
    ecus = []
    for _ in range(n_ecus):
        n = pick_name(rng, used_ecu, g("long_names", False), prefix="E")
        e = C.Ecu(n)
        if g("comments", False) and rng.random() < 0.5:
            e.add_comment(" ".join(rng.choice(COMMENT_WORDS) for _ in range(rng.randrange(1, 6))))
        db.add_ecu(e)
        ecus.append(n)
    # attribute definitions
    if g("attributes", False):
        db.add_ecu_defines("EcuIntAttr", "INT 0 100")
        db.add_define_default("EcuIntAttr", "5")
        db.add_ecu_defines("EcuStrAttr", "STRING")
        db.add_define_default("EcuStrAttr", "abc")
        db.add_frame_defines("FrEnumAttr", 'ENUM "none","cyclic","event"')
        db.add_define_default("FrEnumAttr", "none")
        db.add_frame_defines("FrHexAttr", "HEX 0 255")
        db.add_define_default("FrHexAttr", "16")
        db.add_signal_defines("SigFloatAttr", "FLOAT 0 10")
        db.add_define_default("SigFloatAttr", "1.5")
        db.add_signal_defines("SigEnumAttr", 'ENUM "a","b","c"')
        db.add_define_default("SigEnumAttr", "a")
        db.add_global_defines("NetIntAttr", "INT 0 1000")
        db.add_define_default("NetIntAttr", "7")
        if rng.random() < 0.7:
            db.add_attribute("NetIntAttr", str(rng.randrange(0, 1000)))
        for e in db.ecus:
            if rng.random() < 0.5:
                e.add_attribute("EcuIntAttr", str(rng.randrange(0, 100)))
            if rng.random() < 0.3:
                e.add_attribute("EcuStrAttr", rng.choice(["x", "hello world", "a;b"]))
    if g("value_tables", False) and g("global_value_tables", True) and rng.random() < 0.6:
        db.add_value_table("VtState", {0: "Off", 1: "On", 2: "Error"})
    n_frames = rng.randrange(g("n_frames", (1, 5))[0], g("n_frames", (1, 5))[1] + 1)
    used_ids = set()
    used_id_numbers = set()
    for fi in range(n_frames):
        ext = g("ext_ids", True) and rng.random() < 0.4
        isj = g("j1939", False) and ext and rng.random() < 0.5
        for _ in range(100):
            fid = rng.randrange(1, 2 ** 29 if ext else 2 ** 11)
            if ext and rng.random() < 0.5:
                fid |= 0x800   # make sure ids above 0x7FF occur
            if (fid, ext) in used_ids:
                continue
            if g("unique_id_numbers", False) and fid in used_id_numbers:
                continue
            break
        if g("id_twins", None) is not None and not g("unique_id_numbers", False) and used_ids and rng.random() < g("id_twins", 0):
            # the identifier NUMBER of an earlier frame in the other frame format (0x123 next to 0x123 extended)
            cand = sorted((i, e) for (i, e) in used_ids if i < 2 ** 11 and (i, not e) not in used_ids)
            if cand:
                fid, ext = rng.choice(cand)
                ext = not ext
                isj = isj and ext
        used_ids.add((fid, ext))
        used_id_numbers.add(fid)
        max_len = g("max_len", 8)
        isfd = g("fd", False) and rng.random() < 0.4
        if isfd and isj and g("fd_j1939_exclusive", False):
            isj = False   # DBC: VFrameFormat carries one value per frame, a frame is CAN FD or J1939, not both
        if g("len_choices", None):
            L = rng.choice(g("len_choices", None))   # C19: any frame length the caller lists (1..64), independent of is_fd
        elif isfd and max_len > 8:
            L = rng.choice([8, 12, 16, 20, 24, 32, 48, 64])
        else:
            L = rng.randrange(1, min(max_len, 8) + 1)
        fname = pick_name(rng, used_frame, g("long_names", False), prefix="F")
        fr = C.Frame(fname, arbitration_id=C.ArbitrationId(fid, ext), size=L, is_fd=isfd, is_j1939=isj)
        if g("comments", False) and rng.random() < 0.5:
            fr.add_comment(" ".join(rng.choice(COMMENT_WORDS) for _ in range(rng.randrange(1, 8))))
        ns = 1 if not g("multi_senders", False) else rng.choice([1, 1, 2, 3])
        if g("senders", True):
            for s in rng.sample(ecus, min(ns, len(ecus))):
                fr.add_transmitter(s)
        if g("cycle_times", False) and rng.random() < 0.5:
            fr.cycle_time = rng.choice([10, 20, 100, 1000])
        if g("attributes", False):
            if rng.random() < 0.5:
                fr.add_attribute("FrEnumAttr", rng.choice(["none", "cyclic", "event"]))
            if rng.random() < 0.3:
                fr.add_attribute("FrHexAttr", str(rng.randrange(0, 256)))
        # ---- signals ----
        mux = g("mux", "none")
        if mux == "mixed":
            mux = rng.choice(g("mux_choices", ["none", "none", "simple", "extended"]))
        le_prob = 1.0 if not g("motorola", True) else (0.0 if not g("intel", True) else 0.5)
        used_sig = used_sig_global if g("unique_signal_names", False) else set()
        sigs = []
        free = set(range(8 * L))
        mux_sig = None
        if mux in ("simple", "extended") and 8 * L >= 16:
            w = rng.randrange(1, 5)
            if g("mux_intel_unsigned", False):
                mle = True
            else:
                mle = rng.random() < le_prob
            lay = layouts.gen_layout(rng, L, max_signals=1, widths=[w], le_prob=1.0 if mle else 0.0, free=free)
            if lay:
                d = lay[0]
                mux_sig = C.Signal(pick_name(rng, used_sig, g("long_names", False), prefix="Mx"), start_bit=d["start"], size=d["size"],
                                   is_little_endian=d["le"], is_signed=False, multiplex="Multiplexor")
                sigs.append(mux_sig)
        static_lay = layouts.gen_layout(rng, L, max_signals=rng.randrange(1, 5), le_prob=le_prob, free=free,
                                        max_width=g("max_width", 64))
        if mux_sig is not None and not g("static_in_mux", True):
            for d in static_lay:
                free |= set(layouts.positions(d["le"], d["start"], d["size"]))      # give the bits back to the groups
            static_lay = []     # formats whose multiplexed frames consist of the multiplexer and groups only (SYM)
        groups = []
        if mux_sig is not None:
            # groups share the bits left free by static signals
            nvals = rng.sample(range(0, 1 << mux_sig.size), min(rng.randrange(1, 4), 1 << mux_sig.size))
            if 0 not in nvals and rng.random() < 0.5:
                nvals[0] = 0
            if g("mux_value_tables", None) is not None and rng.random() < g("mux_value_tables", 0):
                # value table on the multiplexer itself; with mux_declared_01 a wider multiplexer may declare the range 0..1
                declared01 = mux_sig.size > 1 and rng.random() < g("mux_declared_01", 0)
                if declared01:
                    nvals = rng.sample([0, 1], rng.randrange(1, 3))
                    mux_sig.min, mux_sig.max = D(0), D(1)
                top = 2 if declared01 else (1 << mux_sig.size)
                for k in sorted(set(nvals) | {rng.randrange(0, top)}):
                    if k < top:
                        mux_sig.add_values(k, "Page%d" % k if rng.random() < 0.5 else rng.choice(LABELS))
            for v in nvals:
                gl = layouts.gen_layout(rng, L, max_signals=rng.randrange(1, 3), le_prob=le_prob, free=set(free), max_width=16)
                groups.append((v, gl))
        def mk_signal(d, prefix="S", multiplex=None):
            if g("bare_signals", None) is not None and rng.random() < g("bare_signals", 0):
                # everything at its default (unsigned, factor 1, offset 0, natural limits, no unit) except a value table:
                # writers then omit their optional elements around the table
                s = C.Signal(pick_name(rng, used_sig, g("long_names", False), prefix=prefix), start_bit=d["start"], size=d["size"],
                             is_little_endian=d["le"], is_signed=False, multiplex=multiplex)
                hi = min((1 << d["size"]) - 1, 20)
                for k in sorted({rng.randrange(0, hi + 1) for _ in range(rng.randrange(1, 4))}):
                    s.add_values(k, rng.choice(LABELS))
                if g("receivers", True) and rng.random() < 0.5:
                    s.add_receiver(rng.choice(ecus))
                return s
            isf = g("floats", False) and d["size"] in (32, 64) and rng.random() < 0.5
            signed = (g("signed", True) and rng.random() < 0.5) if not isf else False
            if isf and g("float_signed_default", None) is not None and rng.random() < g("float_signed_default", 0):
                signed = True   # what Signal(is_float=True) gives when the caller does not mention is_signed
            digits = g("digits", 4)
            factor = rand_decimal(rng, digits, allow_neg=g("neg_factor", False), nonzero=True) if rng.random() < 0.7 else D(1)
            offset = rand_decimal(rng, digits) if rng.random() < 0.5 else D(0)
            s = C.Signal(pick_name(rng, used_sig, g("long_names", False), prefix=prefix), start_bit=d["start"], size=d["size"],
                         is_little_endian=d["le"], is_signed=signed, is_float=isf, factor=factor, offset=offset, multiplex=multiplex)
            if isf:
                s.min, s.max = D(-1000), D(1000)
            elif g("explicit_limits", True):
                lo, hi = s.calculate_raw_range()
                a, b = s.offset + lo * s.factor, s.offset + hi * s.factor
                s.min, s.max = min(a, b), max(a, b)
            if g("units", True):
                u = rng.choice(UNITS)
                s.unit = u[: g("unit_max", 100)]
            if g("receivers", True):
                for r in rng.sample(ecus, rng.randrange(0, min(3, len(ecus)) + 1)):
                    s.add_receiver(r)
            if g("value_tables", False) and not isf and rng.random() < 0.4:
                lo, hi = s.calculate_raw_range()
                keys = sorted({rng.randrange(max(lo, -5), min(hi, 20) + 1) for _ in range(rng.randrange(1, 5))})
                if not g("negative_value_keys", True):
                    keys = [k for k in keys if k >= 0]
                for k in keys:
                    s.add_values(k, rng.choice(LABELS))
            if g("comments", False) and rng.random() < 0.4:
                s.add_comment(" ".join(rng.choice(COMMENT_WORDS) for _ in range(rng.randrange(1, 8))))
            if g("attributes", False):
                if rng.random() < 0.4:
                    s.add_attribute("SigFloatAttr", rng.choice(["0.5", "2", "9.25"]))
                if rng.random() < 0.3:
                    s.add_attribute("SigEnumAttr", rng.choice(["a", "b", "c"]))
            if g("initial_values", False) and not isf and rng.random() < 0.4:
                lo, hi = s.calculate_raw_range()
                raw = rng.randrange(lo, hi + 1)
                s.initial_value = s.offset + raw * s.factor
            if g("initial_on_grid", False):
                # DBC envelope: every initial value lies inside the limits and on the raw grid (also the default 0)
                if isf:
                    raw = D(rng.choice([0, 0, 1, -3, 25])) / D(rng.choice([1, 2, 4, 10]))
                    if rng.random() < 0.5 or not (s.min <= s.offset + raw * s.factor <= s.max):
                        raw = D(0)
                    cand = s.offset + raw * s.factor
                    s.initial_value = cand if (s.min <= cand <= s.max) else D(0)
                    if not (s.min <= s.initial_value <= s.max) or (s.initial_value - s.offset) / s.factor * s.factor + s.offset != s.initial_value:
                        s.offset = D(0)
                        s.initial_value = D(0)
                else:
                    lo, hi = s.calculate_raw_range()
                    on_grid0 = (D(0) - s.offset) % s.factor == 0 and lo <= (D(0) - s.offset) / s.factor <= hi
                    if not on_grid0 or rng.random() < 0.4:
                        raw = rng.choice([lo, hi, rng.randrange(lo, hi + 1)])
                        s.initial_value = s.offset + raw * s.factor
                    else:
                        s.initial_value = D(0)
            if g("cycle_times", False) and g("signal_cycle_times", False) and rng.random() < 0.2:
                s.cycle_time = rng.choice([10, 50, 200])
            return s
        for d in static_lay:
            sigs.append(mk_signal(d))
        for v, gl in groups:
            for d in gl:
                s = mk_signal(d, prefix="G%d_" % v, multiplex=v)
                if mux == "extended":
                    s.mux_val_grp.append([v, v])
                    s.muxer_for_signal = mux_sig.name
                sigs.append(s)
        for s in sigs:
            fr.add_signal(s)
        if mux_sig is not None:
            if mux == "extended":
                fr.is_complex_multiplexed = True
            else:
                fr.multiplex_signals() if hasattr(fr, "multiplex_signals") else None
        if g("signal_groups", False) and len(sigs) >= 2 and rng.random() < 0.4:
            members = rng.sample([s.name for s in sigs], 2)
            fr.add_signal_group("SG_" + fname[:10], rng.randrange(1, 5), members)
        fr.update_receiver()
        db.add_frame(fr)
    if g("tables_named_like_signals", None) is not None:
        # matrix-wide value tables whose names coincide with signal names (legal, e.g. VAL_TABLE_ next to VAL_), other content
        for fr in db.frames:
            for s in fr.signals:
                if rng.random() < g("tables_named_like_signals", 0):
                    db.add_value_table(s.name, {k: "Tbl%d" % k for k in sorted({rng.randrange(0, 8) for _ in range(rng.randrange(1, 4))})})
    if g("free_signals", False) and rng.random() < 0.5:
        s = C.Signal("FreeSig%d" % rng.randrange(100), start_bit=0, size=8, is_little_endian=True, is_signed=False)
        db.add_signal(s)
    if g("env_vars", False) and rng.random() < 0.5:
        db.add_env_var("EnvVar%d" % rng.randrange(10), {"varType": 0, "min": "0", "max": "100", "unit": "", "initialValue": "0",
                                                          "evId": str(rng.randrange(1, 9)), "accessType": "DUMMY_NODE_VECTOR0",
                                                          "accessNodes": "Vector__XXX"})
    return db


# ------------------------------------------------------------------------------------------------
def signal_nf(s, with_attrs=True):
    d = dict(name=s.name, start=int(s.start_bit), size=int(s.size), le=bool(s.is_little_endian), signed=bool(s.is_signed),
             is_float=bool(s.is_float), factor=_dec_str(s.factor), offset=_dec_str(s.offset), min=_dec_str(s.min), max=_dec_str(s.max),
             unit=s.unit if s.unit is not None else None, receivers=sorted(s.receivers),
             is_multiplexer=bool(s.is_multiplexer), mux_val=s.mux_val,
             mux_val_grp=[list(map(int, r)) for r in s.mux_val_grp], muxer_for_signal=s.muxer_for_signal,
             values={int(k): v for k, v in sorted(s.values.items())}, comment=s.comment,
             initial_value=_dec_str(s.initial_value), cycle_time=int(s.cycle_time))
    if with_attrs:
        d["attributes"] = {k: str(v) for k, v in sorted(s.attributes.items())}
    return d


def frame_nf(f, with_attrs=True):
    return dict(name=f.name, id=int(f.arbitration_id.id), ext=bool(f.arbitration_id.extended), size=int(f.size),
                is_fd=bool(f.is_fd), is_j1939=bool(f.is_j1939), transmitters=list(f.transmitters), receivers=sorted(f.receivers),
                comment=f.comment, cycle_time=int(f.cycle_time), is_complex_multiplexed=bool(f.is_complex_multiplexed),
                attributes={k: str(v) for k, v in sorted(f.attributes.items())} if with_attrs else None,
                signals={s.name: signal_nf(s, with_attrs) for s in f.signals},
                signal_order=[s.name for s in f.signals],
                signal_groups=sorted([(g.name, str(g.id), sorted(x.name for x in g.signals)) for g in f.signalGroups]))


def define_nf(d):
    return dict(definition=d.definition, type=d.type, default=None if d.defaultValue is None else str(d.defaultValue),
                values=list(getattr(d, "values", [])) if d.type == "ENUM" else None)


def normal_form(db):
    return dict(
        ecus={e.name: dict(comment=e.comment, attributes={k: str(v) for k, v in sorted(e.attributes.items())}) for e in db.ecus},
        frames={"%d_%d" % (f.arbitration_id.id, int(bool(f.arbitration_id.extended))): frame_nf(f) for f in db.frames},
        frame_order=["%d_%d" % (f.arbitration_id.id, int(bool(f.arbitration_id.extended))) for f in db.frames],
        free_signals={s.name: signal_nf(s) for s in db.signals},
        attributes={k: str(v) for k, v in sorted(db.attributes.items())},
        defines={cat: {k: define_nf(v) for k, v in sorted(getattr(db, cat).items())}
                 for cat in ("global_defines", "ecu_defines", "frame_defines", "signal_defines", "env_defines")},
        value_tables={k: {int(a): b for a, b in sorted(v.items())} for k, v in sorted(db.value_tables.items())},
        env_vars={k: {a: (b if not isinstance(b, dict) else dict(b)) for a, b in v.items()} for k, v in sorted(db.env_vars.items())},
    )


def diff(a, b, path=""):
    """list of (path, a, b) for every leaf where two normal forms differ"""
    out = []
    if isinstance(a, dict) and isinstance(b, dict):
        for k in sorted(set(a) | set(b), key=str):
            if k not in a:
                out.append((path + "/" + str(k), "<absent>", b[k]))
            elif k not in b:
                out.append((path + "/" + str(k), a[k], "<absent>"))
            else:
                out += diff(a[k], b[k], path + "/" + str(k))
    elif isinstance(a, (list, tuple)) and isinstance(b, (list, tuple)) and len(a) == len(b) and any(isinstance(x, (dict, list, tuple)) for x in a):
        for i, (x, y) in enumerate(zip(a, b)):
            out += diff(x, y, path + "[%d]" % i)
    elif a != b:
        out.append((path, a, b))
    return out
