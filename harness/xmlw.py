"""C15: a minimal XML serialiser for the independent KCD/ARXML writers.  Elements are E(tag, attrs, children, text); the lexical
freedom XML gives is exercised by `lex`:
  indent   '  ' | '\t' | '' (everything on one line per element, no indentation) | None (no whitespace between elements at all)
  eol      '\n' | '\r\n'
  attr     'asis' | 'rev' | 'shuf'   order of attributes within a start tag
  quote    '"' | "'"
  empty    'short' (<a/>) | 'long' (<a></a>) | 'space' (<a />)
  decl     True | False  (XML declaration present; without it the encoding must be utf-8)
  attrsp   blanks between attributes (1 | 2)
"""
import random
from xml.sax.saxutils import escape


class E(object):
    def __init__(self, tag, attrs=None, children=None, text=None):
        self.tag = tag
        self.attrs = list(attrs.items()) if isinstance(attrs, dict) else list(attrs or [])
        self.children = [c for c in (children or []) if c is not None]
        self.text = text

    def add(self, *cs):
        for c in cs:
            if c is not None:
                self.children.append(c)
        return self


XML_CANON = {"indent": "  ", "eol": "\n", "attr": "asis", "quote": '"', "empty": "short", "decl": True, "attrsp": 1}


def xml_random_lex(rng, lex):
    def maybe(k, choices, p=0.35):
        if rng.random() < p:
            lex[k] = rng.choice(choices)
    maybe("indent", ["\t", "", None, "    "])
    maybe("eol", ["\r\n"])
    maybe("attr", ["rev", "shuf"], 0.6)
    maybe("quote", ["'"])
    maybe("empty", ["long", "space"])
    maybe("decl", [False], 0.2)
    maybe("attrsp", [2], 0.2)
    lex.setdefault("order_seed", rng.randrange(1 << 30))
    return lex


def serialise(root, lex, encoding="utf-8"):
    lx = dict(XML_CANON)
    lx.update({k: v for k, v in (lex or {}).items() if k in XML_CANON})
    orng = random.Random((lex or {}).get("order_seed", 0) ^ 0x5A5A)
    q = lx["quote"]
    out = []
    nl = "" if lx["indent"] is None else lx["eol"]

    def attrs_text(e):
        items = list(e.attrs)
        if lx["attr"] == "rev":
            items.reverse()
        elif lx["attr"] == "shuf":
            orng.shuffle(items)
        sp = " " * lx["attrsp"]
        return "".join(sp + k + "=" + q + escape(str(v), {q: "&quot;" if q == '"' else "&apos;"}) + q for k, v in items)

    def walk(e, depth):
        pad = (lx["indent"] or "") * depth
        head = "<" + e.tag + attrs_text(e)
        if not e.children and (e.text is None or e.text == ""):
            if e.text == "" or lx["empty"] == "long":
                out.append(pad + head + "></" + e.tag + ">" + nl)
            elif lx["empty"] == "space":
                out.append(pad + head + " />" + nl)
            else:
                out.append(pad + head + "/>" + nl)
        elif not e.children:
            out.append(pad + head + ">" + escape(e.text) + "</" + e.tag + ">" + nl)
        else:
            assert e.text is None, "mixed content is not used"
            out.append(pad + head + ">" + nl)
            for c in e.children:
                walk(c, depth + 1)
            out.append(pad + "</" + e.tag + ">" + nl)
    if lx["decl"] or encoding.lower() not in ("utf-8", "utf8"):
        out.append("<?xml version=" + q + "1.0" + q + " encoding=" + q + encoding.upper() + q + "?>" + nl)
    walk(root, 0)
    return "".join(out).encode(encoding)
