"""C15: independent DBC writer.  Follows the keyword grammar of the Vector DBC file format description (the statement kinds and
their order: VERSION NS_ BS_ BU_ BO_/SG_ BO_TX_BU_ CM_ BA_DEF_ BA_DEF_DEF_ BA_ VAL_ SIG_GROUP_ SIG_VALTYPE_ SG_MUL_VAL_) and the
skeleton of tests/files/dbc/*.dbc.  Never calls canmatrix.

Lexical choices (`lex`, every key optional, default = what CANdb++ writes):
  eol        '\n' | '\r\n'
  sp.<KW>    number of blanks where one blank separates two tokens of a <KW> statement (1..3); KW in BO_ SG_ BO_TX_BU_ CM_ BA_DEF_
             BA_DEF_DEF_ BA_ VAL_ SIG_GROUP_ SIG_VALTYPE_ SG_MUL_VAL_ BU_
  colon      'tight' (Name: 8) | 'spaced' (Name : 8) | 'none' (Name:8) | 'left' (Name :8)   in BO_ lines
  Blanks at the separators INSIDE a statement are varied exactly where one of the reader's own sibling patterns (or its post-processing)
  already tolerates them, so that inconsistencies between siblings show (plain vs multiplexed SG_, BO_ vs SIG_GROUP_/SIG_VALTYPE_ colons, ...):
  sg.colon   ' : ' (CANdb++) | ': ' | ':' | ' :'      after the signal name / multiplexer token
  sg.paren   blank between `@1+` and `(`: None = like sp.SG_ | 0 ;  sg.bracket  blank between `)` and `[`: None | 0
  sg.comma   '' | ' '  after the comma of (factor,offset) ;  recvsep ',' | ', ' between receivers ;  txsep ',' | ', ' in BO_TX_BU_
  tx.colon / vt.colon / grp.colon   ' : ' | ': ' | ':' | ' :'   in BO_TX_BU_, SIG_VALTYPE_, SIG_GROUP_
  enumsep    ',' | ', '  between the values of an ENUM definition ;  muldash '-' | ' - ' inside SG_MUL_VAL_ ranges
  Not varied (no pattern of the reader and no tool known to me has blanks there): inside `start|size@1+`, inside `[min|max]`, `BU_:`/`BS_:`.
  indent     leading blanks of SG_ lines: ' ' | '' | '  '
  semi       blank before the closing ';'  (False|True)
  trail      trailing blank at line ends (False|True)
  blank      blank lines between sections (0..2)
  ns         'empty' | 'vector' (the NS_ keyword list CANdb++ writes)
  num.scale / num.limit / num.attr   number rendering of factor+offset / min+max / FLOAT attribute values, ranges, defaults
  order.<SEC> 'asis' | 'rev' | 'shuf' for SEC in BO_ SG_ CM_ BA_DEF_ BA_DEF_DEF_ BA_ VAL_ BO_TX_BU_ SG_MUL_VAL_ ; order_seed
  mulsep     ', ' | ','   between SG_MUL_VAL_ ranges
  txfirst    True: BO_ names the first sender, BO_TX_BU_ lists all when there are several (CANdb++) | False: BO_ says Vector__XXX
             and BO_TX_BU_ lists every sender
"""
import random
import re

import netdesc
from netdesc import render_number, plain

CANON = {"eol": "\n", "colon": "tight", "indent": " ", "semi": False, "trail": False, "blank": 1, "ns": "empty",
         "num.scale": "plain", "num.limit": "plain", "num.attr": "plain", "mulsep": ", ", "txfirst": True,
         "sg.colon": " : ", "sg.paren": None, "sg.bracket": None, "sg.comma": "", "recvsep": ",", "txsep": ",", "tx.colon": " : ",
         "vt.colon": " : ", "grp.colon": " : ", "enumsep": ",", "muldash": "-"}
KWS = ["BU_", "VAL_TABLE_", "BO_", "SG_", "BO_TX_BU_", "CM_", "BA_DEF_", "BA_DEF_DEF_", "BA_", "VAL_", "SIG_GROUP_", "SIG_VALTYPE_", "SG_MUL_VAL_"]
ORDERS = ["BO_", "SG_", "CM_", "BA_DEF_", "BA_DEF_DEF_", "BA_", "VAL_", "BO_TX_BU_", "SG_MUL_VAL_"]
for _k in KWS:
    CANON["sp." + _k] = 1
for _k in ORDERS:
    CANON["order." + _k] = "asis"

NS_LIST = ["NS_DESC_", "CM_", "BA_DEF_", "BA_", "VAL_", "CAT_DEF_", "CAT_", "FILTER", "BA_DEF_DEF_", "EV_DATA_", "ENVVAR_DATA_", "SGTYPE_",
           "SGTYPE_VAL_", "BA_DEF_SGTYPE_", "BA_SGTYPE_", "SIG_TYPE_REF_", "VAL_TABLE_", "SIG_GROUP_", "SIG_VALTYPE_", "SIGTYPE_VALTYPE_",
           "BO_TX_BU_", "BA_DEF_REL_", "BA_REL_", "BA_DEF_DEF_REL_", "BU_SG_REL_", "BU_EV_REL_", "BU_BO_REL_", "SG_MUL_VAL_"]


CM_OPEN, CM_CLOSE = "\ue000", "\ue001"      # private-use markers around comment text, removed when the bytes are produced


class NoTrail(str):
    pass


def random_lex(rng):
    lex = {}
    def maybe(k, choices, p=0.35):
        if rng.random() < p:
            lex[k] = rng.choice(choices)
    maybe("eol", ["\r\n"])
    for k in KWS:
        maybe("sp." + k, [2, 3], 0.2)
    maybe("colon", ["spaced", "none", "left"])
    colons = [": ", ":", " :"]
    maybe("sg.colon", colons, 0.3)
    maybe("sg.paren", [0], 0.2)
    maybe("sg.bracket", [0], 0.2)
    maybe("sg.comma", [" "], 0.3)
    maybe("recvsep", [", "], 0.25)
    maybe("txsep", [", "], 0.25)
    maybe("tx.colon", colons, 0.3)
    maybe("vt.colon", colons, 0.3)
    maybe("grp.colon", colons, 0.3)
    maybe("enumsep", [", "], 0.25)
    maybe("muldash", [" - "], 0.2)
    maybe("indent", ["", "  "])
    maybe("semi", [True], 0.2)
    maybe("trail", [True], 0.2)
    maybe("blank", [0, 2])
    maybe("ns", ["vector"])
    for k in ("num.scale", "num.limit", "num.attr"):
        maybe(k, ["expE", "expe", "plus", "tz", "nz"], 0.5)
    for k in ORDERS:
        maybe("order." + k, ["rev", "shuf"], 0.3)
    maybe("mulsep", [","])
    maybe("txfirst", [False])
    lex["order_seed"] = rng.randrange(1 << 30)
    return lex


def render(desc, lex=None, encoding="iso-8859-1"):
    """returns bytes"""
    lx = dict(CANON)
    lx.update(lex or {})
    orng = random.Random(lx.get("order_seed", 0))
    enc_stmt, _, enc_comment = encoding.partition("+cm=")
    enc_comment = enc_comment or enc_stmt

    def sp(kw):
        return " " * lx["sp." + kw]

    def order(sec, items):
        items = list(items)
        mode = lx["order." + sec]
        if mode == "rev":
            items.reverse()
        elif mode == "shuf":
            orng.shuffle(items)
        return items

    semi = (" " if lx["semi"] else "") + ";"
    lines = []
    sections = []

    def section(ls):
        if ls:
            sections.append(ls)

    def can_id(fr):
        return fr["id"] | 0x80000000 if fr["extended"] else fr["id"]

    # ---- names beyond 32 characters: written under a unique 32-character symbol everywhere, the long name goes into the
    #      System{Node,Message,Signal}LongSymbol attribute (what CANdb++ does) ----
    def symbols(names):
        out, used = {}, set(n for n in names if len(n) <= 32)
        for n in names:
            if len(n) <= 32:
                out[n] = n
                continue
            sym, i = n[:32], 0
            while sym in used:
                sym = n[:27] + "_%04d" % i
                i += 1
            used.add(sym)
            out[n] = sym
        return out
    esym = symbols([e["name"] for e in desc["ecus"]])
    fsym = symbols([fr["name"] for fr in desc["frames"]])
    ssym = {fr["name"]: symbols([sg["name"] for sg in fr["signals"]]) for fr in desc["frames"]}
    long_attrs = []        # (keyword, attribute name, address text, long name)
    for e in desc["ecus"]:
        if esym[e["name"]] != e["name"]:
            long_attrs.append(("BU_", "SystemNodeLongSymbol", esym[e["name"]], e["name"]))
    for fr in desc["frames"]:
        if fsym[fr["name"]] != fr["name"]:
            long_attrs.append(("BO_", "SystemMessageLongSymbol", str(can_id(fr)), fr["name"]))
        for sg in fr["signals"]:
            if ssym[fr["name"]][sg["name"]] != sg["name"]:
                long_attrs.append(("SG_", "SystemSignalLongSymbol", str(can_id(fr)) + "\0" + ssym[fr["name"]][sg["name"]], sg["name"]))

    section(['VERSION "written by the C15 independent writer"'])
    if lx["ns"] == "vector":
        section(["NS_ :"] + ["\t" + k for k in NS_LIST])
    else:
        section(["NS_ :"])
    section(["BS_:"])
    s = sp("BU_")
    section(["BU_:" + "".join(s + esym[e["name"]] for e in desc["ecus"])])

    # ---- global value tables ----
    s = sp("VAL_TABLE_")
    section(["VAL_TABLE_" + s + name + "".join(s + str(k) + s + '"' + l + '"' for k, l in sorted(tab.items(), reverse=True)) + semi
             for name, tab in desc.get("value_tables", {}).items()])

    # ---- messages ----
    for fr in order("BO_", desc["frames"]):
        s = sp("BO_")
        tx = esym[fr["senders"][0]] if (fr["senders"] and lx["txfirst"]) else "Vector__XXX"
        colon = {"tight": ":" + s, "spaced": " :" + s, "none": ":", "left": " :"}[lx["colon"]]
        ls = ["BO_" + s + str(can_id(fr)) + s + fsym[fr["name"]] + colon + str(fr["length"]) + s + tx]
        s = sp("SG_")
        for sg in order("SG_", fr["signals"]):
            m = ""
            if sg["mux"] is not None:
                if sg["mux"]["role"] == "multiplexer":
                    m = s + "M"
                else:
                    m = s + "m%d" % sg["mux"]["selector"]
            bo = "1" if sg["byte_order"] == "intel" else "0"
            sign = "-" if sg["type"] == "signed" else "+"
            rec = lx["recvsep"].join(esym[r] for r in sg["receivers"]) if sg["receivers"] else "Vector__XXX"
            sy = ssym[fr["name"]]
            colon = lx["sg.colon"] if lx["sg.colon"] != " : " else s + ":" + s
            s_paren = s if lx["sg.paren"] is None else " " * lx["sg.paren"]
            s_brack = s if lx["sg.bracket"] is None else " " * lx["sg.bracket"]
            ls.append(lx["indent"] + "SG_" + s + sy[sg["name"]] + m + colon + "%d|%d@%s%s" % (sg["start"], sg["width"], bo, sign) + s_paren
                      + "(" + render_number(sg["factor"], lx["num.scale"]) + "," + lx["sg.comma"] + render_number(sg["offset"], lx["num.scale"]) + ")" + s_brack
                      + "[" + render_number(sg["min"], lx["num.limit"]) + "|" + render_number(sg["max"], lx["num.limit"]) + "]" + s
                      + '"' + sg["unit"] + '"' + s + rec)
        section(ls)

    # ---- transmitters ----
    ls = []
    s = sp("BO_TX_BU_")
    for fr in order("BO_TX_BU_", desc["frames"]):
        need = len(fr["senders"]) > 1 or (fr["senders"] and not lx["txfirst"])
        if need:
            colon = lx["tx.colon"] if lx["tx.colon"] != " : " else s + ":" + s
            ls.append("BO_TX_BU_" + s + str(can_id(fr)) + colon + lx["txsep"].join(esym[x] for x in fr["senders"]) + semi)
    section(ls)

    # ---- comments ----
    s = sp("CM_")
    cms = []
    for e in desc["ecus"]:
        if e.get("comment"):
            cms.append("CM_" + s + "BU_" + s + esym[e["name"]] + s + '"' + CM_OPEN + e["comment"] + CM_CLOSE + '"' + semi)
    for fr in desc["frames"]:
        if fr.get("comment") is not None:
            cms.append("CM_" + s + "BO_" + s + str(can_id(fr)) + s + '"' + CM_OPEN + fr["comment"] + CM_CLOSE + '"' + semi)
        for sg in fr["signals"]:
            if sg.get("comment") is not None:
                cms.append("CM_" + s + "SG_" + s + str(can_id(fr)) + s + ssym[fr["name"]][sg["name"]] + s + '"' + CM_OPEN + sg["comment"] + CM_CLOSE + '"' + semi)
    ls = []
    for c in order("CM_", cms):
        parts = c.split("\n")
        ls += [NoTrail(x) for x in parts[:-1]] + [parts[-1]]      # blanks inside a comment string would belong to the comment
    section(ls)

    # ---- attribute definitions ----
    objkw = {"net": "", "ecu": "BU_", "frame": "BO_", "signal": "SG_"}
    s = sp("BA_DEF_")
    ls = []
    for d in desc["attr_defs"]:
        head = "BA_DEF_" + s + (objkw[d["object"]] + s if objkw[d["object"]] else "") + '"' + d["name"] + '"' + s
        if d["type"] in ("INT", "HEX"):
            body = d["type"] + s + str(d["min"]) + s + str(d["max"])
        elif d["type"] == "FLOAT":
            body = "FLOAT" + s + render_number(d["min"], lx["num.attr"]) + s + render_number(d["max"], lx["num.attr"])
        elif d["type"] == "STRING":
            body = "STRING"
        else:
            body = "ENUM" + s + lx["enumsep"].join('"' + v + '"' for v in d["values"])
        ls.append(head + body + semi)
    for kw, an in (("BU_", "SystemNodeLongSymbol"), ("BO_", "SystemMessageLongSymbol"), ("SG_", "SystemSignalLongSymbol")):
        if any(a[1] == an for a in long_attrs):
            ls.append("BA_DEF_" + s + kw + s + '"' + an + '"' + s + "STRING" + semi)
    section(order("BA_DEF_", ls))
    s = sp("BA_DEF_DEF_")
    ls = []
    for an in sorted({a[1] for a in long_attrs}):
        ls.append("BA_DEF_DEF_" + s + '"' + an + '"' + s + '""' + semi)
    for d in desc["attr_defs"]:
        if d.get("default") is None:
            continue
        if d["type"] in ("INT", "HEX"):
            v = str(d["default"])
        elif d["type"] == "FLOAT":
            v = render_number(d["default"], lx["num.attr"])
        else:
            v = '"' + d["default"] + '"'
        ls.append("BA_DEF_DEF_" + s + '"' + d["name"] + '"' + s + v + semi)
    section(order("BA_DEF_DEF_", ls))

    # ---- attribute values ----
    dmap = {d["name"]: d for d in desc["attr_defs"]}

    def val(name, v):
        d = dmap[name]
        if d["type"] in ("INT", "HEX"):
            return str(v)
        if d["type"] == "FLOAT":
            return render_number(v, lx["num.attr"])
        if d["type"] == "ENUM":
            return str(d["values"].index(v))
        return '"' + v + '"'
    s = sp("BA_")
    ls = []
    for kw, an, addr, long_name in long_attrs:
        ls.append("BA_" + s + '"' + an + '"' + s + kw + s + addr.replace("\0", s) + s + '"' + long_name + '"' + semi)
    for k, v in desc["net_attributes"].items():
        ls.append("BA_" + s + '"' + k + '"' + s + val(k, v) + semi)
    for e in desc["ecus"]:
        for k, v in e.get("attributes", {}).items():
            ls.append("BA_" + s + '"' + k + '"' + s + "BU_" + s + esym[e["name"]] + s + val(k, v) + semi)
    for fr in desc["frames"]:
        for k, v in fr["attributes"].items():
            ls.append("BA_" + s + '"' + k + '"' + s + "BO_" + s + str(can_id(fr)) + s + val(k, v) + semi)
        for sg in fr["signals"]:
            for k, v in sg["attributes"].items():
                ls.append("BA_" + s + '"' + k + '"' + s + "SG_" + s + str(can_id(fr)) + s + ssym[fr["name"]][sg["name"]] + s + val(k, v) + semi)
    section(order("BA_", ls))

    # ---- value descriptions ----
    s = sp("VAL_")
    ls = []
    for fr in desc["frames"]:
        for sg in fr["signals"]:
            if sg["values"]:
                pairs = sorted(sg["values"].items(), reverse=True)      # CANdb++ lists descending
                ls.append("VAL_" + s + str(can_id(fr)) + s + ssym[fr["name"]][sg["name"]] + "".join(s + str(k) + s + '"' + l + '"' for k, l in pairs) + semi)
    section(order("VAL_", ls))

    # ---- signal groups, float types, extended multiplexing ----
    s = sp("SIG_GROUP_")
    ls = []
    for fr in desc["frames"]:
        for g in fr.get("groups", []):
            colon = {" : ": s + ":", ": ": ":", ":": ":", " :": s + ":"}[lx["grp.colon"]]
            first = "" if lx["grp.colon"] in (":", " :") else s
            ls.append("SIG_GROUP_" + s + str(can_id(fr)) + s + g["name"] + s + str(g["repetitions"]) + colon
                      + first + s.join(ssym[fr["name"]][n] for n in g["signals"]) + semi)
    section(ls)
    s = sp("SIG_VALTYPE_")
    ls = []
    for fr in desc["frames"]:
        for sg in fr["signals"]:
            if sg["type"] == "float":
                colon = lx["vt.colon"] if lx["vt.colon"] != " : " else s + ":" + s
                ls.append("SIG_VALTYPE_" + s + str(can_id(fr)) + s + ssym[fr["name"]][sg["name"]] + colon + ("1" if sg["width"] == 32 else "2") + semi)
    section(ls)
    s = sp("SG_MUL_VAL_")
    ls = []
    for fr in desc["frames"]:
        for sg in fr["signals"]:
            if sg["mux"] and sg["mux"]["role"] == "muxed" and sg["mux"].get("ranges"):
                ls.append("SG_MUL_VAL_" + s + str(can_id(fr)) + s + ssym[fr["name"]][sg["name"]] + s + ssym[fr["name"]][sg["mux"]["muxer"]] + s
                          + lx["mulsep"].join(("%d" + lx["muldash"] + "%d") % r for r in sg["mux"]["ranges"]) + semi)
    section(order("SG_MUL_VAL_", ls))

    out = []
    for i, sec in enumerate(sections):
        out += sec
        out += [""] * lx["blank"]
    eol = lx["eol"]
    trail = " " if lx["trail"] else ""
    text = "".join(l + (trail if (l and not isinstance(l, NoTrail)) else "") + eol for l in out)
    # comment strings may be in a charset of their own (reader option dbcImportCommentEncoding): encode piecewise
    out_b, cur = [], enc_stmt
    for part in re.split("([%s%s])" % (CM_OPEN, CM_CLOSE), text):
        if part == CM_OPEN:
            cur = enc_comment
        elif part == CM_CLOSE:
            cur = enc_stmt
        else:
            out_b.append(part.encode(cur))
    return b"".join(out_b)


# "<statement charset>" or "<statement charset>+cm=<comment charset>": every reader option that selects a charset is varied on its
# own.  The statement charset of a mixed file is a total single-byte one (the reader decodes whole lines with it to find the statements).
ENCODINGS = ["iso-8859-1", "utf-8", "iso-8859-1+cm=utf-8", "iso-8859-1+cm=cp1252", "cp1252", "cp1252+cm=iso-8859-1"]


def render_with_opts(desc, lex, encoding):
    """bytes + the reader options that announce the encoding (dbcImportEncoding; default iso-8859-1)"""
    stmt, _, cm = encoding.partition("+cm=")
    opts = {} if stmt == "iso-8859-1" else {"dbcImportEncoding": stmt}
    if cm:
        opts["dbcImportCommentEncoding"] = cm
    return render(desc, lex, encoding), opts
