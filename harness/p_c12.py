"""C12: copy and merge carry frames over completely and never disturb the target.
Search oracle (independent of the model): a transcription of the property on the real objects - snapshot of the effective value
(explicit, else the definition's default) of every attribute of every object of the target before the operation and comparison
after it, copied frame/signal/ECU compared with the source object field by field, deep-copy independence (no shared mutable
object; mutating the copy leaves the source unchanged), refused ids leave the target unchanged, copy_ecu_with_frames copies
exactly the requested frame set, merge = the frame rule for every frame in order.
Tie: normal form of the target after each history (copy.py / CanMatrix.merge) vs model/CopyOps.v (cmd 1201), effective values
(X.attribute) vs the model's eff (cmd 1202)."""
import copy as pycopy
import json
import os

import core

LEVEL_NOTE = ("theorems are about model/CopyOps.v (copy_ecu, copy_frame, copy_ecu_with_frames, copy_signal, merge, "
              "add_define_default, X.attribute); names/strings/value tables/signal layouts are interned integers, deep copies are "
              "values (aliasing is checked on the implementation by the search only); frame_by_id is a scan (memo = C10); ECU/signal "
              "globs: every fnmatch spelling is requested ('*', 'x*', '?', '[seq]', '[!seq]'); the harness resolves a pattern with "
              "its own matcher and hands the model the selected names (the model's glob is None = '*' or the list of selected names); envelope: attribute names are not attrs field names and are not shared across define "
              "categories (DBC namespace, hypothesis ns_ok of the theorems; the overwrite that happens otherwise is shown by "
              "C12_shared_names_refuted and replayed as an observation), equal-named definitions are both ENUM or both not "
              "(otherwise AttributeError, modelled as m_err and tied), no surrounding blanks / quotes in names and values; "
              "deletion of non-communicating target ECUs by direct_ecu_only is modelled and tied but not claimed either way; "
              "environment variables of merge are modelled and tied, no theorem; the property fixes no ORDER of target.ecus / "
              "target.frames / free signals / the define and attribute dicts / ENUM value lists: the oracle judges sets (which frames, "
              "which ECUs, which definitions, the values), the tie compares normal forms modulo those orders (canon()), the model keeps "
              "the order of the code it was read from; also outside the statement and therefore not tied: which further values an ENUM "
              "value list offers after a copy, copy_frame for an id the source does not have, and "
              "copy_signal when the source has a signal definition without default (whether a definition the signal has no value for "
              "comes along, or raises for ENUM, is open): these requests are not generated, the model's paths for them stay untied")

CATS = ("sig", "frame", "ecu", "glob")
CATNUM = {"sig": 0, "frame": 1, "ecu": 2, "glob": 3}
DEFATTR = {"sig": "signal_defines", "frame": "frame_defines", "ecu": "ecu_defines", "glob": "global_defines"}
ADDER = {"sig": "add_signal_defines", "frame": "add_frame_defines", "ecu": "add_ecu_defines", "glob": "add_global_defines"}
TYNUM = {None: 0, "ENUM": 1, "INT": 2, "STRING": 3, "HEX": 4, "FLOAT": 5}
# attribute name pools: the name fixes category and kind (DBC: one namespace for all attribute definitions)
ATTRS = {"ecu": ["eS", "eE", "eI"], "frame": ["fS", "fE"], "sig": ["sS", "sE", "sI"], "glob": ["gS"]}
SHARED = ["X", "XE"]          # only in the shared-name stream
ALLNAMES = [a for c in CATS for a in ATTRS[c]] + SHARED
ENUM_LISTS = [["a", "b"], ["a", "b", "c"], ["b", "a"], ["c"], ["a", "b", "c", "d"]]


def kind_of(name):
    return "ENUM" if name.endswith("E") else ("INT" if name.endswith("I") else "STRING")


def defstr(name, enumvals=None):
    k = kind_of(name)
    if k == "ENUM":
        return 'ENUM "' + '","'.join(enumvals) + '"'
    return "INT 0 100" if k == "INT" else "STRING"


class Intern:
    def __init__(self):
        self.t = {}

    def __call__(self, v):
        if v is None:
            return -1
        k = (type(v).__name__, v if isinstance(v, (str, int, bool)) else repr(v))
        if k not in self.t:
            self.t[k] = len(self.t) + 1
        return self.t[k]


# ------------------------------------------------------------------ building matrices from descriptions
def mk_sig(C, sd):
    return C.Signal(sd["name"], start_bit=sd["start"], size=sd["size"], is_little_endian=sd["le"], is_signed=sd["signed"],
                    factor=sd["factor"], offset=sd["offset"], unit=sd["unit"], receivers=list(sd["recv"]),
                    values={int(k): v for k, v in sd["values"]}, attributes={k: v for k, v in sd["attrs"]})


def build(C, d):
    db = C.CanMatrix()
    for name, comment, attrs in d["ecus"]:
        e = C.Ecu(name, comment)
        for k, v in attrs:
            e.add_attribute(k, v)
        db.add_ecu(e)
    for fd in d["frames"]:
        f = C.Frame(fd["name"], arbitration_id=C.ArbitrationId(fd["id"], fd["ext"]), size=fd["size"], transmitters=list(fd["tx"]),
                    comment=fd["comment"], is_fd=fd["fd"], cycle_time=fd["cycle"])
        for k, v in fd["attrs"]:
            f.add_attribute(k, v)
        for sd in fd["sigs"]:
            f.add_signal(mk_sig(C, sd))
        db.add_frame(f)
    for sd in d["sigs"]:
        db.add_signal(mk_sig(C, sd))
    for cat in CATS:
        for name, dstr, default in d["defs"][cat]:
            getattr(db, ADDER[cat])(name, dstr)
            if default is not None:
                getattr(db, DEFATTR[cat])[name].set_default(default)
    for k, v in d["gattrs"]:
        db.add_attribute(k, v)
    for k, v in d["env"]:
        db.add_env_var(k, dict(v))
    return db


# ------------------------------------------------------------------ normal form (same group layout as model/Run_C12.v)
SIG_PAYLOAD = None


def sig_payload_fields(sig):
    import attr
    return [f.name for f in attr.fields(type(sig)) if f.name not in ("name", "receivers", "values", "attributes")]


def nf_sig(I, tag, s):
    payload = tuple((n, repr(getattr(s, n))) for n in sig_payload_fields(s))
    g = [tag, I(s.name), I(payload), I(tuple(sorted(s.values.items()))), len(s.receivers)] + [I(r) for r in s.receivers]
    for k, v in s.attributes.items():
        g += [I(k), I(v)]
    return g


def nf_matrix(I, db):
    gs = []
    for e in db.ecus:
        g = [1, I(e.name), I(e.comment)]
        for k, v in e.attributes.items():
            g += [I(k), I(v)]
        gs.append(g)
    for f in db.frames:
        rest = (f.is_fd, f.is_j1939, f.cycle_time, f.is_complex_multiplexed, tuple(sorted(f.mux_names.items())), f.pdu_name, f.header_id)
        g = [2, f.arbitration_id.id, int(bool(f.arbitration_id.extended)), I(f.name), f.size, I(f.comment), I(rest), len(f.transmitters)]
        g += [I(x) for x in f.transmitters]
        for k, v in f.attributes.items():
            g += [I(k), I(v)]
        gs.append(g)
        for s in f.signals:
            gs.append(nf_sig(I, 3, s))
    for s in db.signals:
        gs.append(nf_sig(I, 4, s))
    for cat in CATS:
        for name, d in getattr(db, DEFATTR[cat]).items():
            if d.type == "ENUM":
                # Define.update() keeps the string equal to the rendered value list; anything else is kept visible
                rendered = 'ENUM "' + '","'.join(str(v) for v in d.values) + '"'
                dz = 0 if d.definition == rendered else I(("stale", d.definition))
                vals = [I(v) for v in d.values]
            else:
                dz = I(d.definition)
                vals = []
            gs.append([5, CATNUM[cat], I(name), dz, TYNUM.get(d.type, 0), I(d.defaultValue)] + vals)
    for k, v in db.attributes.items():
        gs.append([6, I(k), I(v)])
    for k, v in db.env_vars.items():
        gs.append([7, I(k), I(tuple(sorted((str(a), repr(b)) for a, b in v.items())))])
    return gs


# ------------------------------------------------------------------ the oracle's own notion of effective value
def own_eff(obj_attrs, name, defines):
    if name in obj_attrs:
        return obj_attrs[name]
    if name in defines:
        return defines[name].defaultValue
    return None


def all_objects(db):
    """(kind, object, explicit attribute dict, define dict of that kind)"""
    out = [("ecu", e, e.attributes, db.ecu_defines) for e in db.ecus]
    for f in db.frames:
        out.append(("frame", f, f.attributes, db.frame_defines))
        out += [("sig", s, s.attributes, db.signal_defines) for s in f.signals]
    out += [("sig", s, s.attributes, db.signal_defines) for s in db.signals]
    out.append(("glob", db, db.attributes, db.global_defines))
    return out


def snapshot(db):
    snap = []
    for kind, obj, attrs, defines in all_objects(db):
        vals = {}
        for a in ALLNAMES:
            if a in attrs or a in defines:        # "every attribute the target already defined"
                vals[a] = own_eff(attrs, a, defines)
        snap.append((kind, obj, vals))
    return snap


def present(db, kind, obj):
    if kind == "glob":
        return True
    if kind == "ecu":
        return any(x is obj for x in db.ecus)
    if kind == "frame":
        return any(x is obj for x in db.frames)
    return any(x is obj for f in db.frames for x in f.signals) or any(x is obj for x in db.signals)


def mutable_ids(obj, acc=None, depth=0):
    """ids of the mutable objects reachable from a frame / signal / ecu"""
    import attr
    if acc is None:
        acc = set()
    if isinstance(obj, (list, dict, set)):
        acc.add(id(obj))
        it = obj.values() if isinstance(obj, dict) else obj
        for x in it:
            mutable_ids(x, acc, depth + 1)
    elif attr.has(type(obj)):
        acc.add(id(obj))
        for f in attr.fields(type(obj)):
            mutable_ids(getattr(obj, f.name), acc, depth + 1)
    return acc


class Oracle:
    def __init__(self, chk, C, case_input):
        self.chk = chk
        self.C = C
        self.inp = case_input
        self.in_envelope = True
        self.variant = "plain"
        self.pattern_request = False

    PER_KEY = {}

    def bad(self, key, what, expected=None, observed=None):
        if self.in_envelope and self.variant != "plain":
            key = "edge-value:" + key          # the failing case is one of the empty-string / "0" value variants
        elif self.in_envelope and self.pattern_request:
            key = "glob-pattern:" + key        # the failing request selects by a pattern other than an exact name or "*"
        if self.in_envelope:
            # core keeps the first 50 violations of a run: leave room for every failure class (first = smallest case)
            n = Oracle.PER_KEY.get(key, 0)
            Oracle.PER_KEY[key] = n + 1
            self.chk.count("violation:" + key)
            if n < 4 or any(k.get("key") == key for k in self.chk.known):
                self.chk.violation(key, what, self.inp, expected, observed)
        else:
            self.chk.count("observed-outside-envelope:" + key)

    # ---- bystanders
    def bystanders(self, snap, tdb, allow_ecu_removal):
        for kind, obj, vals in snap:
            if not present(tdb, kind, obj):
                if kind == "ecu" and allow_ecu_removal:
                    self.chk.count("target-ecu-deleted-by-direct_ecu_only (not claimed)")
                else:
                    self.bad("bystander-removed", "an object already in the target is gone after the copy", kind,
                             getattr(obj, "name", None))
                continue
            attrs = obj.attributes
            defines = getattr(tdb, DEFATTR[kind])
            for a, before in vals.items():
                now = own_eff(attrs, a, defines)
                if now != before:
                    self.bad("bystander-%s-value" % kind,
                             "an object already in the target changed the effective value of an attribute the target defined",
                             dict(object=getattr(obj, "name", "<matrix>"), attribute=a, before=before), now)

    # ---- one copied object against its source
    def values_equal_source(self, kind, sobj, sdb, tobj, tdb, what):
        sdef = getattr(sdb, DEFATTR[kind])
        tdef = getattr(tdb, DEFATTR[kind])
        for a in ALLNAMES:
            sv = own_eff(sobj.attributes, a, sdef)
            if sv is None:
                continue
            tv = own_eff(tobj.attributes, a, tdef)
            if tv != sv:
                self.bad("copied-%s-value" % kind, "copied %s: effective attribute value differs from the source" % what,
                         dict(object=sobj.name, attribute=a, source=sv), tv)
            if a in sdef and a not in tdef:
                self.bad("define-not-brought", "attribute definition used by a copied object is missing in the target",
                         dict(kind=kind, attribute=a))
        for k, v in sobj.attributes.items():
            if tobj.attributes.get(k) != v:
                self.bad("copied-%s-value" % kind, "explicit attribute of the source object not carried over", dict(object=sobj.name, attribute=k, source=v),
                         tobj.attributes.get(k))

    def new_defines(self, defs_before, sdbs, tdb):
        """a definition the target did not have comes with the definition, type and default of a source that has it"""
        for cat in CATS:
            for a, d in getattr(tdb, DEFATTR[cat]).items():
                cands = [getattr(s, DEFATTR[cat])[a] for s in sdbs if a in getattr(s, DEFATTR[cat])]
                if a in defs_before[cat]:
                    continue
                if not cands:
                    self.bad("define-differs", "the target got a definition no source has", dict(cat=cat, attribute=a))
                    continue

                def same(s):
                    ok = d.type == s.type and d.defaultValue == s.defaultValue
                    if s.type == "ENUM":
                        return ok and list(d.values[:len(s.values)]) == list(s.values)
                    return ok and d.definition == s.definition
                if not any(same(s) for s in cands):
                    s = cands[0]
                    self.bad("define-differs", "a definition brought along differs from the source's",
                             dict(cat=cat, attribute=a, source=(s.definition, s.type, s.defaultValue)), (d.definition, d.type, d.defaultValue))

    def fields_equal(self, sobj, tobj, skip, subset=()):
        import attr
        diffs = []
        for f in attr.fields(type(sobj)):
            n = f.name
            if n in skip:
                continue
            a, b = getattr(sobj, n), getattr(tobj, n)
            if n in subset:
                if not all(x in a for x in b):
                    diffs.append((n, repr(a), repr(b)))
            elif a != b:
                diffs.append((n, repr(a), repr(b)))
        return diffs

    def copied_frame(self, sf, sdb, tf, tdb, trimmed):
        """tf (in the target) is the copy of sf.  trimmed: direct_ecu_only may have removed ECU names from tx/receivers."""
        sub = ("transmitters",) if trimmed else ()
        # Frame.receivers (the list update_receiver derives from the signals) is not among the fields the statement names
        # ("identifier, name, length, senders, comment and signals (layout, type, scaling, receivers, value tables)")
        skip = {"attributes", "signals", "receivers"}
        diffs = self.fields_equal(sf, tf, skip, sub)
        if len(sf.signals) != len(tf.signals):
            diffs.append(("signals", len(sf.signals), len(tf.signals)))
        else:
            for ss, ts in zip(sf.signals, tf.signals):
                diffs += [("signal " + ss.name,) + d for d in self.fields_equal(ss, ts, {"attributes"}, ("receivers",) if trimmed else ())]
        if diffs:
            self.bad("frame-fields", "copied frame differs from the source frame", dict(frame=sf.name), diffs[:4])
        if mutable_ids(sf) & mutable_ids(tf):
            self.bad("copy-not-independent", "copied frame shares a mutable object with the source frame", dict(frame=sf.name))
        self.values_equal_source("frame", sf, sdb, tf, tdb, "frame")
        if len(sf.signals) == len(tf.signals):
            names = [s.name for s in sf.signals]
            for ss, ts in zip(sf.signals, tf.signals):
                if names.count(ss.name) == 1:          # envelope: signal names unique within a frame
                    self.values_equal_source("sig", ss, sdb, ts, tdb, "signal")

    def brought_ecus(self, names, ecus_before, sdb, tdb, may_be_deleted):
        for n in names:
            se = next((e for e in sdb.ecus if e.name == n), None)
            if se is None:
                continue
            te = next((e for e in tdb.ecus if e.name == n), None)
            if te is None:
                if not may_be_deleted:
                    self.bad("ecu-not-brought", "an ECU the copied frame references and the source defines is missing in the target", dict(ecu=n))
                continue
            if n in ecus_before:
                continue                                 # it was the target's own: bystander rule applies
            if te.comment != se.comment or te.name != se.name:
                self.bad("ecu-fields", "copied ECU differs from the source ECU", dict(ecu=n))
            if mutable_ids(se) & mutable_ids(te):
                self.bad("copy-not-independent", "copied ECU shares a mutable object with the source ECU", dict(ecu=n))
            self.values_equal_source("ecu", se, sdb, te, tdb, "ECU")


def ids_of(db):
    return [(f.arbitration_id.id, bool(f.arbitration_id.extended)) for f in db.frames]


def own_glob(pat, name):
    """the oracle's own reading of an fnmatch pattern (case sensitive): '*' any run, '?' one character, '[seq]' / '[!seq]' one
    character in / not in seq (ranges a-b allowed); a '[' without closing ']' is a literal"""
    def cls(p, i):
        # p[i] == '[': returns (negated, set-description, index after ']') or None
        j = i + 1
        if j < len(p) and p[j] == "!":
            j += 1
        if j < len(p) and p[j] == "]":
            j += 1
        while j < len(p) and p[j] != "]":
            j += 1
        if j >= len(p):
            return None
        body = p[i + 1:j]
        neg = body.startswith("!")
        return neg, (body[1:] if neg else body), j + 1

    def in_set(body, ch):
        k = 0
        while k < len(body):
            if k + 2 < len(body) and body[k + 1] == "-":
                if body[k] <= ch <= body[k + 2]:
                    return True
                k += 3
            else:
                if body[k] == ch:
                    return True
                k += 1
        return False

    def m(i, j):
        if i == len(pat):
            return j == len(name)
        c = pat[i]
        if c == "*":
            return any(m(i + 1, k) for k in range(j, len(name) + 1))
        if j == len(name):
            return False
        if c == "?":
            return m(i + 1, j + 1)
        if c == "[":
            r = cls(pat, i)
            if r is not None:
                neg, body, nxt = r
                return (in_set(body, name[j]) != neg) and m(nxt, j + 1)
        return c == name[j] and m(i + 1, j + 1)
    return m(0, 0)


def glob_class(pat):
    if pat == "*":
        return "star"
    if "[" in pat:
        return "class"
    if "?" in pat:
        return "question"
    if "*" in pat:
        return "star-affix"
    return "exact"


def fkey(f):
    return (f.arbitration_id.id, bool(f.arbitration_id.extended))


def new_objects(now, before):
    """the objects of a list that were not in it before (by identity)"""
    return [x for x in now if not any(x is y for y in before)]


def canon(groups, no_ecu_refs=False):
    if os.environ.get("VERIF_C12_EXACT_ORDER"):
        return groups          # diagnostic switch: tie with every list and dict order as the model produces it
    return _canon(groups, no_ecu_refs)


def _canon(groups, no_ecu_refs=False):
    """Normal form modulo what the property does not fix.  Orders: ECU list, frame list, free-signal list, the define dicts, the
    attribute dicts of every object, global attributes, environment variables.  Content: the value LIST of an ENUM definition
    (the property speaks of effective values and of the definitions the copied objects use, not of which further values a list
    offers; that the definition string is the rendered list stays visible through the definition field).  Kept: the signals of a frame in
    order, transmitter and receiver lists in order, every field, every definition's string/type/default.  Sorting is stable,
    so frames sharing an identifier (malformed stream) keep their relative order."""
    def sort_pairs(flat):
        ps = sorted((flat[i], flat[i + 1]) for i in range(0, len(flat) - 1, 2))
        return [z for p in ps for z in p]
    ecus, blocks, free, defs, rest = [], [], [], [], []
    for g in groups:
        t = g[0]
        if t == 1:
            ecus.append(g[:3] + sort_pairs(g[3:]))
        elif t == 2:
            n = 8 + g[7]
            blocks.append([g[:n] + sort_pairs(g[n:])])
        elif t in (3, 4):
            n = 5 + g[4]
            h = g[:n] + sort_pairs(g[n:])
            if t == 3 and blocks:
                blocks[-1].append(h)
            else:
                free.append(h)
        elif t == 5:
            defs.append(g[:6])         # [5, cat, name, definition (0 for a consistent ENUM string), type, default]: no value list
        else:
            rest.append(g)
    # bare ECU entries (no comment, no attribute): placeholders for names frames refer to (update_ecu_list makes them); which of
    # them a target lists is not fixed by the statement ("every ECU the frame references that the source defines" is a lower bound)
    ecus = [g for g in ecus if not (g[2] == -1 and len(g) == 3)]
    if no_ecu_refs:
        # after a direct_ecu_only=True request: which OTHER ECU entries are pruned, and hence which names are struck from
        # transmitter / receiver lists, is open - only frames, signals, attributes and definitions are tied
        ecus = []
        blocks = [[b[0][:7] + [0] + b[0][8 + b[0][7]:]] + [h[:4] + [0] + h[5 + h[4]:] for h in b[1:]] for b in blocks]
        free = [h[:4] + [0] + h[5 + h[4]:] for h in free]
    ecus.sort(key=lambda g: g[1])
    blocks.sort(key=lambda b: (b[0][1], b[0][2]))
    free.sort()
    defs.sort(key=lambda g: (g[1], g[2]))
    rest.sort()
    return ecus + [g for b in blocks for g in b] + free + defs + rest


def frame_refs(f):
    return list(f.transmitters) + [r for s in f.signals for r in s.receivers]


# ------------------------------------------------------------------ one operation on the implementation, with the oracle
def apply_op(chk, C, cp, orc, tdb, op, sdbs, I):
    """returns (raised, copy_frame result or None)"""
    kind = op["op"]
    snap = snapshot(tdb)
    ids_before = ids_of(tdb)
    frames_before = list(tdb.frames)
    sigs_before = list(tdb.signals)
    nframes_before = len(tdb.frames)
    ecus_before = {e.name for e in tdb.ecus}
    defs_before = {cat: set(getattr(tdb, DEFATTR[cat]).keys()) for cat in CATS}
    nf_before = nf_matrix(I, tdb)
    src_nf_before = [nf_matrix(I, s) for s in sdbs]
    nfree_before = len(tdb.signals)
    res = None
    try:
        if kind == "frame":
            res = cp.copy_frame(C.ArbitrationId(op["id"], op["ext"]), sdbs[0], tdb)
        elif kind == "ecu":
            cp.copy_ecu(op["glob"], sdbs[0], tdb)
        elif kind == "ecu_frames":
            cp.copy_ecu_with_frames(op["glob"], sdbs[0], tdb, rx=op["rx"], tx=op["tx"], direct_ecu_only=op["direct"])
        elif kind == "signal":
            cp.copy_signal(op["glob"], sdbs[0], tdb)
        elif kind == "merge":
            tdb.merge(sdbs)
    except (AttributeError, TypeError, KeyError) as e:
        if orc.in_envelope and not op.get("expect_raise"):
            orc.bad("raised", "copy raised %s on a well-formed request" % type(e).__name__, None, str(e))
        return True, None
    if op.get("expect_raise"):
        chk.count("expected-raise-did-not-raise")
    # sources untouched
    for s, before in zip(sdbs, src_nf_before):
        if nf_matrix(I, s) != before:
            orc.bad("source-modified", "the copy changed the source matrix")
    direct = kind == "ecu_frames" and op["direct"]
    orc.bystanders(snap, tdb, allow_ecu_removal=direct)
    orc.new_defines(defs_before, sdbs, tdb)
    sdb = sdbs[0]
    if kind == "frame":
        want = (op["id"], op["ext"])
        if want in ids_before:
            if res is not False:
                orc.bad("refused-result", "a frame whose id exists in the target was not refused", want, res)
            if nf_matrix(I, tdb) != nf_before:
                orc.bad("refused-changed", "a refused copy changed the target", want)
        else:
            new = new_objects(tdb.frames, frames_before)
            if res is not True or len(new) != 1 or fkey(new[0]) != want:
                orc.bad("frame-not-copied", "frame with a new id was not copied", want, res)
            else:
                sf = next(f for f in sdb.frames if fkey(f) == want)
                orc.copied_frame(sf, sdb, new[0], tdb, None)
                orc.brought_ecus(frame_refs(sf), ecus_before, sdb, tdb, False)
                if sorted(ids_of(tdb)) != sorted(ids_before + [want]):
                    orc.bad("frame-set", "copy_frame changed the other frames of the target", want)
    elif kind == "merge":
        # the frame rule for every frame of every source, sources and frames taken in the order given: the first frame that
        # claims an identifier gets it.  WHERE the new frames stand in target.frames is not part of the property.
        taken = list(ids_before)
        exp = []
        for s in sdbs:
            for f in s.frames:
                k = fkey(f)
                if k not in taken:
                    taken.append(k)
                    exp.append((f, s))
        new = {fkey(f): f for f in new_objects(tdb.frames, frames_before)}
        if sorted(ids_of(tdb)) != sorted(taken):
            orc.bad("merge-frame-rule", "merge did not add exactly the frames whose ids were new", sorted(taken), sorted(ids_of(tdb)))
        else:
            for sf, s in exp:
                orc.copied_frame(sf, s, new[fkey(sf)], tdb, None)
                orc.brought_ecus(frame_refs(sf), ecus_before, s, tdb, False)
                ecus_before |= {e.name for e in tdb.ecus if e.name in frame_refs(sf)}
    elif kind == "ecu_frames":
        # exactly the frames the requested ECUs send and/or receive, as requested, that were not present: a SET of identifiers
        # (the property fixes neither the order of the passes nor the position of the copies in target.frames)
        wanted = [e.name for e in sdb.ecus if own_glob(op["glob"], e.name)]
        exp = {}
        for f in sdb.frames:
            k = fkey(f)
            hit = any((op["tx"] and n in f.transmitters) or (op["rx"] and any(n in s.receivers for s in f.signals)) for n in wanted)
            if hit and k not in ids_before and k not in exp:
                exp[k] = f
        new = {fkey(f): f for f in new_objects(tdb.frames, frames_before)}
        if sorted(ids_of(tdb)) != sorted(ids_before + list(exp)):
            orc.bad("frame-set", "copy_ecu_with_frames did not copy exactly the frames the ECU sends/receives as requested",
                    sorted(ids_before + list(exp)), sorted(ids_of(tdb)))
        else:
            for k, sf in exp.items():
                orc.copied_frame(sf, sdb, new[k], tdb, direct)
                orc.brought_ecus(frame_refs(sf), ecus_before, sdb, tdb, direct)
        for n in wanted:
            if not any(e.name == n for e in tdb.ecus):
                orc.bad("requested-ecu-missing", "the ECU that was asked to be copied is not in the target afterwards", dict(ecu=n))
        orc.brought_ecus(wanted, ecus_before, sdb, tdb, True)
    elif kind == "ecu":
        wanted = [e.name for e in sdb.ecus if own_glob(op["glob"], e.name)]
        orc.brought_ecus(wanted, ecus_before, sdb, tdb, False)
        if sorted(ids_of(tdb)) != sorted(ids_before):
            orc.bad("frame-set", "copy_ecu changed the frames of the target")
    elif kind == "signal":
        exp = [s for f in sdb.frames for s in f.signals if own_glob(op["glob"], s.name)]
        new = new_objects(tdb.signals, sigs_before)
        if len(new) != len(exp):
            orc.bad("signal-set", "copy_signal did not add exactly the matching signals", len(exp), len(new))
        else:
            rest = list(new)
            for ss in exp:
                # its copy: a new free signal of that name equal to it field by field (position among the free signals is open)
                cands = [ts for ts in rest if ts.name == ss.name]
                ts = next((c for c in cands if not orc.fields_equal(ss, c, {"attributes"})), cands[0] if cands else None)
                if ts is None:
                    orc.bad("signal-set", "copy_signal did not add exactly the matching signals", ss.name, [x.name for x in rest])
                    continue
                rest = [x for x in rest if x is not ts]
                d = orc.fields_equal(ss, ts, {"attributes"})
                if d:
                    orc.bad("signal-fields", "copied signal differs from the source signal", dict(signal=ss.name), d[:3])
                if mutable_ids(ss) & mutable_ids(ts):
                    orc.bad("copy-not-independent", "copied signal shares a mutable object with the source signal", dict(signal=ss.name))
                orc.values_equal_source("sig", ss, sdb, ts, tdb, "signal")
        if sorted(ids_of(tdb)) != sorted(ids_before):
            orc.bad("frame-set", "copy_signal changed the frames of the target")
    return False, res


# ------------------------------------------------------------------ generators
def sig_desc(name, recv=(), attrs=(), start=0, size=8, le=True, signed=False, factor="1", offset="0", unit="", values=()):
    return dict(name=name, start=start, size=size, le=le, signed=signed, factor=factor, offset=offset, unit=unit,
                recv=list(recv), values=[list(v) for v in values], attrs=[list(a) for a in attrs])


def frame_desc(name, fid, ext=False, size=8, tx=(), comment="", attrs=(), sigs=(), fd=False, cycle=0):
    return dict(id=fid, ext=ext, name=name, size=size, tx=list(tx), comment=comment, fd=fd, cycle=cycle,
                attrs=[list(a) for a in attrs], sigs=list(sigs))


def empty_desc():
    return dict(ecus=[], frames=[], sigs=[], defs={c: [] for c in CATS}, gattrs=[], env=[])


def systematic_cases():
    """One cell of the attribute rule at a time, smallest matrices first: category x definition in target (absent / same default /
    different default / no default) x source (explicit / default / no value) x bystander (explicit / default) x STRING/ENUM x
    same-named ECU already in the target x frame and signal NAMES of the copied frame already used by a target frame under another id,
    under every kind of copy request (incl. a merge of two sources that share the names)."""
    cases = []
    for cat in ("sig", "frame", "ecu"):
        for enum in (False, True):
            a = {"sig": "sS", "frame": "fS", "ecu": "eS"}[cat][:-1] + ("E" if enum else "S")
            slist, tlist = ["a", "b", "c"], ["a", "b"]
            # edge-of-range attribute VALUES: the empty string (BA_DEF_DEF_ "X" "") and "0" are values like any other - they are
            # not None, so "has a value" must not be decided by truthiness anywhere on the way
            variants = [("plain", ("b", "c", "a", "a") if enum else ("2", "3", "1", "9"))]
            if not enum:
                variants += [("empty-source-default", ("", "3", "1", "9")), ("empty-target-default", ("2", "3", "", "9")),
                             ("empty-explicit", ("2", "", "1", "")), ("zero-text", ("0", "3", "1", "0"))]
            for variant, (sdefault, sexpl, tother, bexpl) in variants:
             for tstate in ("absent", "same", "different", "nodefault"):
                for sstate in ("default", "explicit", "novalue"):
                    for byst in ("default", "explicit"):
                        # frame/signal NAMES are independent of identifiers: the target's own frame may carry the name of the
                        # copied frame (and an equally named signal) under another id; lookups by name must not reach it
                        for pre_a, names in (((False, "distinct"), (True, "distinct"), ("explicit", "distinct"),
                                              (False, "same-frame-name"), (False, "same-frame-and-signal-name"))
                                             if variant == "plain" else ((False, "distinct"),)):
                            src = empty_desc()
                            sat = [[a, sexpl]] if sstate == "explicit" else []
                            src["defs"][cat].append([a, defstr(a, slist), None if sstate == "novalue" else sdefault])
                            src["ecus"] = [["A", None, sat if cat == "ecu" else []], ["B", "cb", []]]
                            src["frames"] = [frame_desc("F1", 0x10, tx=["A"], attrs=sat if cat == "frame" else [],
                                                        sigs=[sig_desc("s1", recv=["B"], attrs=sat if cat == "sig" else [], values=[[1, "on"]])])]
                            # a second source for merges: the same names under another identifier, another default
                            src2 = pycopy.deepcopy(src)
                            src2["frames"][0]["id"] = 0x11
                            if sstate != "novalue":
                                src2["defs"][cat][0][2] = tother
                            tgt = empty_desc()
                            bat = [[a, bexpl]] if byst == "explicit" else []
                            if tstate != "absent":
                                tdefault = {"same": sdefault, "different": tother, "nodefault": None}[tstate]
                                tgt["defs"][cat].append([a, defstr(a, tlist if tstate == "different" else slist), tdefault])
                            tgt["ecus"] = [["Z", None, bat if cat == "ecu" else []]]
                            if pre_a:
                                tgt["ecus"].append(["A", "mine", [[a, bexpl]] if (pre_a == "explicit" and cat == "ecu") else []])
                            tfname = "G" if names == "distinct" else "F1"
                            tsname = "s1" if names == "same-frame-and-signal-name" else "t1"
                            tgt["frames"] = [frame_desc(tfname, 0x20, tx=["Z"], attrs=bat if cat == "frame" else [],
                                                        sigs=[sig_desc(tsname, recv=["Z"], attrs=bat if cat == "sig" else [])])]
                            ops = [([dict(op="frame", id=0x10, ext=False)], [src]), ([dict(op="merge", n=1)], [src]),
                                   ([dict(op="signal", glob="s1")], [src]),
                                   ([dict(op="ecu", glob="A")], [src]),
                                   ([dict(op="ecu_frames", glob="A", rx=True, tx=True, direct=True)], [src]),
                                   ([dict(op="ecu_frames", glob="B", rx=True, tx=False, direct=True)], [src]),
                                   ([dict(op="ecu_frames", glob="B", rx=True, tx=True, direct=False)], [src]),
                                   ([dict(op="ecu_frames", glob="*", rx=False, tx=True, direct=False)], [src]),
                                   ([dict(op="merge", n=2)], [src2, src])]
                            if names != "distinct":
                                ops = [ops[0], ops[1], ops[4], ops[8]]
                            elif variant == "plain" and not pre_a:
                                ops += [([dict(op="ecu_frames", glob="?", rx=True, tx=True, direct=False)], [src]),
                                        ([dict(op="ecu_frames", glob="[AB]", rx=False, tx=True, direct=True)], [src]),
                                        ([dict(op="ecu", glob="[!B]")], [src]),
                                        ([dict(op="signal", glob="s?")], [src])]
                            if cat == "sig" and sstate == "novalue":
                                # copy_signal and a definition the copied signal has no value for (no explicit value, no default):
                                # the statement says nothing about free-signal copies beyond the bystander rule, and whether such a
                                # definition comes along (or, for ENUM, Define.update() raises) is open - not requested
                                ops = [(o, ss) for o, ss in ops if o[0]["op"] != "signal"]
                            for o, srcs in ops:
                                cell = "%s/%s/tgt-%s/src-%s/byst-%s%s%s" % (cat, "ENUM" if enum else "STRING", tstate, sstate, byst,
                                                                            "/same-named-ecu" if pre_a else "",
                                                                            "" if names == "distinct" else "/" + names)
                                if variant != "plain":
                                    cell += "/" + variant
                                cases.append(dict(stream="systematic", cell=cell, variant=variant, target=tgt, history=[(o[0], srcs)]))
    return cases


def gen_matrix(rng, shared=False, malformed=False, ecu_pool=("E0", "E1", "E2", "E3")):
    d = empty_desc()
    for cat in CATS:
        names = list(ATTRS[cat]) + (SHARED if shared else [])
        for a in names:
            if rng.random() < 0.6:
                if kind_of(a) == "ENUM":
                    lst = rng.choice(ENUM_LISTS)
                    dv = rng.choice(lst + ([None] if cat != "sig" else []) + (["d"] if rng.random() < 0.2 else []))
                    ds = defstr(a, lst)
                    if malformed and rng.random() < 0.3:
                        ds = "STRING"            # equal name, other kind: AttributeError path
                else:
                    dv = rng.choice([None, "1", "2", "3", "", "0"] if kind_of(a) == "STRING" else [None, "1", "2", "3", "0"])
                    ds = defstr(a)
                d["defs"][cat].append([a, ds, dv])

    def attrs_for(cat):
        out = []
        for a in list(ATTRS[cat]) + (SHARED if shared else []):
            if rng.random() < 0.3:
                out.append([a, rng.choice(["a", "b", "c", "d"]) if kind_of(a) == "ENUM" else rng.choice(["1", "2", "3", "7", ""] if kind_of(a) == "STRING" else ["1", "2", "3", "7", "0"])])
        rng.shuffle(out)
        return out
    for n in ecu_pool:
        if rng.random() < 0.6:
            d["ecus"].append([n, rng.choice([None, "c" + n, ""]), attrs_for("ecu")])
    rng.shuffle(d["ecus"])
    ids = [(0x10, False), (0x11, False), (0x12, False), (0x10, True), (0x18FEF100, True)]
    rng.shuffle(ids)
    # a frame refers to ECUs its own matrix lists, or to "E9" which no matrix ever lists (whether a name that neither source nor
    # target defines becomes a bare ECU entry of the target is open; such entries are dropped from the tie, see _canon)
    allecus = [e[0] for e in d["ecus"]] + ["E9"]
    for i in range(rng.choice([0, 1, 1, 2, 2, 3])):
        fid, ext = ids[i]
        sigs = []
        snames = ["s0", "s1", "s2", "s3"]
        rng.shuffle(snames)
        for j in range(rng.choice([0, 1, 1, 2, 3])):
            sigs.append(sig_desc(snames[j], recv=rng.sample(allecus, min(len(allecus), rng.choice([0, 1, 1, 2]))), attrs=attrs_for("sig"),
                                 start=8 * j, size=rng.choice([1, 8]), le=rng.random() < 0.7, signed=rng.random() < 0.3,
                                 factor=rng.choice(["1", "0.5"]), offset=rng.choice(["0", "-40"]), unit=rng.choice(["", "V"]),
                                 values=rng.choice([[], [[0, "off"], [1, "on"]]])))
        if malformed and sigs and rng.random() < 0.3:
            sigs.append(pycopy.deepcopy(sigs[0]))           # duplicate signal name (signal_by_name finds the first)
        # names from a small pool shared by all matrices, independent of the identifier (same name / other id, same id / other name)
        d["frames"].append(frame_desc(rng.choice(["FA", "FB", "FC"]), fid, ext, size=rng.choice([2, 8]),
                                      tx=rng.sample(allecus, min(len(allecus), rng.choice([0, 1, 1, 2]))), comment=rng.choice(["", "cmt"]),
                                      attrs=attrs_for("frame"), sigs=sigs, fd=rng.random() < 0.2, cycle=rng.choice([0, 100])))
    if malformed and d["frames"] and rng.random() < 0.3:
        dup = pycopy.deepcopy(d["frames"][0])
        dup["name"] += "_dup"
        d["frames"].append(dup)                                 # duplicate id inside one matrix
    if rng.random() < 0.3:
        d["sigs"].append(sig_desc("free0", attrs=attrs_for("sig")))
    d["gattrs"] = attrs_for("glob")
    for k in ("v0", "v1"):
        if rng.random() < 0.3:
            d["env"].append([k, {"varType": rng.choice([0, 1])}])
    return d


def gen_op(rng, src, tgt, malformed):
    kind = rng.choice(["frame", "frame", "ecu", "ecu_frames", "ecu_frames", "signal", "merge"])
    if kind == "frame":
        pool = [(f["id"], f["ext"]) for f in src["frames"]]
        if not pool:
            # an id that names no frame of the source is not a copy request of the quantifier ("frame by id"): what happens then
            # (exception, refusal) is neither judged nor tied, so it is not generated
            return dict(op="merge", n=1)
        fid, ext = rng.choice(pool)
        return dict(op="frame", id=fid, ext=ext)
    if kind == "merge":
        return dict(op="merge", n=rng.choice([1, 1, 2]))
    names = [e[0] for e in src["ecus"]]
    if kind == "signal" and any(d[2] is None for d in src["defs"]["sig"]):
        kind = "ecu"         # see systematic_cases: copy_signal is requested only when every signal definition of the source has a default
    if kind == "signal":
        snames = [s["name"] for f in src["frames"] for s in f["sigs"]]
        return dict(op="signal", glob=rng.choice(snames + ["*", "nosuch", "s?", "s[01]", "s[!0]", "s[1-3]", "*2", "s*"]))
    # ECU by name or glob: every fnmatch spelling, not only exact names and "*"
    g = rng.choice(names + ["*", "E7", "E?", "E[01]", "E[!0]", "E[1-3]", "?1", "E*", "*2", "[E]2"])
    if kind == "ecu":
        return dict(op="ecu", glob=g)
    return dict(op="ecu_frames", glob=g, rx=rng.random() < 0.7, tx=rng.random() < 0.7, direct=rng.random() < 0.5)


def random_case(rng, stream):
    shared = stream == "shared-names"
    malformed = stream == "malformed"
    tgt = gen_matrix(rng, shared, malformed)
    hist = []
    for _ in range(rng.choice([1, 1, 2, 2, 3, 4])):
        src = gen_matrix(rng, shared, malformed)
        op = gen_op(rng, src, tgt, malformed)
        srcs = [src] + [gen_matrix(rng, shared, malformed) for _ in range(op.get("n", 1) - 1)]
        hist.append((op, srcs))
    return dict(stream=stream, cell=None, target=tgt, history=hist)


# ------------------------------------------------------------------ encoding of a case for the model
def op_header(I, op, src):
    k = op["op"]
    if k == "frame":
        return [10, op["id"], int(op["ext"])]
    if k == "merge":
        return [14, op["n"]]
    names = [s["name"] for f in src["frames"] for s in f["sigs"]] if k == "signal" else [e[0] for e in src["ecus"]]
    if op["glob"] == "*":
        g, sel = -1, []
    else:
        g, sel = 0, []
        for n in names:
            if own_glob(op["glob"], n) and I(n) not in sel:
                sel.append(I(n))
    if k == "ecu":
        return [11, g] + sel
    if k == "ecu_frames":
        return [12, g, int(op["rx"]), int(op["tx"]), int(op["direct"])] + sel
    return [13, g] + sel


def minimal_independence_probe(chk, C, cp):
    """mutate the copy, the source must not change (and the other way round)"""
    src = empty_desc()
    src["ecus"] = [["A", "ca", [["eS", "1"]]]]
    src["frames"] = [frame_desc("F1", 0x10, tx=["A"], attrs=[["fS", "1"]], sigs=[sig_desc("s1", recv=["A"], attrs=[["sS", "1"]], values=[[1, "on"]])])]
    I = Intern()
    for how in ("frame", "merge", "ecu_frames", "signal"):
        sdb, tdb = build(C, src), C.CanMatrix()
        if how == "frame":
            cp.copy_frame(C.ArbitrationId(0x10, False), sdb, tdb)
        elif how == "merge":
            tdb.merge([sdb])
        elif how == "ecu_frames":
            cp.copy_ecu_with_frames("A", sdb, tdb)
        else:
            cp.copy_signal("s1", sdb, tdb)
        before = nf_matrix(I, sdb)
        for f in tdb.frames:
            f.name = "changed"
            f.transmitters.append("Q")
            f.attributes["fS"] = "9"
            f.arbitration_id.id = 0x7FF
            for s in f.signals:
                s.receivers.append("Q")
                s.values[7] = "seven"
                s.attributes["sS"] = "9"
                s.name = "changed"
        for s in tdb.signals:
            s.receivers.append("Q")
            s.values[7] = "seven"
            s.attributes["sS"] = "9"
        for e in tdb.ecus:
            e.attributes["eS"] = "9"
        chk.case(("independence", how), True)
        if nf_matrix(I, sdb) != before:
            chk.violation("copy-not-independent", "mutating the copy changed the source (%s)" % how, dict(source=src, how=how))


def shared_name_probe(chk, C, cp):
    """replay of coq/proofs/Copy_witness.v:shared_names_refuted on the implementation (outside the envelope: DBC has one
    namespace for attribute definitions) - recorded, not alarmed"""
    src = empty_desc()
    src["defs"]["frame"].append(["X", "STRING", "2"])
    src["frames"] = [frame_desc("F", 0x10)]
    tgt = empty_desc()
    tgt["defs"]["sig"].append(["X", "STRING", "1"])
    tgt["frames"] = [frame_desc("G", 0x20, sigs=[sig_desc("t1")])]
    sdb, tdb = build(C, src), build(C, tgt)
    byst = tdb.frames[0].signals[0]
    before = own_eff(byst.attributes, "X", tdb.signal_defines)
    cp.copy_frame(C.ArbitrationId(0x10, False), sdb, tdb)
    after = own_eff(byst.attributes, "X", tdb.signal_defines)
    chk.case(("shared-name-witness",), True)
    chk.count("shared-name-witness:" + ("reproduced (bystander %s -> %s)" % (before, after) if before != after else "not reproduced"))
    chk.notes.append("C12_shared_names_refuted replayed on the implementation: source frame definition X (default 2), target signal "
                     "definition X (default 1), copy_frame -> bystander signal's X %s -> %s (add_define_default writes into every "
                     "category that knows the name); outside the envelope ns_ok, not alarmed" % (before, after))


def run(chk):
    chk.rule = ("systematic stream: every cell of the attribute rule (category ecu/frame/signal x STRING/ENUM x definition in the target "
                "absent/same default/different default/no default x source explicit/default/no value x bystander explicit/default x "
                "same-named ECU already in the target, STRING values also the empty string / \"0\" as source default, target default or explicit value "
                "(own violation keys edge-value:*), and the target's frame carrying the NAME of the copied frame / also an equally named "
                "signal under another identifier) under 9 copy requests (frame by id, merge of one source, merge of two sources with the "
                "same frame and signal names under different ids and different defaults, signal, ECU, ECU with frames "
                "rx/tx/both, direct or not, glob '*', and the pattern requests '?', '[AB]', '[!B]', 's?' with violation keys glob-pattern:*); random stream (frame names from a pool of 3 independent of ids, signal names from a pool of 4): target and 1..4 sources drawn from small pools of ids, ECU names, "
                "definitions (equal names with different defaults, ENUM value lists, missing defaults), explicit values, histories of "
                "1..4 copies/merges; shared-names and malformed streams (names shared across categories, duplicate ids/signal names, "
                "ENUM vs STRING under one name, absent ids) are tied only. non-trivial = the history changed a non-empty target; "
                "distinct by (target, history)")
    ok = chk.build_and_audit()
    cm = core.import_impl()
    C = cm.canmatrix
    import canmatrix.copy as cp
    rng = chk.rng
    thorough = chk.tier == "thorough"

    Oracle.PER_KEY = {}
    minimal_independence_probe(chk, C, cp)
    shared_name_probe(chk, C, cp)

    cases = systematic_cases()
    n_random = 6000 if not thorough else 120000
    for i in range(n_random):
        r = rng.random()
        cases.append(random_case(rng, "random" if r < 0.8 else ("shared-names" if r < 0.9 else "malformed")))

    lines, expect, info, projects = [], [], [], []
    eff_lines, eff_expect, eff_info = [], [], []
    for case in cases:
        I = Intern()
        for a in ALLNAMES:
            I(a)
        tdesc = case["target"]
        tdb = build(C, tdesc)
        inp = dict(stream=case["stream"], cell=case["cell"], target=tdesc,
                   history=[dict(op=op, sources=srcs) for op, srcs in case["history"]])
        orc = Oracle(chk, C, inp)
        orc.in_envelope = case["stream"] in ("systematic", "random")
        orc.variant = case.get("variant", "plain")
        if orc.variant != "plain":
            chk.count("edge-value-variant-" + orc.variant)
        elif case["stream"] != "systematic" and any(d[2] == "" for m in [case["target"]] + [x for _, ss in case["history"] for x in ss]
                                                    for c in CATS for d in m["defs"][c]):
            chk.count("random-case-with-empty-string-default")
        groups = nf_matrix(I, tdb) + [[0]]
        nf0 = list(groups)
        results = []
        raised = False
        cut = None          # (results, normal form, no_ecu_refs) where the tie of this history ends
        for op, srcs in case["history"]:
            sdbs = [build(C, s) for s in srcs]
            if cut is None and not raised and op["op"] in ("ecu", "ecu_frames"):
                listed = {e.name for e in tdb.ecus}
                if any(own_glob(op["glob"], e.name) and e.name in listed for e in sdbs[0].ecus):
                    # the request names an ECU the target already lists: the statement only says that ECU keeps every attribute the
                    # target already defined - whether it learns attributes the target never defined is open.  Judged, not tied.
                    cut = (list(results), nf_matrix(I, tdb), False)
                    chk.count("tie-ends-before-request-for-listed-ecu")
            if cut is None:
                groups.append(op_header(I, op, srcs[0]))
                for s in sdbs:
                    groups += nf_matrix(I, s) + [[0]]
            if raised:
                continue
            chk.count("op-" + op["op"])
            orc.pattern_request = "glob" in op and glob_class(op["glob"]) not in ("exact", "star")
            if "glob" in op:
                chk.count("glob-" + glob_class(op["glob"]))
            raised, res = apply_op(chk, C, cp, orc, tdb, op, sdbs, I)
            if op["op"] == "frame" and not raised:
                results.append(int(bool(res)))
                chk.count("copy_frame-" + ("copied" if res else "refused"))
            if cut is None and not raised and op["op"] == "ecu_frames" and op["direct"]:
                # which other ECU entries direct_ecu_only prunes is open: tie this state without ECU entries / references, then stop
                cut = (list(results), nf_matrix(I, tdb), True)
                chk.count("tie-ends-after-direct_ecu_only")
        chk.count("stream-" + case["stream"])
        if case["cell"]:
            chk.count("cell-" + case["cell"].split("/")[2] + "/" + case["cell"].split("/")[3])
        project = False
        if not raised:
            nf1 = nf_matrix(I, tdb)
        if cut is not None:
            exp = [[8, 0] + cut[0]] + cut[1]
            project = cut[2]
            if raised:
                chk.count("history-raised")
        elif raised:
            chk.count("history-raised")
            exp = None
        else:
            exp = [[8, 0] + results] + nf1
        changed = (not raised) and (nf1 + [[0]] != nf0) and len(nf0) > 1
        chk.case(json.dumps(inp, sort_keys=True), changed)
        if case["cell"] and case["cell"].startswith("sig/STRING/tgt-different/src-default/byst-default") and case["history"][0][0]["op"] == "frame":
            chk.sample(dict(cell=case["cell"], request=case["history"][0][0],
                            bystander_value_after=own_eff(tdb.frames[0].signals[0].attributes, "sS", tdb.signal_defines),
                            copied_value_after=own_eff(next(f for f in tdb.frames if f.arbitration_id.id == 0x10).signals[0].attributes, "sS",
                                                       tdb.signal_defines)), limit=3)
        lines.append(core.fmt_case(1201, groups))
        projects.append(project)
        expect.append(exp)
        info.append(inp)
        # effective values of the final target through the implementation's own .attribute()
        if not raised and (case["stream"] == "systematic" or rng.random() < 0.25):
            names = [I(a) for a in ALLNAMES]
            eg = []
            for kind, obj, attrs, defines in all_objects(tdb):
                tag = {"ecu": 1, "frame": 2, "glob": 6}.get(kind)
                if kind == "sig":
                    tag = 4 if any(obj is s for s in tdb.signals) else 3
                vals = []
                for a in ALLNAMES:
                    v = obj.attribute(a) if kind == "glob" else obj.attribute(a, db=tdb)
                    if v != own_eff(attrs, a, defines):
                        chk.violation("attribute-lookup", "X.attribute(name, db) is not explicit value, else default, else None",
                                      dict(object=getattr(obj, "name", "<matrix>"), attribute=a), own_eff(attrs, a, defines), v)
                    vals.append(I(v))
                eg.append([tag] + vals)
            eff_lines.append(core.fmt_case(1202, [names] + nf1 + [[0]]))
            eff_expect.append(eg)
            eff_info.append(inp)

    if not ok:
        chk.ties["correspondence"] = "not run (build failed)"
        return
    out = core.run_model(lines + eff_lines)
    bad = 0
    err_agree = 0
    for inf, exp, o, prj in zip(info, expect, out[:len(lines)], projects):
        got = core.parse_out(o)
        if exp is None:
            # the implementation raised: the model must have its error flag set (states are not compared)
            if got[0][:2] != [8, 1]:
                bad += 1
                chk.tie_break("copy-history", inf, "model: no error", "impl: raised")
            else:
                err_agree += 1
        elif got[0] != exp[0] or canon(got[1:], prj) != canon(exp[1:], prj):
            bad += 1
            cg, ce = canon(got[1:], prj), canon(exp[1:], prj)
            chk.tie_break("copy-history", inf, [got[0]] + [g for g in cg if g not in ce][:6], [exp[0]] + [g for g in ce if g not in cg][:6])
    bad2 = 0
    for inf, exp, o in zip(eff_info, eff_expect, out[len(lines):]):
        if core.parse_out(o) != exp:
            bad2 += 1
            chk.tie_break("effective-values", inf, core.parse_out(o), exp)
    chk.ties["correspondence"] = {"suite": "copy-history (cmd 1201: normal form of the target after the history, copy_frame results, error flag)",
                                  "cases": len(lines), "disagreements": bad, "histories_that_raised_on_both_sides": err_agree}
    chk.ties["effective_values"] = {"suite": "X.attribute(name, db) vs eff (cmd 1202)", "cases": len(eff_lines), "disagreements": bad2}
    idx = [i for i in range(len(lines)) if expect[i] is not None]
    idx = rng.sample(idx, min(300, len(idx)))
    shard = []
    for i in idx:
        # model (extracted driver) vs implementation is decided above, modulo the open orders; the shard re-evaluates the same
        # cases inside Coq and must reproduce the driver's answer exactly
        c, groups = lines[i].split(" ", 1)
        shard.append((int(c, 16), core.parse_out(groups), core.parse_out(out[i])))
    mm, log = core.coq_shard(shard, "c12")
    chk.ties["vm_compute_shard"] = {"cases": len(shard), "mismatches": mm}
    if mm is None:
        chk.obligation_failures.append("in-Coq shard failed to evaluate")
        chk.build_log = log[-3000:]
    else:
        for i in mm:
            chk.tie_break("copy-history-shard", shard[i][1], "vm_compute differs", shard[i][2])
