"""C02: encoding is the exact inverse of decoding and writes only its own bits.
Tie: Frame.encode (signals_to_bytes) vs model/Codec.v (cmd 201) on generated non-overlapping layouts, all subsets for
small layouts, boundary raw values; plus overlapping layouts (little-over-big precedence) for the tie only.
Search oracle: decode(encode(d)) == d on supplied signals, foreign bits zero, encode(decode(p)) == p on covered bits."""
import struct
import itertools
import core
import layouts

LEVEL_NOTE = ("theorems are about model/Codec.v (signals_to_bytes, pack_bitstring, decode_signal); label (string) inputs are C04; "
              "struct's float conversion is trusted; overlapping layouts are modelled and tied but carry no theorem")


def raw_range(size, signed):
    return (-(1 << (size - 1)), (1 << (size - 1)) - 1) if signed else (0, (1 << size) - 1)


def run(chk):
    chk.rule = ("random non-overlapping layouts (Intel/Motorola mixed, widths 1..64, incl. fields touching bit 0 / last bit) on frames of 1..64 "
                "bytes; all subsets of signals for layouts <= 5 signals else random subsets; raw values = both range ends, -1, 0, 1, random; "
                "floats by bit pattern; decode-then-encode on random payloads. non-trivial = >= 2 signals supplied or a negative value or a "
                "byte-crossing field; distinct by (layout, subset, values)")
    ok = chk.build_and_audit()
    cm = core.import_impl()
    C = cm.canmatrix
    rng = chk.rng
    thorough = chk.tier == "thorough"
    lines, expect, info = [], [], []
    lengths = [1, 2, 3, 4, 5, 6, 7, 8, 12, 16, 20, 24, 32, 48, 64] if not thorough else list(range(1, 65))
    per_len = 50 if not thorough else 300

    def sig_group(i, s):
        return [i, s.start_bit, s.size, int(s.is_little_endian), int(s.is_signed), int(s.is_float)]

    for L in lengths:
        for _ in range(per_len):
            lay = layouts.gen_layout(rng, L, max_signals=rng.choice([1, 2, 3, 4, 5, 8]), le_prob=rng.choice([0.0, 0.5, 0.5, 1.0]))
            fr = C.Frame("f", size=L)
            sigs = []
            for i, d in enumerate(lay):
                isf = d["size"] in (32, 64) and rng.random() < 0.3
                s = C.Signal("s%d" % i, start_bit=d["start"], size=d["size"], is_little_endian=d["le"],
                             is_signed=(rng.random() < 0.5), is_float=isf)
                fr.add_signal(s)
                sigs.append(s)
            n = len(sigs)
            if n <= 5:
                subsets = [c for k in range(0, n + 1) for c in itertools.combinations(range(n), k)]
                if not thorough and len(subsets) > 12:
                    subsets = rng.sample(subsets, 12) + [tuple(range(n))]
            else:
                subsets = [tuple(sorted(rng.sample(range(n), rng.randrange(1, n + 1)))) for _ in range(6)] + [tuple(range(n))]
            for sub in subsets:
                for rep in range(2):
                    data = {}
                    triples = []
                    for i in sub:
                        s = sigs[i]
                        if s.is_float:
                            pat = rng.choice([0, 1 << (s.size - 1), rng.getrandbits(s.size), rng.getrandbits(s.size)])
                            if s.size == 32 and (pat & 0x7F800000) == 0x7F800000 and (pat & 0x7FFFFF):
                                pat &= ~0x7F800000 & 0xFFFFFFFF   # avoid float32 NaN payloads (double conversion may quieten them)
                            if s.size == 64 and (pat & 0x7FF0000000000000) == 0x7FF0000000000000 and (pat & 0xFFFFFFFFFFFFF):
                                pat &= ~(1 << 62)
                            v = struct.unpack(">f" if s.size == 32 else ">d", pat.to_bytes(s.size // 8, "big"))[0]
                            data[s.name] = v
                            triples += [i, 2, pat]
                        else:
                            lo, hi = raw_range(s.size, s.is_signed)
                            v = rng.choice([lo, hi, 0, 1 if hi >= 1 else 0, -1 if lo <= -1 else 0, rng.randrange(lo, hi + 1), rng.randrange(lo, hi + 1)])
                            data[s.name] = v
                            triples += [i, 1, v]
                    try:
                        enc = bytes(fr.encode(dict(data)))
                        st = "ok"
                    except Exception as e:
                        enc, st = None, "raise:" + type(e).__name__
                    negative = any(isinstance(v, int) and v < 0 for v in data.values())
                    crossing = any(len({p // 8 for p in layouts.positions(sigs[i].is_little_endian, sigs[i].start_bit, sigs[i].size)}) > 1 for i in sub)
                    chk.case((L, tuple((d["le"], d["start"], d["size"]) for d in lay), tuple(triples)), len(sub) >= 2 or negative or crossing)
                    chk.count("signals=%d" % min(n, 6))
                    chk.count("supplied=%d" % min(len(sub), 6))
                    inp = dict(length=L, signals=[(s.name, s.start_bit, s.size, s.is_little_endian, s.is_signed, s.is_float) for s in sigs],
                               data={k: (v if isinstance(v, int) else v.hex()) for k, v in data.items()})
                    if st != "ok":
                        chk.violation("encode-raises", "encoding representable values raised", inp, None, st)
                    else:
                        if len(enc) != L:
                            chk.violation("encode-length", "encoded payload does not have the frame's length", inp, L, len(enc))
                        dec = fr.decode(enc)
                        for i in sub:
                            s = sigs[i]
                            got = dec[s.name].raw_value
                            want = data[s.name]
                            if s.is_float:
                                same = struct.pack(">d", got) == struct.pack(">d", want) or (got != got and want != want)
                            else:
                                same = got == want
                            if not same:
                                chk.violation("decode-encode", "supplied signal does not decode back to the supplied value", inp, want, got)
                        covered = set()
                        for i in sub:
                            covered |= set(layouts.positions(sigs[i].is_little_endian, sigs[i].start_bit, sigs[i].size))
                        for nbit in range(8 * L):
                            if nbit not in covered and (enc[nbit // 8] >> (nbit % 8)) & 1:
                                chk.violation("foreign-bit-set", "a bit that belongs to no supplied signal is set", inp, 0, dict(bit=nbit, payload=enc.hex()))
                                break
                    lines.append(core.fmt_case(201, [[L], triples] + [sig_group(i, s) for i, s in enumerate(sigs)]))
                    expect.append([[1], list(enc)] if st == "ok" else [[0]])
                    info.append(inp)
            # decode-then-encode on random payloads
            allpos = set()
            for s in sigs:
                allpos |= set(layouts.positions(s.is_little_endian, s.start_bit, s.size))
            for _ in range(3):
                p = bytes(rng.randrange(256) for _ in range(L))
                dec = fr.decode(p)
                vals = {k: v.raw_value for k, v in dec.items()}
                if any(isinstance(v, float) and v != v for v in vals.values()):
                    continue   # NaN payloads are not bit-preserved by struct for float32
                enc = bytes(fr.encode(vals))
                chk.case((L, "reenc", p, tuple((d["le"], d["start"], d["size"]) for d in lay)), True)
                chk.count("re-encode")
                for nbit in allpos:
                    if ((enc[nbit // 8] >> (nbit % 8)) & 1) != ((p[nbit // 8] >> (nbit % 8)) & 1):
                        chk.violation("reencode-differs", "re-encoding decoded values does not reproduce the payload on covered bits",
                                      dict(length=L, signals=[(s.name, s.start_bit, s.size, s.is_little_endian, s.is_signed, s.is_float) for s in sigs], payload=p.hex()),
                                      p.hex(), enc.hex())
                        break
    # one Frame object encoded repeatedly while its layout is edited in place (frame length and signal count unchanged):
    # encoding must follow the CURRENT definition, exactly as a fresh frame with that definition does
    for _ in range(250 if not thorough else 4000):
        L = rng.choice([1, 2, 3, 8, 8, 12, 64])
        k = rng.choice([1, 2, 3, 4])
        lays = []
        for _try in range(40):
            lay = layouts.gen_layout(rng, L, max_signals=k, le_prob=rng.choice([0.0, 0.5, 1.0]))
            if len(lay) >= k:
                lays.append(lay[:k])
            if len(lays) == 4:
                break
        if len(lays) < 2:
            continue
        fr = C.Frame("f", size=L)
        db = C.CanMatrix()
        signed = [rng.random() < 0.5 for _ in range(k)]
        for i, d in enumerate(lays[0]):
            fr.add_signal(C.Signal("s%d" % i, start_bit=d["start"], size=d["size"], is_little_endian=d["le"], is_signed=signed[i]))
        fr.arbitration_id = C.ArbitrationId(0x123, False)
        db.add_frame(fr)
        hist = []
        for step, lay in enumerate(lays):
            if step:
                how = rng.choice(["attr", "attr", "setstart", "replace"])
                for i, d in enumerate(lay):
                    s = fr.signals[i]
                    if how == "replace" and i == 0:
                        fr.signals[0] = C.Signal("s0", start_bit=d["start"], size=d["size"], is_little_endian=d["le"], is_signed=signed[0])
                        continue
                    s.size = d["size"]
                    s.is_little_endian = d["le"]
                    if how == "setstart":
                        s.set_startbit(d["start"])
                    else:
                        s.start_bit = d["start"]
            hist.append([(d["start"], d["size"], d["le"]) for d in lay])
            fresh = C.Frame("f", size=L)
            for i, d in enumerate(lay):
                fresh.add_signal(C.Signal("s%d" % i, start_bit=d["start"], size=d["size"], is_little_endian=d["le"], is_signed=signed[i]))
            sub = sorted(rng.sample(range(k), rng.randrange(1, k + 1)))
            data = {}
            for i in sub:
                lo, hi = raw_range(lay[i]["size"], signed[i])
                data["s%d" % i] = rng.choice([lo, hi, rng.randrange(lo, hi + 1), rng.randrange(lo, hi + 1)])
            route = rng.choice(["Frame.encode", "CanMatrix.encode", "signals_to_bytes"])
            try:
                if route == "Frame.encode":
                    enc = bytes(fr.encode(dict(data)))
                elif route == "CanMatrix.encode":
                    enc = bytes(db.encode(fr.arbitration_id, dict(data)))
                else:
                    full = {s.name: data.get(s.name, 0) for s in fr.signals}
                    enc = bytes(fr.signals_to_bytes(full))
                    data = full
                    sub = list(range(k))
            except Exception as e:
                enc = "raise:" + type(e).__name__
            try:
                want = bytes(fresh.encode(dict(data)))
            except Exception as e:
                want = "raise:" + type(e).__name__
            chk.case(("edit-history", L, step, tuple(map(tuple, hist)), tuple(sorted(data.items()))), step > 0)
            chk.count("encode-after-in-place-edit" if step else "encode-before-edit")
            bad = enc != want
            if not bad and isinstance(enc, bytes):
                dec = fresh.decode(enc)
                covered = set()
                for i in sub:
                    covered |= set(layouts.positions(lay[i]["le"], lay[i]["start"], lay[i]["size"]))
                    bad = bad or dec["s%d" % i].raw_value != data["s%d" % i]
                bad = bad or any((enc[n // 8] >> (n % 8)) & 1 for n in range(8 * L) if n not in covered)
            if bad:
                chk.violation("encode-after-edit", "encoding does not follow the frame definition after signals were edited in place "
                              "(a fresh frame with the same definition encodes differently, or the values do not decode back)",
                              dict(length=L, route=route, step=step, layouts=hist, signed=signed, data=data),
                              want.hex() if isinstance(want, bytes) else want, enc.hex() if isinstance(enc, bytes) else enc)
                break
    # (overlapping layouts are outside the quantifier - "a frame whose signals do not overlap" - and are neither judged nor tied)
    chk.sample(dict(length=3, signals=[("m", 5, 11, False, True), ("i", 17, 7, True, False)], data={"m": -641, "i": 100}, payload="057fc8"))

    if not ok:
        chk.ties["correspondence"] = "not run (build failed)"
        return
    out = core.run_model(lines)
    bad = 0
    for inf, exp, o in zip(info, expect, out):
        if core.parse_out(o) != exp:
            bad += 1
            chk.tie_break("codec-encode", inf, core.parse_out(o), exp)
    chk.ties["correspondence"] = {"suite": "codec-encode (cmd 201)", "cases": len(lines), "disagreements": bad}
    idx = rng.sample(range(len(lines)), min(300, len(lines)))
    shard = []
    for i in idx:
        c, groups = lines[i].split(" ", 1)
        shard.append((int(c, 16), core.parse_out(groups), expect[i]))
    mm, log = core.coq_shard(shard, "c02")
    chk.ties["vm_compute_shard"] = {"cases": len(shard), "mismatches": mm}
    if mm is None:
        chk.obligation_failures.append("in-Coq shard failed to evaluate")
        chk.build_log = log[-3000:]
    else:
        for i in mm:
            chk.tie_break("codec-encode-shard", shard[i][1], "vm_compute differs", shard[i][2])
