import argparse
import importlib
import json
import os
import sys
import traceback

sys.path.insert(0, os.path.dirname(os.path.abspath(__file__)))
import core


def main():
    ap = argparse.ArgumentParser()
    ap.add_argument("pid")
    ap.add_argument("--tier", default=os.environ.get("VERIF_TIER", "quick"), choices=["quick", "thorough"])
    ap.add_argument("--replay", default=None)
    args = ap.parse_args()
    pid = args.pid.upper()
    mod = importlib.import_module("p_" + pid.lower())
    chk = core.Check(pid, args.tier)
    if args.replay:
        rep = json.load(open(args.replay))
        rc = mod.replay(chk, rep)
        sys.exit(rc)
    try:
        mod.run(chk)
    except Exception:
        # a crash of the machinery is not a verdict about the code: report it as an unproved run
        tb = traceback.format_exc()
        print(tb, file=sys.stderr)
        chk.obligation_failures.append("check crashed: " + tb.splitlines()[-1])
        chk.build_log = tb
    sys.exit(chk.finish(getattr(mod, "LEVEL_NOTE", "")))


main()
