import argparse
import importlib
import json
import os
import sys
import traceback

sys.path.insert(0, os.path.dirname(os.path.abspath(__file__)))
import core


def main():
    ap = argparse.ArgumentParser()
    ap.add_argument("pid")
    ap.add_argument("--tier", default=os.environ.get("VERIF_TIER", "quick"), choices=["quick", "thorough"])
    ap.add_argument("--replay", default=None)
    args = ap.parse_args()
    pid = args.pid.upper()
    mod = importlib.import_module("p_" + pid.lower())
    chk = core.Check(pid, args.tier)
    if args.replay:
        # replay = re-run the check on the current tree and report whether the recorded failure class recurs
        rep = json.load(open(args.replay))
        print("replaying %s: %s" % (args.replay, rep.get("what") or rep.get("no_longer_checks")))
        print("recorded input:", json.dumps(rep.get("input"), default=str))
        mod.run(chk)
        keys = {v["key"] for v in chk.violations}
        again = rep.get("key") in keys if rep.get("key") else bool(chk.obligation_failures or chk.tie_breaks)
        print("REPRODUCED" if again else "not reproduced on the current tree")
        sys.exit(1 if again else 0)
    try:
        mod.run(chk)
    except Exception:
        # a crash of the machinery is not a verdict about the code: report it as an unproved run
        tb = traceback.format_exc()
        print(tb, file=sys.stderr)
        chk.obligation_failures.append("check crashed: " + tb.splitlines()[-1])
        chk.build_log = tb
    sys.exit(chk.finish(getattr(mod, "LEVEL_NOTE", "")))


main()
