"""C15: independent BUSMASTER DBF 1.3 writer, following the section skeleton of tests/files/dbf/test.dbf (written by BUSMASTER's
own DBC converter: it carries [START_NOT_SUPPORTED]/[START_NOT_PROCESSED], which canmatrix never emits).  Never calls canmatrix.

Conventions read off the sample (it describes the same network as tests/files/dbc/test.dbc):
  [START_MSG] name,id,length,number of signals,data format (1),frame format S|X,tx node
  [START_SIGNALS] name,length,byte (1-based),bit in byte,type U|I|F|D,max,min,byte order 1=Intel 0=Motorola,offset,factor,unit,mux,rx nodes
     byte/bit locate the least significant bit for both byte orders (someTestSignal: DBC 3|11@0 <-> byte 2 bit 1)
     max/min are the physical limit divided by the factor (DBC [0|500] factor 5 <-> 100,0)
  attribute definition  "name",INT|HEX,default,min,max   (DBC `INT 0 65535` without default <-> INT,0,0,65535)
  attribute values      node,"name",value  |  id,S,"name",value  |  id,S,signal,"name",value  |  "name",value   (numbers unquoted)
  descriptions          id S "text";   id S signal "text";   node "text";
Lexical choices (single separators only, as BUSMASTER emits them): eol; num.scale (offset, factor); num.limit (max, min);
  empty (keep|omit empty sections); blank (blank lines between sections 0..1); order.<SEC> for DESC_NODE DESC_MSG DESC_SIG PARAM
  PARAM_VAL VALUE (value descriptions of one signal); quote (attribute values quoted as canmatrix writes them); tx_omit (no trailing
  empty field when a message has no tx node)
"""
import random

from netdesc import render_number, motorola_lsb

CANON = {"eol": "\n", "num.scale": "plain", "num.limit": "plain", "empty": "keep", "blank": 1, "quote": False, "tx_omit": False}
ORDERS = ["DESC_NODE", "DESC_MSG", "DESC_SIG", "PARAM", "PARAM_VAL", "VALUE", "MSG", "SIGNALS"]
for _k in ORDERS:
    CANON["order." + _k] = "asis"
ENCODINGS = ["iso-8859-1", "utf-8"]


def random_lex(rng):
    lex = {}
    def maybe(k, choices, p=0.35):
        if rng.random() < p:
            lex[k] = rng.choice(choices)
    maybe("eol", ["\r\n"])
    maybe("num.scale", ["expE", "expe", "plus", "tz", "nz"], 0.5)
    maybe("num.limit", ["expE", "expe", "plus", "tz", "nz"], 0.5)
    maybe("empty", ["omit"])
    maybe("blank", [0])
    maybe("quote", [True])
    maybe("tx_omit", [True])
    for k in ORDERS:
        maybe("order." + k, ["rev", "shuf"], 0.3)
    lex["order_seed"] = rng.randrange(1 << 30)
    return lex


def render(desc, lex=None, encoding="iso-8859-1"):
    lx = dict(CANON)
    lx.update(lex or {})
    orng = random.Random(lx.get("order_seed", 0))

    def order(sec, items):
        items = list(items)
        mode = lx["order." + sec]
        if mode == "rev":
            items.reverse()
        elif mode == "shuf":
            orng.shuffle(items)
        return items
    out = []

    def block(ls, gap=True):
        out.extend(ls)
        if gap:
            out.extend([""] * lx["blank"])

    def sect(name, body, end=None, always=False):
        if body or lx["empty"] == "keep" or always:
            return ["[START_%s]" % name] + body + ["[END_%s]" % (end or name)]
        return []

    block(["//******************************BUSMASTER Messages and signals Database ******************************//"])
    block(["[DATABASE_VERSION] 1.3"])
    block(["[PROTOCOL] CAN"])
    block(["[BUSMASTER_VERSION] [3.2.2]", "[NUMBER_OF_MESSAGES] %d" % len(desc["frames"])], gap=False)
    for fr in order("MSG", desc["frames"]):
        head = "[START_MSG] %s,%d,%d,%d,1,%s" % (fr["name"], fr["id"], fr["length"], len(fr["signals"]), "X" if fr["extended"] else "S")
        if fr["senders"]:
            head += "," + fr["senders"][0]
        elif not lx["tx_omit"]:
            head += ","
        ls = [head]
        for sg in order("SIGNALS", fr["signals"]):
            lsb = sg["start"] if sg["byte_order"] == "intel" else motorola_lsb(sg)
            typ = {"unsigned": "U", "signed": "I", "float": "F" if sg["width"] <= 32 else "D"}[sg["type"]]
            mux = ""
            if sg["mux"]:
                mux = "M" if sg["mux"]["role"] == "multiplexer" else "m%d" % sg["mux"]["selector"]
            mx, mn = sg["max"] / sg["factor"], sg["min"] / sg["factor"]       # exact by construction of the DBF envelope
            assert mx * sg["factor"] == sg["max"] and mn * sg["factor"] == sg["min"]
            ls.append("[START_SIGNALS] %s,%d,%d,%d,%s,%s,%s,%d,%s,%s,%s,%s,%s" % (
                sg["name"], sg["width"], lsb // 8 + 1, lsb % 8, typ, render_number(mx, lx["num.limit"]), render_number(mn, lx["num.limit"]),
                1 if sg["byte_order"] == "intel" else 0, render_number(sg["offset"], lx["num.scale"]),
                render_number(sg["factor"], lx["num.scale"]), sg["unit"], mux, ",".join(sg["receivers"])))
            for k, lab in order("VALUE", sorted(sg["values"].items())):
                ls.append('[VALUE_DESCRIPTION] "%s",%d' % (lab, k))
        ls.append("[END_MSG]")
        block(ls)
    block(sect("VALUE_TABLE", []))
    block(["[NODE] " + ",".join(e["name"] for e in desc["ecus"])])

    d_node = ['%s "%s";' % (e["name"], e["comment"]) for e in desc["ecus"] if e.get("comment")]
    d_msg = ['%d %s "%s";' % (fr["id"], "X" if fr["extended"] else "S", fr["comment"]) for fr in desc["frames"] if fr.get("comment") is not None]
    d_sig = ['%d %s %s "%s";' % (fr["id"], "X" if fr["extended"] else "S", sg["name"], sg["comment"])
             for fr in desc["frames"] for sg in fr["signals"] if sg.get("comment") is not None]
    body = sect("DESC_NET", []) + ([""] if lx["blank"] else []) + sect("DESC_NODE", order("DESC_NODE", d_node)) + ([""] if lx["blank"] else []) \
        + sect("DESC_MSG", order("DESC_MSG", d_msg)) + ([""] if lx["blank"] else []) + sect("DESC_SIG", order("DESC_SIG", d_sig))
    block(["[START_DESC]"] + body + ["[END_DESC]"])

    def pdef(obj):
        ls = []
        for d in desc["attr_defs"]:
            if d["object"] != obj:
                continue
            assert d["type"] in ("INT", "HEX")
            dv = d["default"] if d.get("default") is not None else 0
            ls.append('"%s",%s,%d,%d,%d' % (d["name"], d["type"], dv, d["min"], d["max"]))
        return order("PARAM", ls)
    body = sect("PARAM_NET", pdef("net")) + sect("PARAM_NODE", pdef("ecu")) + sect("PARAM_MSG", pdef("frame")) + sect("PARAM_SIG", pdef("signal")) \
        + sect("PARAM_NODE_RX_SIG", []) + sect("PARAM_NODE_TX_MSG", [])
    block(["[START_PARAM]"] + body + ["[END_PARAM]"])

    q = '"' if lx["quote"] else ""
    v_net = ['"%s",%s%s%s' % (k, q, v, q) for k, v in desc["net_attributes"].items()]
    v_node = ['%s,"%s",%s%s%s' % (e["name"], k, q, v, q) for e in desc["ecus"] for k, v in e.get("attributes", {}).items()]
    v_msg = ['%d,%s,"%s",%s%s%s' % (fr["id"], "X" if fr["extended"] else "S", k, q, v, q) for fr in desc["frames"] for k, v in fr["attributes"].items()]
    v_sig = ['%d,%s,%s,"%s",%s%s%s' % (fr["id"], "X" if fr["extended"] else "S", sg["name"], k, q, v, q)
             for fr in desc["frames"] for sg in fr["signals"] for k, v in sg["attributes"].items()]
    body = sect("PARAM_NET_VAL", order("PARAM_VAL", v_net)) + sect("PARAM_NODE_VAL", order("PARAM_VAL", v_node)) \
        + sect("PARAM_MSG_VAL", order("PARAM_VAL", v_msg)) + sect("PARAM_SIG_VAL", order("PARAM_VAL", v_sig))
    block(["[START_PARAM_VAL]"] + body + ["[END_PARAM_VAL]"])
    block(sect("NOT_SUPPORTED", []))
    block(sect("NOT_PROCESSED", []))
    return "".join(l + lx["eol"] for l in out).encode(encoding)


def render_with_opts(desc, lex, encoding):
    opts = {} if encoding == "iso-8859-1" else {"dbfImportEncoding": encoding}
    return render(desc, lex, encoding), opts
