"""C15 helpers: load a rendered file with the reader under test (capturing stdout, error logs, load_errors), what each format is
expected to carry of a description (`expected`), the same view of a loaded matrix (`observed`), their comparison, and the
canonical form used by the metamorphic comparison of two renderings."""
import contextlib
import copy
import decimal
import io
import logging

import layouts
import matgen
import netdesc
from netdesc import D


def dstr(x):
    if x is None:
        return None
    try:
        x = D(str(x)) if not isinstance(x, D) else x
    except decimal.InvalidOperation:
        return "<not a number: %r>" % (x,)
    if x.is_nan():
        return "NaN"
    if x.is_infinite():
        return str(x)
    if x == 0:
        return "0"
    return format(x.normalize(), "f")


class _Grab(logging.Handler):
    def __init__(self):
        logging.Handler.__init__(self, level=logging.ERROR)
        self.records = []

    def emit(self, record):
        try:
            self.records.append("%s: %s" % (record.name, record.getMessage()))
        except Exception:
            self.records.append("%s: <unformattable log record>" % record.name)


def load(cm, fmt, data, opts):
    """returns (db | None, problems) ; problems = reader noise a well-formed file must not produce"""
    dbs, problems = load_all(cm, fmt, data, opts)
    if dbs is None:
        return None, problems
    if len(dbs) != 1:
        problems.append("reader returned %d matrices for one bus" % len(dbs))
    return list(dbs.values())[0], problems


def load_all(cm, fmt, data, opts):
    """returns ({bus name: db} | None, problems)"""
    problems = []
    h = _Grab()
    root = logging.getLogger("canmatrix")
    old_disable = logging.root.manager.disable
    logging.disable(logging.NOTSET)
    old_level = root.level
    root.addHandler(h)
    out = io.StringIO()
    db = None
    try:
        with contextlib.redirect_stdout(out):
            dbs = cm.formats.loads(data, fmt, **opts)
        if dbs is None or len(dbs) == 0:
            problems.append("reader returned no matrix")
        else:
            db = dict(dbs)
    except Exception as e:     # noqa: a reader that raises on a well-formed file has failed
        problems.append("exception %s: %s" % (type(e).__name__, str(e)[:200]))
    finally:
        root.removeHandler(h)
        root.setLevel(old_level)
        logging.disable(old_disable)
    txt = out.getvalue().strip()
    if txt:
        problems.append("stdout: " + txt[:300])
    problems += ["log " + r[:300] for r in h.records[:5]]
    for one in (db or {}).values():
        if getattr(one, "load_errors", None):
            problems += ["load_errors: " + repr(e)[:200] for e in one.load_errors[:5]]
    return db, problems


# ------------------------------------------------------------------------------------------------------------
NUMERIC_ATTR = ("INT", "HEX", "FLOAT")


def attr_expected(defs, name, v):
    d = defs.get(name)
    if d is None:
        return str(v)
    if d["type"] in NUMERIC_ATTR:
        return ("num", dstr(v))
    return ("str", str(v))


def attr_observed(defs, name, v):
    d = defs.get(name)
    if d is not None and d["type"] in NUMERIC_ATTR:
        return ("num", dstr(v))
    return ("str", str(v))


def expected(desc, fmt):
    env = netdesc.ENV[fmt]
    defs = {d["name"]: d for d in desc["attr_defs"]}
    out = {}
    if env["ecus"]:
        out["ecus"] = {}
        for e in desc["ecus"]:
            ee = {}
            if env["ecu_comments"]:
                ee["comment"] = e.get("comment") or None
            if "ecu" in env["attributes"]:
                ee["attributes"] = {k: attr_expected(defs, k, v) for k, v in e.get("attributes", {}).items()}
            out["ecus"][e["name"]] = ee
    if env["attributes"]:
        out["attr_defs"] = {}
        for d in desc["attr_defs"]:
            dd = dict(object=d["object"], type=d["type"])
            if d["type"] in NUMERIC_ATTR:
                dd["min"], dd["max"] = dstr(d["min"]), dstr(d["max"])
            if d["type"] == "ENUM":
                dd["values"] = list(d["values"])
            dd["default"] = attr_expected(defs, d["name"], d["default"]) if d.get("default") is not None else None
            out["attr_defs"][d["name"]] = dd
        if "net" in env["attributes"]:
            out["net_attributes"] = {k: attr_expected(defs, k, v) for k, v in desc["net_attributes"].items()}
    if env.get("value_tables"):
        out["value_tables"] = {n: dict(t) for n, t in desc.get("value_tables", {}).items()}
    out["frames"] = {}
    for fr in desc["frames"]:
        f = dict(name=fr["name"], length=fr["length"])
        if env["senders"] != "none":
            f["senders"] = sorted(fr["senders"])
        if env["frame_comments"]:
            f["comment"] = fr.get("comment") or None
        if "frame" in env["attributes"]:
            f["attributes"] = {k: attr_expected(defs, k, v) for k, v in fr["attributes"].items()}
        if fmt == "dbc":
            f["groups"] = sorted((g["name"], str(g["repetitions"]), sorted(g["signals"])) for g in fr.get("groups", []))
        f["signals"] = {}
        for sg in fr["signals"]:
            name = sg["name"]
            if sg["mux"] and sg["mux"]["role"] == "multiplexer" and not env["mux_named"]:
                name = fr["name"] + "_MUX" if fmt == "sym" else "Multiplexor"
            s = dict(bits=netdesc.desc_bits(sg), byte_order=sg["byte_order"], type=sg["type"], factor=dstr(sg["factor"]),
                     offset=dstr(sg["offset"]), unit=sg["unit"])
            if env["limits"]:
                s["min"], s["max"] = dstr(sg["min"]), dstr(sg["max"])
            if env["receivers"]:
                s["receivers"] = sorted(sg["receivers"])
            m = sg["mux"]
            if m is None:
                s["mux"] = None
            elif m["role"] == "multiplexer":
                s["mux"] = dict(role="multiplexer")
            else:
                s["mux"] = dict(role="muxed", selector=m["selector"])
                if fmt == "dbc":
                    s["mux"]["ranges"] = [list(r) for r in m["ranges"]] if m.get("ranges") else None
                    if m.get("ranges"):
                        s["mux"]["muxer"] = m["muxer"]
            if not (fmt == "sym" and m and m["role"] == "multiplexer"):
                s["values"] = dict(sg["values"])
            if env["signal_comments"]:
                s["comment"] = sg.get("comment") or None
            if "signal" in env["attributes"]:
                s["attributes"] = {k: attr_expected(defs, k, v) for k, v in sg["attributes"].items()}
            if env.get("start_values") and not (m and m["role"] == "multiplexer"):
                s["start_value"] = dstr(sg.get("start_value", 0))
            if env.get("sym_switches") and not (m and m["role"] == "multiplexer"):
                x = sg.get("sym") or {}
                s["sym"] = dict(long_name=x.get("long_name"), decimals=None if "decimals" not in x else str(x["decimals"]),
                                start_value=dstr(x.get("start_value", 0)))
            f["signals"][name] = s
        probes = decode_probes(fr)
        if probes:
            names = {}
            for sg in fr["signals"]:
                n = sg["name"]
                if sg["mux"] and sg["mux"]["role"] == "multiplexer" and not env["mux_named"]:
                    n = fr["name"] + "_MUX" if fmt == "sym" else "Multiplexor"
                names[id(sg)] = n
            f["decode"] = {}
            for v in probes:
                act = []
                for sg in fr["signals"]:
                    m = sg["mux"]
                    if m is None or m["role"] == "multiplexer":
                        act.append(names[id(sg)])
                    elif (fmt == "dbc" and m.get("ranges") and any(lo <= v <= hi for lo, hi in m["ranges"])) or \
                            (not (fmt == "dbc" and m.get("ranges")) and m["selector"] == v):
                        act.append(names[id(sg)])
                f["decode"][v] = sorted(act)
        out["frames"]["%d_%d" % (fr["id"], int(fr["extended"]))] = f
    return out


def decode_probes(fr):
    """selector values with which a multiplexed frame is decoded: every described selector, range ends, one value nobody uses"""
    muxer = [s for s in fr["signals"] if s["mux"] and s["mux"]["role"] == "multiplexer"]
    if not muxer:
        return []
    vals = set()
    for s in fr["signals"]:
        m = s["mux"]
        if m and m["role"] == "muxed":
            vals.add(m["selector"])
            for lo, hi in (m.get("ranges") or []):
                vals |= {lo, hi}
    top = (1 << muxer[0]["width"]) - 1
    unused = [v for v in range(top + 1) if v not in vals]
    if unused:
        vals.add(unused[0])
    return sorted(v for v in vals if 0 <= v <= top)


def payload_with_selector(fr, v):
    """payload of the frame's length, all zero except the multiplexer's bits holding v (independent of canmatrix's codec)"""
    muxer = [s for s in fr["signals"] if s["mux"] and s["mux"]["role"] == "multiplexer"][0]
    bits = netdesc.desc_bits(muxer)
    if muxer["byte_order"] == "motorola":
        bits = bits[::-1]          # least significant first
    data = bytearray(fr["length"])
    for i, b in enumerate(bits):
        if (v >> i) & 1:
            data[b // 8] |= 1 << (b % 8)
    return bytes(data)


READER_OWN_ATTRS = {
    "dbc": {"frame": {"SystemMessageLongSymbol"}, "signal": {"SystemSignalLongSymbol"}, "ecu": {"SystemNodeLongSymbol"}, "net": set()},
    "sym": {"frame": {"Receivable", "Sendable"}, "signal": {"HexadecimalOutput", "DisplayDecimalPlaces", "LongName"}, "ecu": set(), "net": {"Title"}},
    "arxml": {"frame": {"PduName", "FrameTriggeringName", "GenMsgStartValue", "GenMsgSendType", "GenMsgDelayTime", "GenMsgNrOfRepetitions",
                        "GenMsgStartDelayTime"},
              "signal": {"LongName", "CompuMethodName", "ISignalName", "SysSignalName"}, "ecu": {"NWM-Stationsadresse", "NWM-Knoten"}, "net": set()},
}


def observed(db, desc, fmt):
    env = netdesc.ENV[fmt]
    defs = {d["name"]: d for d in desc["attr_defs"]}
    own = READER_OWN_ATTRS.get(fmt, {"frame": set(), "signal": set(), "ecu": set(), "net": set()})
    out = {}
    if env["ecus"]:
        out["ecus"] = {}
        for e in db.ecus:
            ee = {}
            if env["ecu_comments"]:
                ee["comment"] = e.comment or None
            if "ecu" in env["attributes"]:
                ee["attributes"] = {k: attr_observed(defs, k, v) for k, v in e.attributes.items() if k not in own["ecu"]}
            out["ecus"][e.name] = ee
    if env["attributes"]:
        out["attr_defs"] = {}
        for obj, dd in (("net", db.global_defines), ("ecu", db.ecu_defines), ("frame", db.frame_defines), ("signal", db.signal_defines)):
            for k, d in dd.items():
                if k in own[obj] and k not in defs:
                    continue
                o = dict(object=obj, type=d.type)
                if d.type in NUMERIC_ATTR:
                    o["min"], o["max"] = dstr(getattr(d, "min", None)), dstr(getattr(d, "max", None))
                if d.type == "ENUM":
                    o["values"] = list(d.values)
                if d.defaultValue is None:
                    o["default"] = None
                else:
                    o["default"] = attr_observed({k: dict(type=d.type)}, k, d.defaultValue)
                out["attr_defs"][k] = o
        if "net" in env["attributes"]:
            out["net_attributes"] = {k: attr_observed(defs, k, v) for k, v in db.attributes.items() if k not in own["net"]}
    if env.get("value_tables"):
        out["value_tables"] = {n: {int(k): v for k, v in t.items()} for n, t in db.value_tables.items()}
    out["frames"] = {}
    dframes = {"%d_%d" % (d["id"], int(d["extended"])): d for d in desc["frames"]}
    for fr in db.frames:
        f = dict(name=fr.name, length=fr.size)
        if env["senders"] != "none":
            f["senders"] = sorted(fr.transmitters)
        if env["frame_comments"]:
            f["comment"] = fr.comment or None
        if "frame" in env["attributes"]:
            f["attributes"] = {k: attr_observed(defs, k, v) for k, v in fr.attributes.items() if k not in own["frame"]}
        if fmt == "dbc":
            f["groups"] = sorted((g.name, str(g.id), sorted(x.name for x in g.signals)) for g in fr.signalGroups)
        f["signals"] = {}
        for sg in fr.signals:
            s = dict(bits=layouts.positions(bool(sg.is_little_endian), int(sg.start_bit), int(sg.size)),
                     byte_order="intel" if sg.is_little_endian else "motorola",
                     type="float" if sg.is_float else ("signed" if sg.is_signed else "unsigned"),
                     factor=dstr(sg.factor), offset=dstr(sg.offset), unit=sg.unit)
            if env["limits"]:
                s["min"], s["max"] = dstr(sg.min), dstr(sg.max)
            if env["receivers"]:
                s["receivers"] = sorted(sg.receivers)
            if sg.is_multiplexer:
                s["mux"] = dict(role="multiplexer")
            elif sg.mux_val is not None or sg.multiplex is not None or sg.mux_val_grp:
                s["mux"] = dict(role="muxed", selector=sg.mux_val)
                if fmt == "dbc":
                    s["mux"]["ranges"] = [list(map(int, r)) for r in sg.mux_val_grp] if sg.mux_val_grp else None
                    if sg.mux_val_grp:
                        s["mux"]["muxer"] = sg.muxer_for_signal
            else:
                s["mux"] = None
            if not (fmt == "sym" and sg.is_multiplexer):
                s["values"] = {int(k): v for k, v in sg.values.items()}
            if env["signal_comments"]:
                s["comment"] = sg.comment or None
            if "signal" in env["attributes"]:
                s["attributes"] = {k: attr_observed(defs, k, v) for k, v in sg.attributes.items() if k not in own["signal"]}
            if env.get("start_values") and not sg.is_multiplexer:
                s["start_value"] = dstr(sg.initial_value)
            if env.get("sym_switches") and not sg.is_multiplexer:
                s["sym"] = dict(long_name=sg.attributes.get("LongName"), decimals=sg.attributes.get("DisplayDecimalPlaces"),
                                start_value=dstr(sg.initial_value))
            if sg.name in f["signals"]:
                f.setdefault("duplicate_signal_names", []).append(sg.name)
            f["signals"][sg.name] = s
        key = "%d_%d" % (fr.arbitration_id.id, int(bool(fr.arbitration_id.extended)))
        dfr = dframes.get(key)
        probes = decode_probes(dfr) if dfr is not None else []
        if probes:
            f["decode"] = {}
            for v in probes:
                try:
                    f["decode"][v] = sorted(fr.decode(payload_with_selector(dfr, v)).keys())
                except Exception as e:      # noqa
                    f["decode"][v] = "exception %s: %s" % (type(e).__name__, str(e)[:80])
        if key in out["frames"]:
            out.setdefault("duplicate_frames", []).append(key)
        out["frames"][key] = f
    return out


def diff(a, b, path=""):
    return matgen.diff(a, b, path)


def classify(path):
    """short stable class of a differing leaf: frames/<id>/signals/<name>/factor -> signal-factor"""
    parts = [p for p in path.split("/") if p]
    if not parts:
        return "root"
    if parts[0] == "frames":
        if len(parts) == 2:
            return "frame-set"
        if len(parts) >= 3 and parts[2] == "signals":
            if len(parts) == 4:
                return "signal-set"
            if len(parts) >= 5:
                return "signal-" + parts[4].split("[")[0]
            return "signal-set"
        return "frame-" + parts[2].split("[")[0]
    if parts[0] == "ecus":
        if len(parts) == 2:
            return "ecu-set"
        return "ecu-" + (parts[2] if len(parts) > 2 else "set")
    if parts[0] == "attr_defs":
        if len(parts) == 2:
            return "attrdef-set"
        return "attrdef-" + parts[2]
    return parts[0]


# ------------------------------------------------------------------------------------------------------------
def _canon_attr_value(v):
    try:
        return "num:" + dstr(D(str(v).strip()))
    except decimal.InvalidOperation:
        return "str:" + str(v)


def metamorphic_form(db, fmt=None):
    """matgen.normal_form without what a format does not describe (file order of frames/signals) and with numeric-looking
    attribute texts and define ranges compared by value (canmatrix keeps attribute values as the file's text)."""
    nf = copy.deepcopy(matgen.normal_form(db))
    # SYM: the section a frame stands in and the Title line are content of their own (varied by the writer), not lexical freedom
    # likewise the attributes an ARXML reader derives from element names (CompuMethodName, PduName, ...)
    drop = READER_OWN_ATTRS.get(fmt, {"frame": set(), "signal": set(), "ecu": set(), "net": set()})
    for cat, obj in (("global_defines", "net"), ("ecu_defines", "ecu"), ("frame_defines", "frame"), ("signal_defines", "signal")):
        for k in list(nf["defines"][cat]):
            if k in drop[obj]:
                del nf["defines"][cat][k]
    nf.pop("frame_order", None)
    for e in nf["ecus"].values():
        e["comment"] = e.get("comment") or None
    for f in nf["frames"].values():
        f["comment"] = f.get("comment") or None        # an explicitly empty comment is no comment
        for s in f["signals"].values():
            s["comment"] = s.get("comment") or None
        f.pop("signal_order", None)
        f["receivers"] = sorted(f["receivers"])
        f["transmitters"] = sorted(f["transmitters"])
        f["attributes"] = {k: _canon_attr_value(v) for k, v in (f.get("attributes") or {}).items() if k not in drop["frame"]}
        for s in f["signals"].values():
            s["attributes"] = {k: _canon_attr_value(v) for k, v in (s.get("attributes") or {}).items() if k not in drop["signal"]}
    for e in nf["ecus"].values():
        e["attributes"] = {k: _canon_attr_value(v) for k, v in e["attributes"].items() if k not in drop["ecu"]}
    nf["attributes"] = {k: _canon_attr_value(v) for k, v in nf["attributes"].items() if k not in drop["net"]}
    for cat in nf["defines"].values():
        for k, d in cat.items():
            toks = str(d["definition"]).split()
            if d["type"] in ("INT", "HEX", "FLOAT") and len(toks) == 3:
                d["definition"] = " ".join([toks[0]] + [_canon_attr_value(t) for t in toks[1:]])
            if d["type"] == "ENUM":
                d["definition"] = "ENUM " + ",".join(d["values"] or [])      # blanks between ENUM and its list are not content
            if d["default"] is not None and d["type"] in ("INT", "HEX", "FLOAT"):
                d["default"] = _canon_attr_value(d["default"])
    return nf
