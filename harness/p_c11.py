"""C11: ECU rename/delete/update keep every sender and receiver reference consistent.
Tie: CanMatrix.rename_ecu / del_ecu / update_ecu_list / delete_obsolete_ecus / add_signal_receiver / del_signal_receiver
(and through them add_ecu, glob_ecus, Frame.update_receiver, add/del_transmitter, add/del_receiver) vs model/EcuOps.v
(cmd 1101: for EVERY operation of a sequence one model step from the implementation's state before it, compared with the
implementation's state after it modulo what the property leaves open: position inside a reference list, order of appended ECUs); fnmatch.fnmatchcase vs
model/Glob.v (cmd 1102; with character classes [seq] / [!seq] / ranges: glob_match_cls, cmd 1104, which is also what the
sequences of cmd 1101 use); str.strip vs the model's strip (cmd 1103).
Patterns are generated with every subset of fnmatch's metacharacter kinds (`*`, `?`, `[...]`), alone and combined,
for ECUs, frames and signals; operations whose pattern carries a class have violation keys of their own.
Search oracle: a transcription of the property's four sentences and its last sentence (set/list comprehensions over
the state before the operation), evaluated on the real objects after every operation of every generated sequence;
"changes nothing else" is checked on every attrs field of every Ecu/Frame/Signal and of the matrix.
Construction variants: the same definition built so that objects share parts (one list object used for two reference
lists, copy.copy clones re-assigned field by field, deepcopy) must go through every sequence exactly like a plainly
built matrix of that definition (keys shared-objects:<variant>)."""
import fnmatch
import attr
import core

LEVEL_NOTE = ("theorems are about model/EcuOps.v + model/Glob.v; 'reference' = frame senders, receivers of the frames' signals, frame "
              "receivers (the kinds the property enumerates): rename/del/update leave CanMatrix.signals (free signals) untouched, "
              "delete_obsolete_ecus counts their receivers as references; envelope = duplicate-free reference lists, names without "
              "surrounding white space / glob metacharacters, distinct ECU names (outside it nothing is judged or tied; "
              "the Coq witnesses *_refuted show what happens there); ECU NAMES containing '[' are not modelled (patterns are)")

# flip to True to also evaluate the property on the streams outside the envelope (duplicate entries in a reference list etc.);
# the failures then carry the keys 'outside-envelope:<kind>'
CLAIM_OUTSIDE_ENVELOPE = False

ECU_POOL = ["A", "AB", "ABC", "B", "BA", "Gw", "Gw1", "Gw12", "E_1", "E_2", "C", "Vector__XXX"]
FRAME_POOL = ["F1", "F10", "F2", "FA", "FAB", "Msg", "Msg_1", "M"]
SIG_POOL = ["s", "s1", "s10", "sig", "sigA", "t", "tA", "u_1"]
ECU_PATTERNS = ["*", "?", "??", "A*", "*1", "G?1", "Gw*", "A?", "*B*", "E_?", "*_*", "Z*", "a*", "???*", "*A", "Gw1?", "", "B", "AB", "Gw1",
                "[AB]", "A[B]", "A[!B]", "Gw[0-9]", "Gw[12]", "Gw1[2]", "E_[12]", "E[_]1", "[A-G]*", "[!A]*", "[!A-B]?", "?[B]", "[", "A[", "A[B", "[]A]", "[!]", "[B-A]"]
FRAME_PATTERNS = ["*", "F*", "F1*", "F?", "Msg*", "*A*", "M", "F10", "Z*", "?", "F[12]", "F1[0]", "F[!1]", "Msg[_]1", "[FM]*", "F[A-B]*", "F["]
SIG_PATTERNS = ["*", "s*", "s1*", "s?", "sig*", "t*", "*A", "u_1", "Z*", "?", "s[1]", "s1[0]", "sig[A]", "[st]*", "t[!A]", "u[_]1", "s[0-9]", "[!s]*"]
KIND_SETS = [("*",), ("?",), ("[",), ("[",), ("*", "?"), ("*", "["), ("?", "["), ("*", "?", "[")]


def kinds_of(p):
    """which of fnmatch's metacharacter kinds a pattern uses"""
    return "".join(k for k in "*?[" if k in p) or "plain"


def derive_pattern(rng, n, kinds):
    """a pattern close to the name n that uses exactly the metacharacter kinds asked for (it usually matches n, and
    often its neighbours in the pool, sometimes deliberately not n)"""
    toks = list(n) if n else ["A"]
    while len(toks) < len(kinds):
        toks.append(rng.choice("B1"))
    pos = rng.sample(range(len(toks)), len(kinds))
    cut = None
    for k, i in zip(kinds, pos):
        c = toks[i]
        if k == "*":
            toks[i] = "*"
            if rng.random() < 0.5:
                cut = i
        elif k == "?":
            toks[i] = "?"
        else:
            other = rng.choice("AB12w_")
            x = rng.random()
            if x < 0.35:
                toks[i] = "[" + "".join(rng.sample([c, other], 2)) + "]"
            elif x < 0.55:
                toks[i] = "[!" + other + "]"
            elif x < 0.80 and c.isalnum():
                toks[i] = "[" + chr(ord(c) - rng.randrange(2)) + "-" + chr(ord(c) + rng.randrange(3)) + "]"
            elif x < 0.92:
                toks[i] = "[" + c + "]"
            else:
                toks[i] = "[!" + c + "]"
    if cut is not None and all(p <= cut for p in pos):
        toks = toks[:cut + 1]
    return "".join(toks)


def nub(l):
    out = []
    for x in l:
        if x not in out:
            out.append(x)
    return out


# ------------------------------------------------------------------ descriptors -> objects -> states
def ecu_fields(pay):
    """payload id -> (comment, attributes); 0 is what Ecu(name) carries"""
    if pay == 0:
        return None, {}
    return "ecu comment %d" % pay, {"EcuAttr": str(pay), "K%d" % (pay % 3): "v"}


VARIANTS = ("shared-lists", "cloned-frames", "deepcopy")


def build(C, desc, variant=None, vseed=0):
    """The matrix a descriptor denotes.  variant=None: every list is an object of its own.
    Other ways to arrive at the SAME definition through the public API (the objects then share parts):
      shared-lists   equal reference lists (a frame's receivers and a signal's, two signals', two frames' senders, a sender
                     list and a receiver list, ...) are handed over as ONE Python list object, decided per slot
      cloned-frames  every frame after the first is copy.copy() of an earlier Frame object whose fields are then all
                     re-assigned; its receiver list is re-established by update_receiver() when the definition is up to date
      deepcopy       copy.deepcopy() of the shared-lists construction (keeps the sharing inside the copy)
    returns (db, how many slots share an object)"""
    import copy
    import random
    vr = random.Random(vseed)
    shared = [0]
    pool = {}

    zone = ["frames"]

    def lst(values):
        """the list object for one reference slot.  Slots the operations rewrite (frames) and slots they leave alone (free
        signals: rename/del/update do not visit CanMatrix.signals) never share an object - such a matrix would denote two
        different definitions at once"""
        if variant not in ("shared-lists", "deepcopy"):
            return list(values)
        key = (zone[0], tuple(values))
        if key in pool and vr.random() < 0.6:
            shared[0] += 1
            return vr.choice(pool[key])
        obj = list(values)
        pool.setdefault(key, []).append(obj)
        return obj

    db = C.CanMatrix()
    db.attributes["DBName"] = "net"
    db.add_frame_defines("GenMsgCycleTime", "INT 0 65535")
    db.add_ecu_defines("EcuAttr", "STRING")
    db.add_value_table("vt", {0: "off", 1: "on"})
    for name, pay in desc["ecus"]:
        c, a = ecu_fields(pay)
        db.ecus.append(C.Ecu(name, comment=c, attributes=dict(a)))

    def mksig(sd):
        p = sd["pay"]
        s = C.Signal(sd["name"], start_bit=(p * 8) % 56, size=1 + p % 8, is_little_endian=bool(p % 2), is_signed=bool(p % 3 == 0),
                     factor=1 + (p % 4), offset=p % 5, unit="u%d" % (p % 3), comment="sig comment %d" % p,
                     receivers=lst(sd["recv"]))
        s.add_attribute("SigAttr", p)
        s.add_values(p % 4, "val%d" % p)
        return s
    for fd in desc["frames"]:
        p = fd["pay"]
        if variant == "cloned-frames" and db.frames:
            fr = copy.copy(vr.choice(db.frames))
            shared[0] += 1
            fr.name = fd["name"]
            fr.arbitration_id = C.ArbitrationId(p, extended=bool(p % 2))
            fr.comment = "frame comment %d" % p
            fr.transmitters = list(fd["tx"])
            fr.cycle_time = 10 * (p % 5)
            fr.attributes = {}
            fr.signals = []
        else:
            fr = C.Frame(fd["name"], arbitration_id=C.ArbitrationId(p, extended=bool(p % 2)), size=8, comment="frame comment %d" % p,
                         transmitters=lst(fd["tx"]), cycle_time=10 * (p % 5))
        fr.add_attribute("GenMsgCycleTime", 10 * (p % 5))
        for sd in fd["sigs"]:
            fr.add_signal(mksig(sd))
        if variant == "cloned-frames" and list(fd["rx"]) == nub([r for sd in fd["sigs"] for r in sd["recv"]]):
            fr.update_receiver()              # the API's own way to bring a frame's receiver list up to date
        else:
            fr.receivers = lst(fd["rx"])
        db.add_frame(fr)
    zone[0] = "free"
    for sd in desc["free"]:
        db.add_signal(mksig(sd))
    if variant == "deepcopy":
        db = copy.deepcopy(db)
    return db, shared[0]


REF_FIELDS = {"Frame": {"transmitters", "receivers", "signals"}, "Signal": {"receivers"},
              "CanMatrix": {"ecus", "frames", "signals", "_frames_dict_id_extend", "frames_dict_name", "frames_dict_id"}, "Ecu": {"name"}}


def rest(obj):
    """every attrs field of the object that is not a reference list (rendered, so that in-place edits show)"""
    skip = REF_FIELDS[type(obj).__name__]
    return tuple((a.name, repr(getattr(obj, a.name))) for a in attr.fields(type(obj)) if a.name not in skip)


class Base:
    """what the objects looked like when they were built: payload ids are resolved against it"""

    def __init__(self, db, desc):
        self.db_rest = rest(db)
        self.frame_rest = [rest(f) for f in db.frames]
        self.sig_rest = [[rest(s) for s in f.signals] for f in db.frames]
        self.free_rest = [rest(s) for s in db.signals]
        self.frame_pay = [fd["pay"] for fd in desc["frames"]]
        self.sig_pay = [[sd["pay"] for sd in fd["sigs"]] for fd in desc["frames"]]
        self.free_pay = [sd["pay"] for sd in desc["free"]]
        self.ecu_pay = {}
        for _, pay in desc["ecus"]:
            c, a = ecu_fields(pay)
            self.ecu_pay[(c, tuple(sorted(a.items())))] = pay
        self.ecu_pay[(None, ())] = 0


def state(db, base):
    """normal form: payload = the id given at construction while every other field is untouched, else -1"""
    ecus = [(e.name, base.ecu_pay.get((e.comment, tuple(sorted(e.attributes.items()))), -1)) for e in db.ecus]
    frames = []
    for i, f in enumerate(db.frames):
        if i < len(base.frame_rest):
            fp = base.frame_pay[i] if rest(f) == base.frame_rest[i] else -1
        else:
            fp = -2
        sigs = []
        for j, s in enumerate(f.signals):
            ok = i < len(base.sig_rest) and j < len(base.sig_rest[i])
            sp = (base.sig_pay[i][j] if rest(s) == base.sig_rest[i][j] else -1) if ok else -2
            sigs.append((s.name, sp, tuple(s.receivers)))
        frames.append((f.name, fp, tuple(f.transmitters), tuple(f.receivers), tuple(sigs)))
    free = []
    for j, s in enumerate(db.signals):
        ok = j < len(base.free_rest)
        sp = (base.free_pay[j] if rest(s) == base.free_rest[j] else -1) if ok else -2
        free.append((s.name, sp, tuple(s.receivers)))
    return {"ecus": tuple(ecus), "frames": tuple(frames), "free": tuple(free), "db_rest_ok": rest(db) == base.db_rest}


def desc_state(desc):
    return {"ecus": tuple(desc["ecus"]),
            "frames": tuple((f["name"], f["pay"], tuple(f["tx"]), tuple(f["rx"]),
                             tuple((s["name"], s["pay"], tuple(s["recv"])) for s in f["sigs"])) for f in desc["frames"]),
            "free": tuple((s["name"], s["pay"], tuple(s["recv"])) for s in desc["free"]), "db_rest_ok": True}


# ------------------------------------------------------------------ encoding for the model
def cs(s):
    return [ord(c) for c in s]


def lp(names):
    out = []
    for n in names:
        out += [len(n)] + cs(n)
    return out


def enc_sig(s):
    return [[5, s[1]] + cs(s[0]), [6] + lp(s[2])]


def enc_state(st):
    g = [[1, pay] + cs(n) for n, pay in st["ecus"]]
    for f in st["frames"]:
        g += [[2, f[1]] + cs(f[0]), [3] + lp(f[2]), [4] + lp(f[3])]
        for s in f[4]:
            g += enc_sig(s)
    g.append([7])
    for s in st["free"]:
        g += enc_sig(s)
    return g


def unlp(g):
    out, i = [], 0
    while i < len(g):
        n = g[i]
        out.append("".join(chr(c) for c in g[i + 1:i + 1 + n]))
        i += 1 + n
    return tuple(out)


def dec_state(groups):
    """inverse of enc_state (model output -> state)"""
    ecus, frames, free, cur, in_free = [], [], [], None, False
    name = lambda g: "".join(chr(c) for c in g)
    for g in groups:
        t = g[0]
        if t == 1:
            ecus.append((name(g[2:]), g[1]))
        elif t == 2:
            cur = [name(g[2:]), g[1], (), (), []]
            frames.append(cur)
        elif t == 3:
            cur[2] = unlp(g[1:])
        elif t == 4:
            cur[3] = unlp(g[1:])
        elif t == 5:
            (free if in_free else cur[4]).append([name(g[2:]), g[1], ()])
        elif t == 6:
            (free if in_free else cur[4])[-1][2] = unlp(g[1:])
        elif t == 7:
            in_free = True
    return {"ecus": tuple(ecus),
            "frames": tuple((f[0], f[1], f[2], f[3], tuple(tuple(x) for x in f[4])) for f in frames),
            "free": tuple(tuple(x) for x in free)}


def enc_op(op, pre):
    k = op[0]
    if k == "rename_name":
        return [10] + lp([op[1], op[2]])
    if k == "rename_inst":
        return [11, op[1]] + lp([op[2]])
    if k == "del_inst":
        n, pay = pre["ecus"][op[1]]
        return [12, pay] + cs(n)
    if k == "del_foreign":
        return [12, op[2]] + cs(op[1])
    if k == "del_glob":
        return [13] + cs(op[1])
    if k == "update":
        return [14]
    if k == "obsolete":
        return [15]
    if k == "add_sr":
        return [16] + lp([op[1], op[2], op[3]])
    if k == "del_sr":
        return [17] + lp([op[1], op[2], op[3]])
    raise ValueError(op)


# ------------------------------------------------------------------ running an operation on the implementation
def applicable(op, pre):
    if op[0] in ("rename_inst", "del_inst"):
        return 0 <= op[1] < len(pre["ecus"])
    return True


def apply_op(C, db, op):
    k = op[0]
    if k == "rename_name":
        db.rename_ecu(op[1], op[2])
    elif k == "rename_inst":
        db.rename_ecu(db.ecus[op[1]], op[2])
    elif k == "del_inst":
        db.del_ecu(db.ecus[op[1]])
    elif k == "del_foreign":
        c, a = ecu_fields(op[2])
        db.del_ecu(C.Ecu(op[1], comment=c, attributes=dict(a)))
    elif k == "del_glob":
        db.del_ecu(op[1])
    elif k == "update":
        db.update_ecu_list()
    elif k == "obsolete":
        db.delete_obsolete_ecus()
    elif k == "add_sr":
        db.add_signal_receiver(op[1], op[2], op[3])
    elif k == "del_sr":
        db.del_signal_receiver(op[1], op[2], op[3])
    else:
        raise ValueError(op)


# ------------------------------------------------------------------ the property, transcribed
def refs3(st):
    out = []
    for f in st["frames"]:
        out += list(f[2]) + [r for s in f[4] for r in s[2]] + list(f[3])
    return out


def free_refs(st):
    return [r for s in st["free"] for r in s[2]]


def in_envelope(st):
    """duplicate-free reference lists, up-to-date frame receivers, distinct clean literal ECU names"""
    for f in st["frames"]:
        if len(set(f[2])) != len(f[2]):
            return "dup-transmitter"
        allr = []
        for s in f[4]:
            if len(set(s[2])) != len(s[2]):
                return "dup-signal-receiver"
            allr += s[2]
        if set(f[3]) != set(allr) or len(set(f[3])) != len(f[3]):
            return "stale-frame-receivers"
    names = [n for n, _ in st["ecus"]]
    if len(set(names)) != len(names):
        return "dup-ecu-name"
    for n in names + refs3(st) + free_refs(st):
        if n != n.strip():
            return "space-in-name"
        if any(c in n for c in "*?["):
            return "metachar-in-name"
    return None


def shape_same(pre, post):
    """frames / signals correspond one to one with name and every non-reference field equal; free signals identical"""
    if len(pre["frames"]) != len(post["frames"]):
        return "number of frames changed"
    for f, g in zip(pre["frames"], post["frames"]):
        if (f[0], f[1]) != (g[0], g[1]):
            return "frame %s: name or a non-reference field changed" % f[0]
        if len(f[4]) != len(g[4]):
            return "frame %s: number of signals changed" % f[0]
        for s, t in zip(f[4], g[4]):
            if (s[0], s[1]) != (t[0], t[1]):
                return "signal %s.%s: name or a non-reference field changed" % (f[0], s[0])
    if canon(pre)["free"] != canon(post)["free"]:
        return "free signals changed"
    if not post["db_rest_ok"]:
        return "a matrix field other than ecus/frames/signals changed"
    return None


def map_refs(st, g):
    """expected frames: g applied to every reference list (g gets the list and which kind it is)"""
    return tuple((f[0], f[1], g(f[2], "tx"), g(f[3], "rx"), tuple((s[0], s[1], g(s[2], "sr")) for s in f[4])) for f in st["frames"])


def sorted_refs(frames):
    return tuple((f[0], f[1], tuple(sorted(f[2])), tuple(sorted(f[3])), tuple((s[0], s[1], tuple(sorted(s[2]))) for s in f[4])) for f in frames)


def outside_quantifier(op, pre):
    """operations the property does not quantify over: renames whose new name is already in use (as an ECU, in a reference,
    or - the ECU's own name included - anywhere else)"""
    if op[0] in ("rename_name", "rename_inst"):
        if op[2] in [n for n, _ in pre["ecus"]] or op[2] in refs3(pre) or op[2] in free_refs(pre):
            return "rename-to-a-name-in-use"
    return None


def canon(st, n_listed_before=None):
    """What the property constrains of a state.  It speaks of references as membership ('every reference', 'the union',
    'exists exactly once', 'exactly the unreferenced ones') and fixes no position inside Frame.transmitters, Frame.receivers,
    Signal.receivers, nor the order in which update_ecu_list appends the missing ECUs: reference lists are compared as
    multisets, the ECU list as the ECUs listed before (in their order) followed by the multiset of the appended ones."""
    ecus = tuple(st["ecus"])
    if n_listed_before is not None:
        ecus = ecus[:n_listed_before] + tuple(sorted(ecus[n_listed_before:]))
    return {"ecus": ecus, "frames": sorted_refs(st["frames"]),
            "free": tuple((s[0], s[1], tuple(sorted(s[2]))) for s in st["free"])}


def deleted_names(op, pre):
    """the names of the listed ECUs a del_ecu operation deletes"""
    k = op[0]
    if k == "del_inst":
        return {pre["ecus"][op[1]][0]}
    if k == "del_foreign":
        return {n for n, p in pre["ecus"] if (n, p) == (op[1], op[2])}
    if k == "del_glob":
        return {n for n, _ in pre["ecus"] if fnmatch.fnmatchcase(n, op[1])}
    return set()


def project(op, pre, st):
    """Removes from a state what the statement leaves open for this operation (applied to both sides of every comparison):
      del_ecu            'removes it and every reference to it' (no 'changes nothing else'): whether the deleted names also leave
                         the receivers of the signals WITHOUT frame is open -> the deleted names are dropped from those lists
      update_ecu_list    'makes every referenced ECU exist exactly once': whether ECUs named only by signals without frame are
                         listed too is open -> appended ECUs that only such signals name are dropped
      add_signal_receiver (not one of the four operations; anchored for the frame receiver list only): whether the new receiver
                         is also entered into the ECU list is open -> an appended ECU of that name is dropped"""
    k = op[0]
    n0 = len(pre["ecus"])
    out = dict(st)
    if k in ("del_inst", "del_foreign", "del_glob"):
        gone = deleted_names(op, pre)
        out["free"] = tuple((s[0], s[1], tuple(x for x in s[2] if x not in gone)) for s in st["free"])
    elif k == "update":
        only_free = set(free_refs(pre)) - set(refs3(pre)) - {n for n, _ in pre["ecus"]}
        out["ecus"] = tuple(st["ecus"][:n0]) + tuple(e for e in st["ecus"][n0:] if e[0] not in only_free)
    elif k == "add_sr":
        listed = {n for n, _ in pre["ecus"]}
        out["ecus"] = tuple(st["ecus"][:n0]) + tuple(e for e in st["ecus"][n0:] if not (e[0] == op[3] and e[0] not in listed))
    return out


def oracle(op, pre, post):
    """-> list of (key, what, expected, observed) for this step; the caller made sure pre is inside the envelope"""
    bad = []
    k = op[0]
    post = project(op, pre, post)
    sh = shape_same(project(op, pre, pre), post)
    if sh:
        bad.append(("other-fields-changed", sh, None, None))
    # last sentence of the property
    for f in post["frames"]:
        union = set(r for s in f[4] for r in s[2])
        if set(f[3]) != union or len(set(f[3])) != len(f[3]):
            bad.append(("receivers-not-union", "frame %s: receiver list is not the union of its signals' receivers after %s" % (f[0], k),
                        sorted(union), list(f[3])))
            break
    listed = [n for n, _ in pre["ecus"]]
    if k in ("rename_name", "rename_inst"):
        new = op[2]
        if k == "rename_name":
            idx = listed.index(op[1]) if op[1] in listed else None
        else:
            idx = op[1]
        if idx is None:
            if (post["ecus"], sorted_refs(post["frames"])) != (pre["ecus"], sorted_refs(pre["frames"])):
                bad.append(("rename-unlisted-changed", "renaming a name that is not a listed ECU changed the matrix", None, None))
            return bad
        old = listed[idx]
        if outside_quantifier(op, pre):
            return bad            # new name already in use: outside the quantifier
        exp_ecus = tuple((new, p) if i == idx else (n, p) for i, (n, p) in enumerate(pre["ecus"]))
        if post["ecus"] != exp_ecus:
            bad.append(("rename-ecu-list", "ECU list after rename is not the old one with that ECU's name replaced", exp_ecus, post["ecus"]))
        exp = sorted_refs(map_refs(pre, lambda l, kind: tuple(new if x == old else x for x in l)))
        if sorted_refs(post["frames"]) != exp:
            bad.append(("rename-refs", "references after rename are not the image of the old ones under old -> new", exp, sorted_refs(post["frames"])))
    elif k in ("del_inst", "del_foreign", "del_glob"):
        if k == "del_inst":
            gone_idx = [op[1]]
        elif k == "del_foreign":
            gone_idx = [i for i, e in enumerate(pre["ecus"]) if e == (op[1], op[2])][:1]
        else:
            gone_idx = [i for i, (n, _) in enumerate(pre["ecus"]) if fnmatch.fnmatchcase(n, op[1])]
        gone = set(listed[i] for i in gone_idx)
        cls = " (pattern with a character class: %r)" % op[1] if k == "del_glob" and "[" in op[1] else ""
        exp_ecus = tuple(e for i, e in enumerate(pre["ecus"]) if i not in gone_idx)
        if tuple(sorted(post["ecus"])) != tuple(sorted(exp_ecus)):
            bad.append(("del-class-ecu-list" if cls else "del-ecu-list",
                        "ECU list after del_ecu is not the old one without the deleted ECU(s)" + cls, exp_ecus, post["ecus"]))
        exp = map_refs(pre, lambda l, kind: tuple(x for x in l if x not in gone))
        if sorted_refs(post["frames"]) != sorted_refs(exp):
            bad.append(("del-class-refs" if cls else "del-refs",
                        "references after del_ecu are not the old ones without the deleted name(s)" + cls, exp, post["frames"]))
    elif k == "update":
        refd = set(refs3(pre))
        n0 = len(pre["ecus"])
        names = [n for n, _ in post["ecus"]]
        if post["ecus"][:n0] != pre["ecus"]:
            bad.append(("update-listed-changed", "update_ecu_list changed an ECU that was already listed", pre["ecus"], post["ecus"][:n0]))
        wrong = [r for r in sorted(refd) if names.count(r) != 1]
        extra = [e for e in post["ecus"][n0:] if e[0] not in refd or e[1] != 0]
        if wrong or extra:
            bad.append(("update-exactly-once", "after update_ecu_list a referenced ECU is not listed exactly once (or something unreferenced was added)",
                        sorted(refd), names))
        if sorted_refs(post["frames"]) != sorted_refs(pre["frames"]):
            bad.append(("update-changed-frames", "update_ecu_list changed a frame", pre["frames"], post["frames"]))
    elif k == "obsolete":
        used = set(refs3(pre)) | set(free_refs(pre))
        exp_ecus = tuple(e for e in pre["ecus"] if e[0] in used)
        if tuple(sorted(post["ecus"])) != tuple(sorted(exp_ecus)):
            bad.append(("obsolete-ecu-list", "delete_obsolete_ecus did not remove exactly the unreferenced ECUs", exp_ecus, post["ecus"]))
        if sorted_refs(post["frames"]) != sorted_refs(pre["frames"]):
            bad.append(("obsolete-changed-frames", "delete_obsolete_ecus changed a frame", pre["frames"], post["frames"]))
    elif k in ("add_sr", "del_sr"):
        gf, gs, n = op[1], op[2], op[3]
        exp = []
        for f in pre["frames"]:
            if not fnmatch.fnmatchcase(f[0], gf):
                exp.append(f)
                continue
            sigs = []
            for s in f[4]:
                r = s[2]
                if fnmatch.fnmatchcase(s[0], gs):
                    r = (r if n in r else r + (n,)) if k == "add_sr" else tuple(x for x in r if x != n)
                sigs.append((s[0], s[1], r))
            exp.append((f[0], f[1], f[2], tuple(nub([x for s in sigs for x in s[2]])), tuple(sigs)))
        if post["ecus"] != pre["ecus"] or sorted_refs(post["frames"]) != sorted_refs(tuple(exp)):
            bad.append(("signal-receiver-class-op" if "[" in gf + gs else "signal-receiver-op",
                        "%s(%r, %r, %r) did not change exactly the matching signals' receivers" % (k, gf, gs, n),
                        sorted_refs(tuple(exp)), sorted_refs(post["frames"])))
    return bad


def run_sequence(C, desc, ops, variant=None, vseed=0, check=True):
    """-> (states after each op (None where the op raised), [(step, key, what, expected, observed)], envelope notes)"""
    db, _ = build(C, desc, variant, vseed)
    base = Base(db, desc)
    pre = state(db, base)
    states, fails, notes = [], [], []
    if variant is not None and pre != desc_state(desc):
        return None, [], ["construction does not denote the definition"]
    for i, op in enumerate(ops):
        if not applicable(op, pre):
            states.append(("skip", pre))
            continue
        env = in_envelope(pre)
        try:
            apply_op(C, db, op)
        except Exception as e:                      # no operation of the property may raise (inside its quantifier)
            if (env or outside_quantifier(op, pre)) is None or CLAIM_OUTSIDE_ENVELOPE:
                fails.append((i, "raised", "%s raised %s: %s" % (op[0], type(e).__name__, e), None, None))
            states.append(None)
            break
        post = state(db, base)
        states.append((op, pre, post))
        if not check:
            pre = post
            continue
        env = env or outside_quantifier(op, pre)
        if env is None:
            for key, what, exp, obs in oracle(op, pre, post):
                fails.append((i, key, what, exp, obs))
        else:
            # outside the property's quantifier / envelope: neither judged nor tied
            notes.append(env)
            if CLAIM_OUTSIDE_ENVELOPE:
                for key, what, exp, obs in oracle(op, pre, post):
                    fails.append((i, "outside-envelope:" + env, what, exp, obs))
        pre = post
    return states, fails, notes


PROPERTY_OPS = ("rename_name", "rename_inst", "del_inst", "del_foreign", "del_glob", "update", "obsolete")


def variant_differs(C, desc, ops, variant, vseed):
    """The property on a matrix whose objects share parts: after every operation its state must equal the state of a freshly,
    plainly built matrix of the same definition - in the canonical form of `canon` (names per reference list as multisets, ECUs
    as a multiset): the property fixes neither positions nor the identity of a list object, and which positions an
    implementation produces may depend on what is shared.  Both matrices are driven in lockstep; an operation given by
    position (db.ecus[i]) addresses in the second matrix the ECU equal to the one addressed in the first.  The comparison
    stops at the first step outside the quantifier.  -> None or (step, what, expected, observed)"""
    try:
        dba, _ = build(C, desc)
        dbb, _ = build(C, desc, variant, vseed)
    except Exception:
        return None
    basea, baseb = Base(dba, desc), Base(dbb, desc)
    prea, preb = state(dba, basea), state(dbb, baseb)
    if preb != desc_state(desc):
        return None                                   # the construction does not denote the definition
    for i, op in enumerate(ops):
        if not applicable(op, prea):
            continue
        if in_envelope(prea) or outside_quantifier(op, prea):
            return None
        opb = op
        if op[0] in ("rename_inst", "del_inst"):
            where = [j for j, e in enumerate(preb["ecus"]) if e == prea["ecus"][op[1]]]
            if not where:
                return None
            opb = (op[0], where[0]) + tuple(op[2:])
        try:
            apply_op(C, dba, op)
        except Exception:
            return None                               # the plain matrix failing is the main stream's business
        try:
            apply_op(C, dbb, opb)
        except Exception as e:
            return (i, "operation %s raised %s on the %s construction only: %s" % (op[0], type(e).__name__, variant, e), None, None)
        posta, postb = state(dba, basea), state(dbb, baseb)
        ca, cb = canon(posta, 0), canon(postb, 0)
        if ca != cb or posta["db_rest_ok"] != postb["db_rest_ok"]:
            return (i, "after %s the matrix built with %s differs from a plainly built matrix of the same definition (names per list, ECUs)"
                    % (op[0], variant), ca, cb)
        prea, preb = posta, postb
    return None


def shrink_by(pred, desc, ops):
    """smallest (desc, ops) found for which pred(desc, ops) still holds"""
    import copy
    ops = list(ops)
    changed = True
    while changed:
        changed = False
        for i in range(len(ops)):
            cand = ops[:i] + ops[i + 1:]
            if cand and pred(desc, cand):
                ops, changed = cand, True
                break
    changed = True
    while changed:
        changed = False
        cands = []
        for i in range(len(desc["frames"])):
            d = copy.deepcopy(desc); del d["frames"][i]; cands.append(d)
            for j in range(len(desc["frames"][i]["sigs"])):
                d = copy.deepcopy(desc); del d["frames"][i]["sigs"][j]
                d["frames"][i]["rx"] = nub([r for x in d["frames"][i]["sigs"] for r in x["recv"]]); cands.append(d)
            for q in range(len(desc["frames"][i]["tx"])):
                d = copy.deepcopy(desc); del d["frames"][i]["tx"][q]; cands.append(d)
        for i in range(len(desc["free"])):
            d = copy.deepcopy(desc); del d["free"][i]; cands.append(d)
        for i in range(len(desc["ecus"])):
            d = copy.deepcopy(desc); del d["ecus"][i]; cands.append(d)
        for d in cands:
            if pred(d, ops):
                desc, changed = d, True
                break
    return desc, ops


# ------------------------------------------------------------------ generators
def gen_desc(rng, exotic=None):
    n_ecu = rng.randrange(3, 9)
    pool = list(ECU_POOL)
    rng.shuffle(pool)
    names = pool[:n_ecu]
    k_list = rng.randrange(max(1, n_ecu - 3), n_ecu + 1)
    listed = names[:k_list]                              # the rest: referenced but not listed
    unref = set(rng.sample(listed, rng.randrange(0, min(3, len(listed)) + 0)))   # listed but not referenced
    usable = [n for n in names if n not in unref] or names[:1]
    if exotic == "space":
        usable = usable + [" " + usable[0], usable[-1] + " "]
    if exotic == "meta":
        listed = listed + [rng.choice(["A*", "G?1", "*", "?"])]
        usable = usable + [rng.choice(["A*", "B?"])]
    pays = list(range(1, 40))
    rng.shuffle(pays)
    ecus = [(n, rng.choice([0, pays.pop()])) for n in listed]
    if exotic == "dup-ecu":
        n0 = rng.choice(listed)
        ecus.insert(rng.randrange(len(ecus) + 1), (n0, rng.choice([0, dict(ecus)[n0], pays.pop()])))
    rng.shuffle(ecus)
    fpool = list(FRAME_POOL)
    rng.shuffle(fpool)
    frames = []
    sp = 100

    def pick(k):
        k = min(k, len(usable))
        return rng.sample(usable, k)

    def gen_sig(name):
        nonlocal sp
        sp += 1
        recv = pick(rng.choice([0, 1, 1, 2, 2, 3, 4]))
        if exotic == "dup-ref" and recv and rng.random() < 0.6:
            recv.insert(rng.randrange(len(recv) + 1), rng.choice(recv))
        return {"name": name, "pay": sp, "recv": recv}

    for fi in range(rng.randrange(1, 6)):
        spool = list(SIG_POOL)
        rng.shuffle(spool)
        sigs = [gen_sig(spool[j]) for j in range(rng.choice([0, 1, 2, 2, 3, 4]))]
        tx = pick(rng.choice([0, 1, 1, 1, 2, 3]))
        if exotic == "dup-ref" and tx and rng.random() < 0.5:
            tx.append(rng.choice(tx))
        rx = nub([r for s in sigs for r in s["recv"]])
        if exotic == "stale":
            rx = pick(rng.randrange(0, 3)) if rng.random() < 0.7 else rx[::-1]
        frames.append({"name": fpool[fi], "pay": 0x100 + 7 * fi + rng.randrange(7), "tx": tx, "rx": rx, "sigs": sigs})
    # the case the property's rationale names: one ECU that sends one frame and receives in another
    if len(frames) >= 2 and rng.random() < 0.6:
        e = rng.choice(usable)
        if e not in frames[0]["tx"]:
            frames[0]["tx"].append(e)
        cand = [f for f in frames[1:] if f["sigs"]]
        if cand:
            s = rng.choice(rng.choice(cand)["sigs"])
            if e not in s["recv"]:
                s["recv"].append(e)
        for f in frames:
            if exotic != "stale":
                f["rx"] = nub([r for s in f["sigs"] for r in s["recv"]])
    free = []
    for j in range(rng.choice([0, 0, 1, 2])):
        s = gen_sig("free%d" % j)
        if rng.random() < 0.5 and unref:
            s["recv"].append(rng.choice(sorted(unref)))   # an ECU referenced by a free signal only
            s["recv"] = nub(s["recv"]) if exotic != "dup-ref" else s["recv"]
        free.append(s)
    return {"ecus": ecus, "frames": frames, "free": free}


def gen_op(rng, st, fresh):
    listed = [n for n, _ in st["ecus"]]
    r3 = refs3(st)
    inuse = set(listed) | set(r3) | set(free_refs(st))
    unlisted = sorted(set(r3) - set(listed))

    def new_name():
        x = rng.random()
        if x < 0.82:
            fresh[0] += 1
            return "N%d" % fresh[0]
        if x < 0.97:
            cand = [n for n in ECU_POOL if n not in inuse]
            if cand:
                return rng.choice(cand)
            fresh[0] += 1
            return "N%d" % fresh[0]
        return rng.choice(sorted(inuse)) if inuse else "N0"      # already in use: outside the quantifier (neither judged nor tied)

    def some_ecu():
        x = rng.random()
        if x < 0.7 and inuse:
            return rng.choice(sorted(inuse))
        return rng.choice(ECU_POOL)

    k = rng.choices(["rename_name", "rename_inst", "del_inst", "del_foreign", "del_glob", "update", "obsolete", "add_sr", "del_sr"],
                    [22, 10, 10, 3, 17, 9, 9, 11, 9])[0]
    if k == "rename_name":
        x = rng.random()
        if x < 0.75 and listed:
            old = rng.choice(listed)
        elif x < 0.9 and unlisted:
            old = rng.choice(unlisted)                         # referenced but not listed
        else:
            old = rng.choice(ECU_POOL + ["Nobody"])
        return (k, old, new_name())
    if k == "rename_inst":
        if not listed:
            return ("update",)
        return (k, rng.randrange(len(listed)), new_name())
    if k == "del_inst":
        if not listed:
            return ("update",)
        return (k, rng.randrange(len(listed)))
    if k == "del_foreign":
        if listed and rng.random() < 0.6:
            n, p = rng.choice(st["ecus"])
            return (k, n, rng.choice([p, p + 40, 0]))          # same name, usually other content; sometimes an equal copy
        return (k, rng.choice(ECU_POOL), rng.choice([0, 41]))
    if k == "del_glob":
        x = rng.random()
        if x < 0.25 and listed:
            return (k, rng.choice(listed))                     # a plain name
        if x < 0.40 and listed:
            n = rng.choice(listed)
            i = rng.randrange(len(n) + 1)
            return (k, rng.choice([n[:i] + "*", "*" + n[i:], n[:i] + "?" + n[i + 1:], n[:i] + "*" + n[i + 1:]]))
        if x < 0.75 and listed:
            return (k, derive_pattern(rng, rng.choice(listed), rng.choice(KIND_SETS)))
        return (k, rng.choice(ECU_PATTERNS))
    if k in ("update", "obsolete"):
        return (k,)
    fnames = [f[0] for f in st["frames"]]
    snames = [s[0] for f in st["frames"] for s in f[4]]
    gf = rng.choice(FRAME_PATTERNS + fnames + fnames + [derive_pattern(rng, f, rng.choice(KIND_SETS)) for f in fnames])
    gs = rng.choice(SIG_PATTERNS + snames + snames + [derive_pattern(rng, x, rng.choice(KIND_SETS)) for x in snames])
    return (k, gf, gs, some_ecu())


def freeze(x):
    if isinstance(x, dict):
        return tuple(sorted((k, freeze(v)) for k, v in x.items()))
    if isinstance(x, (list, tuple)):
        return tuple(freeze(v) for v in x)
    return x


# ------------------------------------------------------------------ shrinking
def shrink(C, desc, ops, key):
    """smallest (desc, ops) found that still fails with this key"""
    def fails(d, o):
        try:
            _, f, _ = run_sequence(C, d, o)
        except Exception:
            return False
        return any(x[1] == key for x in f)

    _, f, _ = run_sequence(C, desc, ops)
    first = min(x[0] for x in f if x[1] == key)
    ops = list(ops[:first + 1])
    changed = True
    while changed:
        changed = False
        for i in range(len(ops) - 1):
            cand = ops[:i] + ops[i + 1:]
            if fails(desc, cand):
                ops, changed = cand, True
                break
    import copy
    changed = True
    while changed:
        changed = False
        cands = []
        for i in range(len(desc["frames"])):
            d = copy.deepcopy(desc); del d["frames"][i]; cands.append(d)
            for j in range(len(desc["frames"][i]["sigs"])):
                d = copy.deepcopy(desc); del d["frames"][i]["sigs"][j]
                d["frames"][i]["rx"] = nub([r for s in d["frames"][i]["sigs"] for r in s["recv"]]); cands.append(d)
                for q in range(len(desc["frames"][i]["sigs"][j]["recv"])):
                    d = copy.deepcopy(desc); del d["frames"][i]["sigs"][j]["recv"][q]
                    d["frames"][i]["rx"] = nub([r for s in d["frames"][i]["sigs"] for r in s["recv"]]); cands.append(d)
            for q in range(len(desc["frames"][i]["tx"])):
                d = copy.deepcopy(desc); del d["frames"][i]["tx"][q]; cands.append(d)
        for i in range(len(desc["free"])):
            d = copy.deepcopy(desc); del d["free"][i]; cands.append(d)
        for i in range(len(desc["ecus"])):
            d = copy.deepcopy(desc); del d["ecus"][i]; cands.append(d)
        for d in cands:
            if fails(d, ops):
                desc, changed = d, True
                break
    return desc, ops


# ------------------------------------------------------------------ the check
def run(chk):
    chk.rule = ("matrices of 3..8 ECUs from a pool of names that are prefixes of each other (listed / referenced-not-listed / listed-not-referenced / "
                "referenced by a free signal only), 1..5 frames x 0..4 signals with 0..4 receivers, 0..3 senders, an ECU that sends one frame and "
                "receives in another; sequences of 1..12 operations chosen against the current state (rename by name / by object, del by object / "
                "foreign object / glob pattern with * and ?, update_ecu_list, delete_obsolete_ecus, add/del_signal_receiver with globs); the whole "
                "state is compared after every operation (reference lists as multisets, appended ECUs in any order - the property fixes no position); 40% of the sequences (25% thorough) are repeated on three other constructions of the same "
                "definition (shared list objects, copy.copy clones, deepcopy) and compared with the plain run. Steps outside the quantifier (a rename to a name in use, states with duplicate "
                "ECU names) are neither judged nor tied; the four witnesses of the *_refuted theorems are replayed and recorded only. non-trivial = some operation of the sequence changed the ECU list "
                "or a reference list; distinct by (matrix, operations). Glob: all patterns of length <= 4 over {a,b,*,?} x all names of length <= 4 "
                "over {a,b}, plus random pairs over an alphabet with regex metacharacters; classes: all patterns of length <= 4 over {a,b,[,],!,-} x "
                "names of length <= 2 over {a,b,-,!,]} plus random ones with ranges; operation patterns use every subset of {*, ?, [..]}")
    ok = chk.build_and_audit()
    cm = core.import_impl()
    C = cm.canmatrix
    rng = chk.rng
    thorough = chk.tier == "thorough"
    lines, expect, info = [], [], []

    def add(cmd, groups, exp, inf):
        lines.append(core.fmt_case(cmd, groups))
        expect.append(exp)
        info.append(inf)

    # ---- fixed cases first: the Coq witnesses and example, replayed on the implementation ----
    fixed = [
        ("example", {"ecus": [("A", 1), ("AB", 2), ("B", 3), ("C", 4)],
                     "frames": [{"name": "F1", "pay": 0x100, "tx": ["A"], "rx": ["AB", "B"],
                                 "sigs": [{"name": "s1", "pay": 10, "recv": ["AB", "B"]}, {"name": "s2", "pay": 11, "recv": ["B"]}]},
                                {"name": "F2", "pay": 0x101, "tx": ["B"], "rx": ["A", "X"], "sigs": [{"name": "t", "pay": 12, "recv": ["A", "X"]}]}],
                     "free": [{"name": "f", "pay": 13, "recv": ["C"]}]},
         [("rename_name", "A", "N"), ("del_glob", "A*"), ("update",), ("obsolete",)]),
        ("witness-dup-rename", {"ecus": [("A", 0)], "frames": [{"name": "F", "pay": 0x100, "tx": [], "rx": ["A"],
                                                             "sigs": [{"name": "s", "pay": 1, "recv": ["A", "A"]}]}], "free": []},
         [("rename_inst", 0, "N")]),
        ("witness-dup-del", {"ecus": [("A", 0)], "frames": [{"name": "F", "pay": 0x100, "tx": [], "rx": ["A"],
                                                          "sigs": [{"name": "s", "pay": 1, "recv": ["A", "A"]}]}], "free": []},
         [("del_inst", 0)]),
        ("witness-space-update", {"ecus": [], "frames": [{"name": "F", "pay": 0x100, "tx": [" A"], "rx": [], "sigs": []},
                                                         {"name": "G", "pay": 0x101, "tx": [" A"], "rx": [], "sigs": []}], "free": []},
         [("update",)]),
        ("witness-star-obsolete", {"ecus": [("A*", 0), ("AB", 0)], "frames": [{"name": "F", "pay": 0x100, "tx": ["AB"], "rx": [], "sigs": []}], "free": []},
         [("obsolete",)]),
    ]
    witness_obs = {}
    seqs = [(tag, d, o, True) for tag, d, o in fixed]

    # ---- generated sequences ----
    n_env = 1500 if not thorough else 60000
    n_exo = 60 if not thorough else 2000         # per exotic kind
    # matrices outside the envelope (duplicate entries, stale receiver lists, blanks or * ? in names, duplicate ECUs) are neither
    # judged nor tied: they are generated only when the property is deliberately evaluated out there
    plan = [(None, n_env)] + ([(e, n_exo) for e in ("dup-ref", "stale", "space", "meta", "dup-ecu")] if CLAIM_OUTSIDE_ENVELOPE else [])
    for exotic, n in plan:
        for _ in range(n):
            desc = gen_desc(rng, exotic)
            seqs.append((exotic or "envelope", desc, None, False))

    shrunk_keys = set()
    variant_share = 0.4 if not thorough else 0.25
    for tag, desc, ops, is_fixed in seqs:
        # generate the operations against the evolving state (so that most of them hit something)
        if ops is None:
            db, _ = build(C, desc)
            base = Base(db, desc)
            st = state(db, base)
            ops = []
            fresh = [0]
            for _ in range(rng.randrange(1, 13)):
                op = gen_op(rng, st, fresh)
                ops.append(op)
                try:
                    apply_op(C, db, op)
                except Exception:
                    break
                st = state(db, base)
        states, fails, notes = run_sequence(C, desc, ops)
        changed = False
        for s in states:
            if s is None or s[0] == "skip":
                continue
            op, pre, post = s
            chk.count("op:" + op[0])
            if op[0] == "del_glob":
                chk.count("pattern-kinds:del_glob:" + kinds_of(op[1]))
                hit = [n for n, _ in pre["ecus"] if fnmatch.fnmatchcase(n, op[1])]
                if "[" in op[1]:
                    chk.count("del_glob with a class: selects %s" % ("some listed ECU" if hit else "nothing"))
                    if hit and "*" not in op[1] and "?" not in op[1]:
                        chk.count("del_glob with a class and no * or ?: selects some listed ECU")
            if op[0] in ("add_sr", "del_sr"):
                chk.count("pattern-kinds:%s:%s" % (op[0], kinds_of(op[1] + op[2])))
            if (pre["ecus"], pre["frames"]) != (post["ecus"], post["frames"]):
                changed = True
                chk.count("op-changed-something:" + op[0])
            if op[0] in ("rename_name", "rename_inst"):
                names = [n for n, _ in pre["ecus"]]
                old = (op[1] if op[0] == "rename_name" else names[op[1]])
                if old in names or op[0] == "rename_inst":
                    send = [f[0] for f in pre["frames"] if old in f[2]]
                    recv = [f[0] for f in pre["frames"] if old in f[3]]
                    if send and recv and set(send) != set(recv):
                        chk.count("rename: sender of one frame and receiver in another")
                elif old in refs3(pre):
                    chk.count("rename: referenced but not listed")
            if op[0] == "obsolete" and set(n for n, _ in pre["ecus"]) & (set(free_refs(pre)) - set(refs3(pre))):
                chk.count("obsolete: an ECU referenced by a free signal only")
        for nt in set(notes):
            chk.count("outside-envelope-step:" + nt)
        chk.count("stream:" + tag)
        chk.count("ops-per-sequence:%d" % len(ops))
        chk.case((tag, freeze(desc), freeze(ops)), changed)
        if tag.startswith("witness"):
            last = [s for s in states if s and s[0] != "skip"][-1][2]
            witness_obs[tag] = last
        for step, key, what, exp, obs in fails:
            d2, o2 = desc, ops
            if key not in shrunk_keys:
                shrunk_keys.add(key)
                try:
                    d2, o2 = shrink(C, desc, ops, key)
                    st2, f2, _ = run_sequence(C, d2, o2)
                    hit = [x for x in f2 if x[1] == key]
                    if hit:
                        step, _, what, exp, obs = hit[0]
                except Exception:
                    d2, o2 = desc, ops
            chk.violation(key, what, dict(matrix=d2, operations=[list(o) for o in o2], failing_step=step, stream=tag), exp, obs)
        # the same definition arrived at through constructions whose objects share parts (same list object in two
        # places, copy.copy clones, deepcopy): the operations must not see the difference
        if tag in ("envelope", "example") and not fails and (is_fixed or rng.random() < variant_share):
            for variant in VARIANTS:
                # add/del_signal_receiver edit ONE signal's list in place: with two signals defined on one list object the
                # definitions themselves differ, so the shared-list constructions are probed with the property's four operations
                vops = ops if variant == "cloned-frames" else [o for o in ops if o[0] in PROPERTY_OPS]
                if not vops:
                    continue
                vseed = rng.randrange(1 << 30)
                _, nshared = build(C, desc, variant, vseed)
                chk.count("construction:%s" % variant)
                chk.count("construction:%s: slots sharing an object" % variant, nshared)
                diff = variant_differs(C, desc, vops, variant, vseed)
                chk.case(("variant", variant, vseed, freeze(desc), freeze(vops)), nshared > 0)
                if diff is not None:
                    key = "shared-objects:" + variant
                    d2, o2 = desc, vops
                    if key not in shrunk_keys:
                        shrunk_keys.add(key)
                        try:
                            d2, o2 = shrink_by(lambda d, o: variant_differs(C, d, o, variant, vseed) is not None, desc, vops)
                            diff = variant_differs(C, d2, o2, variant, vseed) or diff
                        except Exception:
                            d2, o2 = desc, vops
                    chk.violation(key, diff[1], dict(matrix=d2, operations=[list(o) for o in o2], failing_step=diff[0], construction=variant,
                                                    construction_seed=vseed), diff[2], diff[3])
        # model case: the matrix, the ops as the implementation saw them, the states after each op
        if any(s is None for s in states):
            continue
        # one model case per operation, started from the implementation's state before it: model step(pre) vs the implementation's
        # state after it, both in the canonical form of `canon` (what the property constrains)
        for si, s in enumerate(states):
            if s[0] == "skip":
                continue
            op, pre, post = s
            why = in_envelope(pre) or outside_quantifier(op, pre)
            if why:
                chk.count("step neither judged nor tied: " + why)
                continue
            chk.count("steps tied to the model")
            add(1101, enc_state(pre) + [enc_op(op, pre)], canon(project(op, pre, post), len(pre["ecus"])),
                dict(stream=tag, matrix=desc, operations=[list(o) for o in ops], step=si, n_listed=len(pre["ecus"]), op=op, pre=pre))

    # the witnesses of props/C11.v behave on the implementation as the model says (recorded, not claimed as violations)
    chk.extra["outside_envelope_witnesses_on_implementation"] = {
        "rename A->N with signal receivers [A, A]": str(witness_obs.get("witness-dup-rename", {}).get("frames")),
        "del_ecu(A) with signal receivers [A, A]": str(witness_obs.get("witness-dup-del", {}).get("frames")),
        "update_ecu_list with sender ' A' of two frames": str(witness_obs.get("witness-space-update", {}).get("ecus")),
        "delete_obsolete_ecus with ECUs 'A*' (unreferenced), 'AB' (sender)": str(witness_obs.get("witness-star-obsolete", {}).get("ecus")),
    }
    chk.sample(dict(matrix=fixed[0][1], operations=fixed[0][2]))
    for tag, desc, ops, _ in seqs[len(fixed):len(fixed) + 2]:
        chk.sample(dict(stream=tag, matrix=desc))

    # ---- glob and strip ----
    def words(alpha, maxlen):
        out = [""]
        layer = [""]
        for _ in range(maxlen):
            layer = [w + c for w in layer for c in alpha]
            out += layer
        return out
    pats = words("ab*?", 4)
    names = words("ab", 4)
    pairs = [(p, n) for p in pats for n in names]
    alpha2 = "aB1_.*?\\^$+(){}|]!-\n "
    for _ in range(3000 if not thorough else 40000):
        p = "".join(rng.choice(alpha2 + "**??") for _ in range(rng.randrange(0, 8)))
        n = "".join(rng.choice(alpha2) for _ in range(rng.randrange(0, 9)))
        if rng.random() < 0.5:
            # derive the name from the pattern so that matches are frequent
            n = "".join((rng.choice(["", "a", "B1", "_."]) if c == "*" else (rng.choice(alpha2) if c == "?" else c)) for c in p)
            if rng.random() < 0.3 and n:
                i = rng.randrange(len(n))
                n = n[:i] + rng.choice(alpha2) + n[i + 1:]
        pairs.append((p, n))
    nmatch = 0
    for p, n in pairs:
        r = fnmatch.fnmatchcase(n, p)
        nmatch += int(r)
        chk.case(("glob", p, n), "*" in p or "?" in p)
        add(1102, [cs(p), cs(n)], [[int(r)]], dict(glob=(p, n)))
    # patterns with character classes against glob_match_cls
    import re
    cpairs = [(p, n) for p in words("ab[]!-", 4) for n in words("ab-!]", 2)]
    alpha3 = "abcd019[]!-^\\*?&~|"
    for _ in range(6000 if not thorough else 80000):
        p = "".join(rng.choice(alpha3 + "[[]]--") for _ in range(rng.randrange(0, 9)))
        if rng.random() < 0.5:
            # a name made from the pattern: each closed class replaced by one of its characters, * and ? by something
            n = re.sub(r"\[!?\]?[^\]]*\]", lambda m: rng.choice(m.group(0)[1:-1] or "a"), p)
            n = "".join((rng.choice(["", "a", "01"]) if c == "*" else (rng.choice("abc0") if c == "?" else c)) for c in n)
        else:
            n = "".join(rng.choice("abcd019[]!-^\\*&~|") for _ in range(rng.randrange(0, 4)))
        cpairs.append((p, n))
    ncm = 0
    for p, n in cpairs:
        r = fnmatch.fnmatchcase(n, p)
        ncm += int(r)
        chk.case(("globc", p, n), "[" in p)
        add(1104, [cs(p), cs(n)], [[int(r)]], dict(glob_cls=(p, n)))
    chk.count("glob-class-pairs", len(cpairs))
    chk.count("glob-class-matching", ncm)
    chk.count("glob-pairs", len(pairs))
    chk.count("glob-matching", nmatch)
    ws = [" ", "\t", "\n", "\x0b", "\x0c", "\r", "\x1c", "\x1f", "\x85", "\xa0", "\u2003", "\u3000", "\u200b", "\u1680", "\u2028", "a", "B", "_"]
    for _ in range(400):
        s = "".join(rng.choice(ws) for _ in range(rng.randrange(0, 7)))
        add(1103, [cs(s)], [cs(s.strip())], dict(strip=s))
    chk.count("strip-cases", 400)

    if not ok:
        chk.ties["correspondence"] = "not run (build failed)"
        return
    out = core.run_model(lines)
    bad = 0
    for inf, exp, o in zip(info, expect, out):
        got = core.parse_out(o) if o.strip() else []
        if "matrix" in inf:
            got = canon(project(inf["op"], inf["pre"], dec_state(got[1:])), inf["n_listed"]) if got[:1] == [[99]] else got
            if got != exp:
                bad += 1
                chk.tie_break("ecuops", {k: v for k, v in inf.items() if k not in ("pre",)}, got, exp)
        elif (got if got != [[]] else []) != (exp if exp != [[]] else []):
            bad += 1
            chk.tie_break("glob", inf, got[:40], exp[:40])
    if len(out) != len(lines):
        chk.tie_break("ecuops", "driver returned %d lines for %d cases" % (len(out), len(lines)), None, None)
    chk.ties["correspondence"] = {"suite": "ecuops (cmd 1101: one step from the implementation's state before each op), glob (1102), glob with classes (1104), strip (1103)", "cases": len(lines),
                                  "operation steps": sum(1 for i in info if "matrix" in i), "disagreements": bad,
                                  "compared": "modulo position inside reference lists and order of appended ECUs (canon)"}
    # in-Coq shard: short sequences + glob pairs
    # (the shard cross-checks the extracted driver: for the matrix cases its expected answer is the driver's own answer, which the
    #  comparison above related to the implementation modulo `canon`)
    seq_idx = [i for i, inf in enumerate(info) if "matrix" in inf and len(lines[i]) < 1500]
    glob_idx = [i for i, inf in enumerate(info) if "glob" in inf or "glob_cls" in inf]
    idx = rng.sample(seq_idx, min(140, len(seq_idx))) + rng.sample(glob_idx, min(150, len(glob_idx)))
    shard = []
    for i in sorted(set(idx)):
        c, _, groups = lines[i].partition(" ")
        e = expect[i] if "matrix" not in info[i] else (core.parse_out(out[i]) if out[i].strip() else [])
        shard.append((int(c, 16), [[int(t, 16) for t in g.split()] for g in groups.split("|")], e))
    mm, log = core.coq_shard(shard, "c11")
    chk.ties["vm_compute_shard"] = {"cases": len(shard), "mismatches": mm}
    if mm is None:
        chk.obligation_failures.append("in-Coq shard failed to evaluate")
        chk.build_log = log[-3000:]
    else:
        for i in mm:
            chk.tie_break("ecuops-shard", shard[i][1], "vm_compute differs", shard[i][2])
