"""C15: readers recover exactly what a well-formed file describes, whoever wrote it.

SEARCH: abstract descriptions (netdesc.py) -> independent writers (fmt_render_*.py) with a vector of lexical choices -> the reader under
test -> comparison with the DESCRIPTION (c15_lib.expected/observed), reader noise (stdout, error log, load_errors, exceptions), and a
metamorphic comparison of two renderings of one description.  Every failure is attributed: if the plainest rendering fails too the key
names the field class (`json-frame-comment`), otherwise the lexical choices are minimised one by one and the key names the surviving
ones (`dbc-sp.BO_`, `arxml-num.tt=expE`, `kcd-msglen=auto`).
TIE: utils.decode_number / decimal.Decimal on generated number renderings vs model/Readers.v's parser; arxml.decode_compu_method on
generated COMPU-METHOD elements vs the model's rational-coefficient decoding; eval_type_of_signal vs the model."""
import copy
import importlib
import json
import os
import time

import core
import c15_lib
import netdesc

LEVEL_NOTE = ("PARTIAL BY DESIGN: the theorems (props/C15.v) are about model/Readers.v - the lexical equivalence of number renderings under a "
              "Decimal(text)/decode_number model, order-independence of attribute lookup, defaults of omitted optional KCD attributes, "
              "decode_compu_method's rational coefficients with denominators, base-type encodings, commutation of DBC-like statements on "
              "different objects.  That the readers' regular expressions and XML walks accept every permitted spelling is NOT proved (a statement "
              "about re/lxml/shlex/json): it is searched by independent writers per format over seeded descriptions and lexical choices. "
              "Assumptions: KCD big-endian `offset` and SYM `-m` start are the MSB in sequential MSB0 numbering (shipped samples, cantools agree); "
              "DBF max/min fields are physical limit / factor and attribute definitions are name,TYPE,default,min,max (read off the BUSMASTER-written "
              "sample against the DBC sample of the same network); numeric attribute values are compared by value, not by their text.")

RENDER = {f: importlib.import_module("fmt_render_" + f) for f in netdesc.FORMATS}
N_QUICK = {"dbc": 3000, "dbf": 2000, "sym": 2000, "kcd": 2000, "json": 2000, "arxml": 900}      # descriptions; two renderings each
N_THOROUGH = {"dbc": 50000, "dbf": 25000, "sym": 40000, "kcd": 40000, "json": 25000, "arxml": 15000}


# one root cause, one key: (format, lexical item that must be in the minimal set | field class) -> key
ROOT_LEX = [("json", "num.kind", "native", "json-native-number-through-float")]
ROOT_CLASS = {"dbf-attrdef-default": "dbf-attrdef-field-order", "dbf-attrdef-min": "dbf-attrdef-field-order",
              "dbf-attrdef-max": "dbf-attrdef-field-order"}


def lex_part(lex):
    parts = []
    for k in sorted(lex):
        if k == "order_seed":
            continue
        v = lex[k]
        if k.startswith("sp.") or v is True:
            parts.append(k)
        else:
            names = {"\r\n": "crlf", "\t": "tab", "": "none", None: "nows", " ": "blank", "  ": "2blanks", "    ": "4blanks", "'": "apos"}
            if k.endswith("colon"):
                names = {": ": "tight", ":": "none", " :": "left", " : ": "spaced"}
            elif k in ("recvsep", "txsep", "enumsep", "mulsep"):
                names = {", ": "comma-blank", ",": "comma"}
            elif k == "muldash":
                names = {" - ": "blanks"}
            parts.append("%s=%s" % (k, names.get(v, v)))
    return "+".join(parts)


class Runner(object):
    def __init__(self, chk, cm):
        self.chk = chk
        self.cm = cm
        self.loads = 0
        self.known_keysets = {f: [] for f in netdesc.FORMATS}
        self.unexplained = {}     # class -> first differing leaf that binary-double conversion does not explain

    def classes(self, fmt, desc, lex, enc, want_db=False):
        """failure classes of one rendering: {class: detail}"""
        R = RENDER[fmt]
        try:
            data, opts = R.render_with_opts(desc, lex, enc)
        except UnicodeEncodeError:
            # this charset cannot carry the description at all: no file, nothing to fail
            self.all_diffs = {}
            return ({}, None, b"") if want_db else {}
        dbs, problems = c15_lib.load_all(self.cm, fmt, data, opts)
        self.loads += 1
        out = {}
        self.all_diffs = {}       # every differing leaf of the last rendering, per class
        views = netdesc.bus_views(desc, fmt)
        multi = len(views) > 1
        db = None
        if dbs is not None:
            if not multi:
                if len(dbs) != 1:
                    problems.append("reader returned %d matrices for one bus" % len(dbs))
                db = [list(dbs.values())[0]]
            elif sorted(dbs) != sorted(n for n, _ in views):
                problems.append("buses: file describes %s, reader returned %s" % (sorted(n for n, _ in views), sorted(dbs)))
            else:
                db = [dbs[n] for n, _ in views]
        for p in problems:
            cls = "noise-" + p.split(":")[0].split(" ")[0]
            if p.startswith("exception"):
                cls = "noise-" + p.split(":")[0].replace(" ", "-")
            out.setdefault(cls, ("<reader noise>", None, p))
        if db is not None:
            for (bus_name, view), one in zip(views, db):
                # each bus / cluster must say exactly what the file says for THAT bus
                exp = c15_lib.expected(view, fmt)
                obs = c15_lib.observed(one, view, fmt)
                for path, a, b in c15_lib.diff(exp, obs):
                    cls = c15_lib.classify(path)
                    if multi:
                        cls, path = "multibus-" + cls, "/bus %s%s" % (bus_name, path)
                    out.setdefault(cls, (path, a, b))
                    self.all_diffs.setdefault(cls, []).append((path, a, b))
        if want_db:
            return out, db, data
        return out

    def attribute(self, fmt, desc, lex, enc, cls):
        """-> (key, minimal lex, minimal enc)"""
        R = RENDER[fmt]
        enc0 = R.ENCODINGS[0]
        if cls.startswith("multibus-"):
            # several buses / clusters in one file: one key per field class, whatever element order or white space the failure
            # happens to need (which bus's triggering a reader meets first depends on them)
            plain_fails = cls in self.classes(fmt, desc, {}, enc0)
            return "%s-%s" % (fmt, cls), ({} if plain_fails else dict(lex)), (enc0 if plain_fails else enc)
        if cls in self.classes(fmt, desc, {}, enc0):
            key = "%s-%s" % (fmt, cls)
            return ROOT_CLASS.get(key, key), {}, enc0
        cur = dict(lex)
        # fast path: a lexical key set seen before
        for ks in self.known_keysets[fmt]:
            if all(k in cur and cur[k] == v for k, v in ks.items()):
                sub = dict(ks)
                if "order_seed" in cur:
                    sub["order_seed"] = cur["order_seed"]
                if cls in self.classes(fmt, desc, sub, enc0):
                    for f, k, v, key in ROOT_LEX:
                        if f == fmt and ks.get(k) == v and self.float_explained(fmt, desc, sub, enc0, cls):
                            return key, sub, enc0
                    return "%s-%s" % (fmt, lex_part(ks)), sub, enc0
        cur_enc = enc
        if enc != enc0 and cls in self.classes(fmt, desc, cur, enc0):
            cur_enc = enc0
        for k in sorted(cur):
            if k == "order_seed":
                continue
            trial = {a: b for a, b in cur.items() if a != k}
            if cls in self.classes(fmt, desc, trial, cur_enc):
                cur = trial
        ks = {k: v for k, v in cur.items() if k != "order_seed"}
        if not any(k.startswith("order.") for k in ks):
            cur.pop("order_seed", None)
        if ks and ks not in self.known_keysets[fmt]:
            self.known_keysets[fmt].append(ks)
        for f, k, v, key in ROOT_LEX:
            if f == fmt and ks.get(k) == v and self.float_explained(fmt, desc, cur, cur_enc, cls):
                return key, cur, cur_enc
        part = lex_part(ks)
        if cur_enc != enc0:
            part = (part + "+" if part else "") + "encoding=" + cur_enc
        return "%s-%s" % (fmt, part or cls), cur, cur_enc

    def float_explained(self, fmt, desc, lex, enc, cls):
        """The known finding json-native-number-through-float covers exactly this: the loaded number is the binary double nearest to
        the written decimal.  Every differing leaf of the class must be explained that way; 0, 0.0, small integers and other values a
        double holds exactly are NOT covered and have to come back as written."""
        import decimal
        self.classes(fmt, desc, lex, enc)
        diffs = self.all_diffs.get(cls, [])
        exp_all = c15_lib.expected(desc, fmt)
        if not diffs:
            return False
        for path, a, b in diffs:
            try:
                da, dbb = decimal.Decimal(str(a)), decimal.Decimal(str(b))
            except (decimal.InvalidOperation, ValueError, TypeError):
                return False
            if da == dbb:
                return False
            if decimal.Decimal(float(da)).normalize() == dbb.normalize() and decimal.Decimal(float(da)) != da:
                continue            # the written decimal itself is not a double (both sides at the context's 28 digits)
            # a limit the reader derives (offset + raw*factor) from an inexactly loaded factor/offset: double-precision noise
            # relative to the signal's own magnitudes - a dropped or replaced value is off by orders of magnitude more
            parts = [x for x in path.split("/") if x]
            scale = abs(da)
            if len(parts) == 5 and parts[0] == "frames" and parts[2] == "signals" and parts[4] in ("min", "max", "start_value"):
                sig = exp_all.get("frames", {}).get(parts[1], {}).get("signals", {}).get(parts[3], {})
                inexact = False
                for k in ("factor", "offset"):
                    try:
                        x = decimal.Decimal(str(sig.get(k)))
                        scale = max(scale, abs(x) * ((1 << len(sig.get("bits", []))) if k == "factor" else 1))
                        inexact = inexact or decimal.Decimal(float(x)) != x
                    except (decimal.InvalidOperation, ValueError, TypeError):
                        pass
                if inexact and abs(da - dbb) <= scale * decimal.Decimal("1e-15"):
                    continue
            self.unexplained[cls] = (path, a, b)
            return False
        return True

    def shrink(self, fmt, desc, lex, enc, cls, budget=40):
        """drop frames / signals / decorations while the class still fails"""
        cur = copy.deepcopy(desc)

        def still(d):
            try:
                return cls in self.classes(fmt, d, lex, enc)
            except Exception:
                return False
        n = 0
        i = 0
        while i < len(cur["frames"]) and n < budget and len(cur["frames"]) > 1:
            t = copy.deepcopy(cur)
            del t["frames"][i]
            n += 1
            if still(t):
                cur = t
            else:
                i += 1
        for fr in list(cur["frames"]):
            j = 0
            while j < len(fr["signals"]) and n < budget:
                sg = fr["signals"][j]
                if sg["mux"] and sg["mux"]["role"] == "multiplexer":
                    j += 1
                    continue
                t = copy.deepcopy(cur)
                tf = [f for f in t["frames"] if f["name"] == fr["name"]][0]
                del tf["signals"][j]
                n += 1
                if still(t):
                    cur = t
                    fr = [f for f in cur["frames"] if f["name"] == fr["name"]][0]
                else:
                    j += 1
        return cur


C15_COQ = ["model/Readers.v", "proofs/C15_numbers.v", "proofs/C15_misc.v", "model/Run_C15.v"]


def ensure_vo():
    """Until model/Readers.v and the C15 proof files are listed in _CoqProject, `make` does not know them: compile the chain
    (in dependency order, under the build lock) when an object file is missing or older than its source or than lib/Prelude.vo."""
    core.build()
    with core.Lock():
        ref = os.path.getmtime(os.path.join(core.COQ, "lib", "Prelude.vo")) if os.path.exists(os.path.join(core.COQ, "lib", "Prelude.vo")) else 0
        stale = False
        for rel in C15_COQ:
            src = os.path.join(core.COQ, rel)
            vo = src + "o"
            if not os.path.exists(src):
                continue
            if stale or not os.path.exists(vo) or os.path.getmtime(vo) < os.path.getmtime(src) or os.path.getmtime(vo) < ref:
                stale = True
                core.sh("timeout 600 coqc -Q . CM %s" % rel, cwd=core.COQ, timeout=630)
            ref = max(ref, os.path.getmtime(vo)) if os.path.exists(vo) else ref


def run(chk):
    thorough = chk.tier == "thorough"
    chk.rule = ("per format: seeded abstract descriptions inside the format's envelope (1-3 frames, 1-6 signals each incl. Motorola, signed, float, "
                "multiplexed, value tables, units incl. non-ASCII, comments, attributes with definitions where the format carries them), each rendered "
                "twice by the independent writer with independently drawn lexical choices (every 5th first rendering is the plainest one) and a "
                "drawn import encoding (DBC: the statement charset and the comment charset options are drawn independently); every rendering is one case. non-trivial = at least one non-default lexical choice; distinct by file bytes")
    ensure_vo()
    ok = chk.build_and_audit()
    cm = core.import_impl()
    import canmatrix.formats  # noqa
    import canmatrix as CM
    if os.environ.get("VERIF_C15_ASSUME_PROPOSED"):      # development aid only: treat my proposed entries as if they were recorded
        p = os.path.join(core.VERIF, "fixes", "C15_proposed_known_findings.json")
        if os.path.exists(p):
            chk.known += [k for k in json.load(open(p)) if k.get("property") == "C15"]
    rng = chk.rng
    runner = Runner(chk, CM)
    N = N_THOROUGH if thorough else N_QUICK
    if os.environ.get("VERIF_C15_SCALE"):       # development aid (mutation smoke tests): scale the number of descriptions
        N = {k: max(20, int(v * float(os.environ["VERIF_C15_SCALE"]))) for k, v in N.items()}
    reported = {}
    t_start = time.time()
    for fmt in netdesc.FORMATS:
        R = RENDER[fmt]
        for i in range(N[fmt]):
            desc = netdesc.gen_desc(rng, fmt)
            lex_a = {} if i % 5 == 0 else R.random_lex(rng)
            lex_b = R.random_lex(rng)
            feasible = []
            for e in R.ENCODINGS:
                try:
                    R.render_with_opts(desc, {}, e)
                    feasible.append(e)
                except UnicodeEncodeError:
                    pass
            enc_a = rng.choice(feasible)
            enc_b = rng.choice(feasible)
            if "+cm=" in enc_a or "+cm=" in enc_b:
                chk.count("%s:split-charset-options" % fmt)
            feats = set()
            for fr in desc["frames"]:
                for sg in fr["signals"]:
                    feats.add(sg["byte_order"])
                    feats.add(sg["type"])
                    if sg["mux"]:
                        feats.add("mux-" + ("ext" if sg["mux"].get("ranges") else sg["mux"]["role"]))
                    if sg["values"]:
                        feats.add("values")
                if fr["extended"]:
                    feats.add("extended-id")
            if desc["attr_defs"]:
                feats.add("attributes")
            if len({f["id"] for f in desc["frames"]}) < len(desc["frames"]):
                feats.add("std-ext-same-number")
            if any(len(n) > 32 for n in [e["name"] for e in desc["ecus"]] + [f["name"] for f in desc["frames"]]
                   + [s["name"] or "" for f in desc["frames"] for s in f["signals"]]):
                feats.add("long-names")
            if desc.get("buses"):
                feats.add("multi-bus")
                if any(f.get("shared") for b in desc["buses"] for f in b["frames"]):
                    feats.add("frame-shared-between-buses")
            if any(c15_lib.decode_probes(f) for f in desc["frames"]):
                feats.add("decode-probed")
            if any(s["min"] == 0 or s["max"] == 0 for f in desc["frames"] for s in f["signals"]):
                feats.add("zero-limit")
            for ft in feats:
                chk.count("%s:%s" % (fmt, ft))
            forms = []
            for lex, enc in ((lex_a, enc_a), (lex_b, enc_b)):
                try:
                    cl, db, data = runner.classes(fmt, desc, lex, enc, want_db=True)
                except AssertionError:
                    raise
                chk.case((fmt, hash(data)), bool([k for k in lex if k != "order_seed"]))
                chk.count("%s:renderings" % fmt)
                chk.count("%s:encoding=%s" % (fmt, enc))
                for k in lex:
                    if k != "order_seed":
                        chk.count("%s:lex:%s" % (fmt, k))
                if len(chk.samples) < 6 and i == 3 and lex is lex_b:
                    chk.sample(dict(format=fmt, lexical_choices=netdesc.to_jsonable(lex), encoding=enc, file_head=data[:300].decode("latin-1")))
                if not cl:
                    forms.append((db, lex, enc))
                    chk.count("%s:pass" % fmt)
                    continue
                chk.count("%s:fail" % fmt)
                done_keys = set()
                for cls in sorted(cl):
                    runner.unexplained.pop(cls, None)
                    key, mlex, menc = runner.attribute(fmt, desc, lex, enc, cls)
                    if key in done_keys:
                        continue
                    done_keys.add(key)
                    n = reported.get(key, 0)
                    reported[key] = n + 1
                    if n >= (2 if len(chk.violations) < 24 else 1):
                        # already documented with examples this run: count only (known findings are counted inside violation())
                        if any(k.get("key") == key for k in chk.known):
                            chk.violation(key, "see first examples", dict(format=fmt), None, None)
                        continue
                    sdesc = runner.shrink(fmt, desc, mlex, menc, cls) if n == 0 else desc
                    mcl = runner.classes(fmt, sdesc, mlex, menc)
                    path, a, b = mcl.get(cls, cl[cls])
                    if key.endswith("num.kind=native") and cls in runner.unexplained:
                        path, a, b = runner.unexplained[cls]      # show the leaf that is NOT the known float inexactness
                    data_s, opts_s = R.render_with_opts(sdesc, mlex, menc)
                    chk.violation(key, "reader does not recover the described %s from a well-formed %s file (%s)" % (cls, fmt.upper(), path),
                                  dict(format=fmt, encoding=menc, reader_options=opts_s, lexical_choices=netdesc.to_jsonable(mlex),
                                       description=netdesc.to_jsonable(sdesc), file=data_s.decode(menc.partition("+cm=")[0], "replace")[:6000]),
                                  netdesc.to_jsonable(a), netdesc.to_jsonable(b))
            if len(forms) == 2:
                fa = [c15_lib.metamorphic_form(x, fmt) for x in forms[0][0]]
                fb = [c15_lib.metamorphic_form(x, fmt) for x in forms[1][0]]
                d = [x for one_a, one_b in zip(fa, fb) for x in c15_lib.diff(one_a, one_b)]
                chk.count("%s:metamorphic-pairs" % fmt)
                if d:
                    key = "%s-metamorphic-%s" % (fmt, c15_lib.classify(d[0][0]))
                    reported[key] = reported.get(key, 0) + 1
                    if reported[key] > 2 and not any(k.get("key") == key for k in chk.known):
                        continue
                    chk.violation(key, "two renderings of one description load to different matrices (%s)" % d[0][0],
                                  dict(format=fmt, lexical_choices_a=netdesc.to_jsonable(forms[0][1]), lexical_choices_b=netdesc.to_jsonable(forms[1][1]),
                                       description=netdesc.to_jsonable(desc)), d[0][1], d[0][2])
        chk.count("%s:seconds" % fmt, round(time.time() - t_start, 1))
        t_start = time.time()
    chk.extra["reader_loads"] = runner.loads
    chk.extra["failure_keys_this_run"] = reported

    # ---------------- tie ----------------
    try:
        import c15_tie
    except ImportError:
        chk.ties["correspondence"] = "tie module not built yet"
        return
    c15_tie.run(chk, ok, CM)
