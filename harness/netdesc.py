"""C15: abstract network descriptions (plain Python data, no canmatrix objects) and a seeded generator that stays
inside each format's envelope (DESIGN.md Appendix A).

A description is a dict
  ecus:      [ {name, comment} ]
  frames:    [ {name, id, extended, length, senders:[ecu], comment, attributes:{name: value}, signals:[signal]} ]
  attr_defs: [ {name, object:'net'|'ecu'|'frame'|'signal', type:'INT'|'HEX'|'FLOAT'|'STRING'|'ENUM', min, max, values, default} ]
  net_attributes: {name: value}
a signal is
  {name, byte_order:'intel'|'motorola', start, width, type:'unsigned'|'signed'|'float', factor, offset, min, max (Decimal),
   unit, receivers:[ecu], mux: None | {'role':'multiplexer'} | {'role':'muxed','selector':int,'ranges':[(lo,hi)]|None,'muxer':name},
   values:{int: label}, comment, attributes:{name: value}}
`start` follows the DBC convention: LSB0 bit number (byte n//8, bit n%8 counted from the byte's least significant bit) of the
value's least significant bit for Intel, of its most significant bit for Motorola.
ENUM attribute values are given by their label; INT/HEX as int; FLOAT as Decimal; STRING as str.
All numbers that a file renders as text are decimal.Decimal or int, so the description denotes exact values.
"""
import decimal

D = decimal.Decimal

FORMATS = ["dbc", "dbf", "sym", "kcd", "json", "arxml"]


# ---------------------------------------------------------------------------------------------------------------
# payload bits of a described signal, straight from the DBC convention (independent of canmatrix and of layouts.py)
def desc_bits(sig):
    """LSB0 bit numbers, least significant value bit first for Intel, most significant value bit first for Motorola."""
    n = sig["start"]
    out = []
    if sig["byte_order"] == "intel":
        for _ in range(sig["width"]):
            out.append(n)
            n += 1
    else:
        for _ in range(sig["width"]):
            out.append(n)
            n = n + 15 if n % 8 == 0 else n - 1     # next less significant bit: down the byte, then top of the next byte
    return out


def motorola_lsb(sig):
    """LSB0 number of the least significant bit of a Motorola signal"""
    return desc_bits(sig)[-1]


def msb0(n):
    """LSB0 bit number -> sequential MSB0 number (reading order of the payload)"""
    return 8 * (n // 8) + 7 - n % 8


def raw_range(sig):
    w = sig["width"]
    if sig["type"] == "signed":
        return -(1 << (w - 1)), (1 << (w - 1)) - 1
    return 0, (1 << w) - 1


# ---------------------------------------------------------------------------------------------------------------
# what a format can carry (the envelope); everything not listed is not generated for that format
ENV = {
    "dbc": dict(same_number_pairs=True, ecus=True, ecu_comments=True, frame_comments=True, signal_comments=True, multiline=True, senders="many", receivers=True,
                motorola=True, signed=True, floats=True, mux=["none", "none", "simple", "extended"], values=True, neg_values=True,
                attributes=["net", "ecu", "frame", "signal"], attr_types=["INT", "HEX", "FLOAT", "STRING", "ENUM"], unit_max=32, nonascii=True,
                limits=True, ext=True, unique_signals=False, static_with_mux=True, min_len=1, mux_named=True, groups=True, value_tables=True, empty_string_attr=True, long_names=True, cp1252_words=True),
    "dbf": dict(ecus=True, ecu_comments=True, frame_comments=True, signal_comments=True, multiline=False, senders="one", receivers=True,
                motorola=True, signed=True, floats=True, mux=["none", "none", "simple"], values=True, neg_values=False,
                attributes=["net", "ecu", "frame", "signal"], attr_types=["INT", "HEX"], unit_max=16, nonascii=True,
                limits=True, ext=True, unique_signals=False, static_with_mux=True, min_len=1, mux_named=True, no_comma=True,
                limits_times_factor=True),
    "sym": dict(same_number_pairs=True, ecus=False, ecu_comments=False, frame_comments=True, signal_comments=True, multiline=False, senders="none", receivers=False,
                motorola=True, signed=True, floats=True, mux=["none", "none", "simple"], values=True, neg_values=False,
                attributes=[], attr_types=[], unit_max=16, nonascii=True,
                limits=True, ext=True, unique_signals=False, static_with_mux=False, min_len=1, mux_named=False, sym_switches=True),
    "kcd": dict(multi_bus=True, same_number_pairs=True, ecus=True, ecu_comments=False, frame_comments=True, signal_comments=True, multiline=True, senders="many", receivers=True,
                motorola=True, signed=True, floats=True, mux=["none", "none", "simple"], values=True, neg_values=False,
                attributes=[], attr_types=[], unit_max=32, nonascii=True,
                limits=True, ext=True, unique_signals=False, static_with_mux=True, min_len=1, mux_named=True, mux_plain=True),
    "json": dict(same_number_pairs=True, ecus=True, ecu_comments=True, frame_comments=True, signal_comments=True, multiline=True, senders="many", receivers=True,
                 motorola=True, signed=True, floats=True, mux=["none", "none", "simple"], values=True, neg_values=True,
                 attributes=["net", "frame", "signal"], attr_types=["INT", "HEX", "FLOAT", "STRING", "ENUM"], unit_max=32, nonascii=True,
                 limits=True, ext=True, unique_signals=False, static_with_mux=True, min_len=1, mux_named=True, start_values=True,
                 empty_string_attr=True),
    "arxml": dict(multi_bus=True, same_number_pairs=True, ecus=True, ecu_comments=True, frame_comments=True, signal_comments=True, multiline=False, senders="many", receivers=True,
                  motorola=True, signed=True, floats=True, mux=["none", "none", "simple"], values=True, neg_values=False,
                  attributes=[], attr_types=[], unit_max=32, nonascii=True,
                  limits=True, ext=True, unique_signals=True, static_with_mux=True, min_len=1, mux_named=False, mux_plain=True,
                  ecus_need_role=True),
}

NAME_POOL = ["Eng", "Engine", "EngineSpeed", "Speed", "Trq", "Torque", "Body", "BodyCtl", "Gw", "Gateway", "Abs", "Esp",
             "Temp", "TempOut", "Volt", "Cur", "State", "Status", "Mode", "Req", "Ack", "Diag", "Door", "Light"]
UNITS = ["", "", "rpm", "km/h", "V", "A", "degC", "%", "Nm", "bar", "ms", "m/s^2", "kWh/100km", "°C", "µs"]
LABELS = ["Off", "On", "Init", "Error", "Not available", "Low", "High", "Reserved", "SNA", "Active", "Idle", "Fault 2", "Störung"]
WORDS = ["engine", "speed", "value", "of", "the", "sensor", "raw", "filtered", "status;", "see", "spec", "(rev 2)", "100%", "kühl",
         "a=b", "x,y", "[unit]", "no."]
WORDS_PLAIN = [w for w in WORDS if "," not in w and ";" not in w]


LONG_NAMES = [False]      # set per description by gen_desc (DBC: names beyond 32 characters, written under a 32-character symbol)


def pick_name(rng, used, prefix):
    for _ in range(500):
        n = prefix + rng.choice(NAME_POOL)
        if rng.random() < 0.5:
            n += rng.choice(["_", ""]) + rng.choice(NAME_POOL)
        if rng.random() < 0.4:
            n += str(rng.randrange(0, 30))
        if LONG_NAMES[0] and rng.random() < 0.3:
            sibling = [u for u in used if len(u) > 32 and u.startswith(prefix)]
            if sibling and rng.random() < 0.3:
                n = rng.choice(sibling)[:32] + rng.choice(["X", "_b", "Other"]) + str(rng.randrange(100))   # shares its first 32 characters
            else:
                while len(n) <= 32:
                    n += "_" + rng.choice(NAME_POOL)
            if n not in used and len(n) <= 64:
                used.add(n)
                return n
            continue
        if n not in used and len(n) <= 30:
            used.add(n)
            return n
    raise RuntimeError("name pool exhausted")


def rand_decimal(rng, digits=4, neg=True, nonzero=False):
    nd = rng.randrange(1, digits + 1)
    m = rng.randrange(1 if nonzero else 0, 10 ** nd)
    e = rng.choice([0, 0, -1, -2, -3, 1, -6, 2])
    v = D(m).scaleb(e)
    if neg and rng.random() < 0.3:
        v = -v
    return v


def comment_text(rng, env, multiline):
    def line():
        pool = WORDS_PLAIN if env.get("no_comma") else WORDS
        if env.get("cp1252_words"):
            pool = pool * 4 + ["20€", "a–b", "Größe", "Maß"]     # € and – lie outside iso-8859-1: only charsets that have them can carry the file
        return " ".join(rng.choice(pool) for _ in range(rng.randrange(1, 7)))
    n = rng.choice([1, 1, 2, 3]) if multiline else 1
    words_ok = lambda t: t if env.get("nonascii", True) else t.encode("ascii", "ignore").decode()
    return words_ok("\n".join(line() for _ in range(n)))


def gen_layout(rng, nbytes, n_max, motorola=True, widths=None, free=None, le_only=False, float_ok=False):
    """non-overlapping signals in the description's own convention: list of (byte_order, start, width)"""
    nbits = 8 * nbytes
    if free is None:
        free = set(range(nbits))
    out = []
    n = rng.randrange(1, n_max + 1)
    for _ in range(60):
        if len(out) >= n or not free:
            break
        bo = "intel" if (le_only or not motorola or rng.random() < 0.5) else "motorola"
        w = rng.choice(widths) if widths else min(rng.choice([1, 1, 2, 3, 4, 7, 8, 9, 12, 16, 17, 24, 31, 32, 32, 33, 48, 63, 64]), nbits)
        if w > nbits:
            continue
        start = rng.randrange(0, nbits)
        if rng.random() < 0.15:
            start = 0 if bo == "intel" else 7       # the first payload bit / top bit of byte 0
        bits = desc_bits(dict(byte_order=bo, start=start, width=w))
        if any(b < 0 or b >= nbits for b in bits) or not set(bits) <= free:
            continue
        free -= set(bits)
        out.append((bo, start, w))
    if not out and free:
        b = min(free)
        free.discard(b)
        out.append(("intel", b, 1))
    return out


def gen_desc(rng, fmt, size="small"):
    env = ENV[fmt]
    LONG_NAMES[0] = bool(env.get("long_names")) and rng.random() < 0.35
    desc = dict(format_envelope=fmt, ecus=[], frames=[], attr_defs=[], net_attributes={})
    used_e, used_f, used_s_global = set(), set(), set()
    ecu_names = []
    for _ in range(rng.randrange(2, 5)):
        n = pick_name(rng, used_e, "E")
        ecu_names.append(n)
        desc["ecus"].append(dict(name=n, comment=comment_text(rng, env, env["multiline"]) if env["ecu_comments"] and rng.random() < 0.5 else None,
                                 attributes={}))
    # ---- attribute definitions ----
    defs = []
    if env["attributes"] and rng.random() < 0.8:
        cand = [
            dict(name="NetIntAttr", object="net", type="INT", min=0, max=1000, default=7),
            dict(name="NetStrAttr", object="net", type="STRING", default="abc"),
            dict(name="EcuIntAttr", object="ecu", type="INT", min=0, max=100, default=5),
            dict(name="EcuStrAttr", object="ecu", type="STRING", default="x y"),
            dict(name="EcuEnumAttr", object="ecu", type="ENUM", values=["no", "yes", "maybe"], default="no"),
            dict(name="FrEnumAttr", object="frame", type="ENUM", values=["none", "cyclic", "event"], default="none"),
            dict(name="FrHexAttr", object="frame", type="HEX", min=0, max=255, default=16),
            dict(name="FrIntAttr", object="frame", type="INT", min=-10, max=65535, default=0),
            dict(name="SigFloatAttr", object="signal", type="FLOAT", min=D("0"), max=D("10.5"), default=D("1.5")),
            dict(name="SigEnumAttr", object="signal", type="ENUM", values=["a", "b", "c"], default="a"),
            dict(name="SigIntAttr", object="signal", type="INT", min=0, max=100000, default=3),
            dict(name="SigStrAttr", object="signal", type="STRING", default=""),
        ]
        for d in cand:
            if d["object"] in env["attributes"] and d["type"] in env["attr_types"] and rng.random() < 0.7:
                defs.append(d)
    desc["attr_defs"] = defs

    def attr_values(obj):
        out = {}
        for d in defs:
            if d["object"] != obj or rng.random() < 0.5:
                continue
            if d["type"] in ("INT", "HEX"):
                out[d["name"]] = rng.randrange(d["min"], d["max"] + 1) if (rng.random() < 0.75 or not d["min"] <= 0 <= d["max"]) else 0
            elif d["type"] == "FLOAT":
                out[d["name"]] = rng.choice([D("0.5"), D("2"), D("9.25"), D("0.001"), D("0")])
            elif d["type"] == "ENUM":
                out[d["name"]] = rng.choice(d["values"])
            else:
                out[d["name"]] = rng.choice(["x", "hello world", "a;b", "v1.2", "0", ""] if env.get("empty_string_attr") else ["x", "hello world", "a;b", "v1.2", "0"])
        return out
    desc["net_attributes"] = attr_values("net")
    if env.get("value_tables") and rng.random() < 0.4:
        desc["value_tables"] = {}
        for i in range(rng.randrange(1, 3)):
            keys = sorted({rng.randrange(0, 16) for _ in range(rng.randrange(1, 5))})
            desc["value_tables"]["Vt%s%d" % (rng.choice(NAME_POOL), i)] = dict(zip(keys, rng.sample(LABELS, len(keys))))
    for e in desc["ecus"]:
        e["attributes"] = attr_values("ecu")

    # ---- frames ----
    used_ids = set()
    nfr = rng.randrange(1, 4 if size == "small" else 7)
    # several buses (KCD) / clusters (ARXML) in one file: the frames generated beyond nfr go to the second bus only
    multi = bool(env.get("multi_bus")) and rng.random() < 0.4
    n_extra = rng.choice([0, 1, 1, 2]) if multi else 0
    for _ in range(nfr + n_extra):
        ext = env["ext"] and rng.random() < 0.4
        twin_of = None
        if env.get("same_number_pairs") and desc["frames"] and rng.random() < 0.4:
            # a standard and an extended frame with the same identifier NUMBER are two different frames (11-bit / 29-bit identifier)
            cand = [f for f in desc["frames"] if f["id"] < 0x800 and (f["id"], not f["extended"]) not in used_ids]
            if cand:
                twin_of = rng.choice(cand)
        while True:
            if twin_of is not None:
                fid, ext = twin_of["id"], not twin_of["extended"]
                break
            fid = rng.randrange(1, 2 ** 29 if ext else 2 ** 11)
            if ext and rng.random() < 0.25:
                fid = rng.randrange(1, 0x800)      # small numbers are legal 29-bit identifiers too
            elif ext and rng.random() < 0.6:
                fid |= 0x800
            if rng.random() < 0.08:
                fid = 0         # identifier 0 is a legal identifier ('falsy' value audit)
            if env.get("same_number_pairs"):
                if (fid, bool(ext)) not in used_ids:
                    break
            elif not any(i == fid for i, _ in used_ids):   # this format addresses frames by the bare number somewhere (DBF sections)
                break
        used_ids.add((fid, bool(ext)))
        L = rng.choice([1, 2, 3, 4, 5, 6, 7, 8, 8, 8, 8])
        fname = pick_name(rng, used_f, "F")
        fr = dict(name=fname, id=fid, extended=bool(ext), length=L, senders=[], comment=None, attributes=attr_values("frame"), signals=[])
        if env["frame_comments"] and rng.random() < 0.5:
            fr["comment"] = comment_text(rng, env, env["multiline"]) if rng.random() < 0.9 else ""
        if env["senders"] == "one":
            fr["senders"] = [rng.choice(ecu_names)] if rng.random() < 0.85 else []
        elif env["senders"] == "many":
            fr["senders"] = rng.sample(ecu_names, rng.choice([0, 1, 1, 1, 2, min(3, len(ecu_names))]))
        used_s = used_s_global if env["unique_signals"] else set()
        mux = rng.choice(env["mux"])
        free = set(range(8 * L))
        sigs = []
        muxer = None
        if mux != "none" and L >= 2:
            w = rng.randrange(1, 5)
            lay = gen_layout(rng, L, 1, motorola=env["motorola"] and not env.get("mux_plain"), widths=[w], free=free,
                             le_only=env.get("mux_plain", False))
            bo, st, w = lay[0]
            muxer = dict(name=pick_name(rng, used_s, "Mx") if env["mux_named"] else None, byte_order=bo, start=st, width=w, type="unsigned",
                         factor=D(1), offset=D(0), min=D(0), max=D((1 << w) - 1), unit="", receivers=[], mux=dict(role="multiplexer"),
                         values={}, comment=None, attributes={})
            sigs.append(muxer)
        static = gen_layout(rng, L, rng.randrange(1, 5), motorola=env["motorola"], free=free) if (muxer is None or env["static_with_mux"]) else []
        groups = []
        if muxer is not None:
            nsel = 1 << muxer["width"]
            sels = rng.sample(range(nsel), min(rng.randrange(1, 4), nsel))
            if 0 not in sels and rng.random() < 0.5:
                sels[0] = 0
            for v in sels:
                groups.append((v, gen_layout(rng, L, rng.randrange(1, 3), motorola=env["motorola"], free=set(free),
                                             widths=[1, 2, 3, 4, 7, 8, 9, 12, 16])))

        def mk_signal(lay, prefix, muxinfo=None):
            bo, st, w = lay
            isf = env["floats"] and w in (32, 64) and rng.random() < 0.5
            typ = "float" if isf else ("signed" if env["signed"] and rng.random() < 0.5 else "unsigned")
            factor = rand_decimal(rng, 4, neg=False, nonzero=True) if rng.random() < 0.7 else D(1)
            offset = rand_decimal(rng, 4) if rng.random() < 0.5 else D(0)
            s = dict(name=pick_name(rng, used_s, prefix), byte_order=bo, start=st, width=w, type=typ, factor=factor, offset=offset,
                     unit="", receivers=[], mux=muxinfo, values={}, comment=None, attributes=attr_values("signal"))
            if isf:
                s["min"], s["max"] = offset - 1000 * factor, offset + 1000 * factor     # raw -1000 .. 1000, exact in every format
                if env.get("limits_times_factor"):
                    s["min"], s["max"] = -1000 * factor, 1000 * factor
            elif env.get("limits_times_factor"):
                # DBF carries the limits as (physical limit / factor): the envelope holds limits that are whole multiples of the factor
                lo, hi = raw_range(s)
                s["min"], s["max"] = lo * factor, hi * factor
            else:
                lo, hi = raw_range(s)
                if rng.random() < 0.3 and hi - lo > 4:       # limits narrower than the raw range
                    lo, hi = lo + rng.randrange(0, 2), hi - rng.randrange(1, 3)
                s["min"], s["max"] = offset + lo * factor, offset + hi * factor
            if not isf and rng.random() < 0.25:
                # a limit that is exactly 0 although the raw range would give another value ('falsy' value audit):
                # raw value k is the physical 0, so offset = -k*factor; min = 0 (k > lo) or max = 0 (k < hi)
                lo, hi = raw_range(s)
                if env.get("limits_times_factor"):
                    if rng.random() < 0.5 and lo < 0:
                        s["min"] = D(0)
                    else:
                        s["max"] = D(0)
                        s["min"] = min(s["min"], D(0))
                else:
                    k = rng.choice([0, 0, rng.randrange(lo, hi + 1)])
                    s["offset"] = offset = -k * factor
                    if (rng.random() < 0.5 and k > lo) or k >= hi:
                        s["min"], s["max"] = D(0), offset + hi * factor
                    else:
                        s["min"], s["max"] = offset + lo * factor, D(0)
            u = rng.choice(UNITS)[: env["unit_max"]]
            if not env["nonascii"]:
                u = u.encode("ascii", "ignore").decode()
            s["unit"] = u
            if env["receivers"]:
                s["receivers"] = rng.sample(ecu_names, rng.randrange(0, min(3, len(ecu_names)) + 1))
            if env["values"] and not isf and rng.random() < 0.4:
                lo, hi = raw_range(s)
                lo = max(lo, -5) if env["neg_values"] else max(lo, 0)
                keys = sorted({rng.randrange(lo, min(hi, 20) + 1) for _ in range(rng.randrange(1, 5))} | ({0} if rng.random() < 0.5 else set()))
                labs = rng.sample(LABELS, len(keys))
                s["values"] = {k: (l if env["nonascii"] else l.encode("ascii", "ignore").decode()) for k, l in zip(keys, labs)}
            if env["signal_comments"] and rng.random() < 0.4:
                s["comment"] = comment_text(rng, env, env["multiline"]) if rng.random() < 0.9 else ""    # "" = an explicitly empty comment
            if env.get("start_values") and rng.random() < 0.3 and not isf:
                lo, hi = raw_range(s)
                raw = rng.choice([lo, hi, 0 if lo <= 0 <= hi else lo, rng.randrange(lo, hi + 1)])
                if s["min"] <= s["offset"] + raw * factor <= s["max"]:
                    s["start_value"] = s["offset"] + raw * factor
            if env.get("sym_switches"):
                # PEAK's /ln (long name), /p (decimal places), /d (default value, physical, on the raw grid inside the limits)
                x = {}
                if rng.random() < 0.3:
                    x["long_name"] = rng.choice(["Engine speed", "Torque", "State of charge", "Door_open"])
                if rng.random() < 0.3:
                    x["decimals"] = rng.randrange(0, 5)
                if rng.random() < 0.3 and not isf:
                    lo, hi = raw_range(s)
                    raw = rng.choice([lo, hi, rng.randrange(lo, hi + 1)])
                    v = offset + raw * factor
                    if s["min"] <= v <= s["max"]:
                        x["start_value"] = v
                s["sym"] = x
            return s
        for lay in static:
            sigs.append(mk_signal(lay, "S"))
        for v, gl in groups:
            for lay in gl:
                mi = dict(role="muxed", selector=v, ranges=None, muxer=muxer["name"])
                if mux == "extended":
                    mi["ranges"] = [(v, v)]
                sigs.append(mk_signal(lay, "G%d_" % v, mi))
        if mux == "extended" and muxer is not None:
            fr["extended_mux"] = True
            # a signal may be active for several selector ranges (SG_MUL_VAL_ lists them)
            nsel = 1 << muxer["width"]
            for s in sigs:
                if s["mux"] and s["mux"]["role"] == "muxed" and rng.random() < 0.4:
                    lo = rng.randrange(nsel)
                    hi = min(nsel - 1, lo + rng.randrange(0, 3))
                    if not (lo <= s["mux"]["selector"] <= hi):
                        s["mux"]["ranges"] = sorted(s["mux"]["ranges"] + [(lo, hi)])
                        s["mux"]["selector"] = s["mux"]["ranges"][0][0]    # the SG_ line names the first range's start (m<k>)
        fr["signals"] = sigs
        if env.get("groups") and len(sigs) >= 2 and rng.random() < 0.35:
            members = rng.sample([s["name"] for s in sigs], rng.randrange(1, min(4, len(sigs)) + 1))
            fr["groups"] = [dict(name="Grp_" + fname[:12], repetitions=rng.randrange(1, 4), signals=members)]
        desc["frames"].append(fr)
    if multi:
        import copy
        own = [desc["frames"].pop() for _ in range(n_extra)][::-1]
        shared = []
        for fr in desc["frames"]:
            if rng.random() < 0.6 or (not shared and not own):
                # the same frame (ARXML: one CAN-FRAME triggered in both clusters; KCD: an equally named message with equally named
                # signals) on the second bus - with the senders and receivers THAT bus has
                tw = copy.deepcopy(fr)
                tw["shared"] = True
                if env["senders"] == "many":
                    tw["senders"] = rng.sample(ecu_names, rng.choice([0, 1, 1, 2]))
                for sg in tw["signals"]:
                    if not (sg["mux"] and sg["mux"]["role"] == "multiplexer"):
                        sg["receivers"] = rng.sample(ecu_names, rng.randrange(0, min(3, len(ecu_names)) + 1))
                shared.append(tw)
        desc["buses"] = [dict(name="Bus2", frames=shared + own)]
    if env.get("ecus_need_role"):
        # ARXML: an ECU is known to a cluster through the frames it sends or receives (ports on its connector)
        allf = desc["frames"] + [f for b in desc.get("buses", []) for f in b["frames"]]
        used = {s for fr in allf for s in fr["senders"]} | {r for fr in allf for sg in fr["signals"] for r in sg["receivers"]}
        desc["ecus"] = [e for e in desc["ecus"] if e["name"] in used]
    return desc


def bus_views(desc, fmt):
    """[(bus name as the file gives it, description restricted to that bus)]; one entry for a single-bus description"""
    names = {"kcd": ["Bus1", "Bus2"], "arxml": ["CAN", "CAN2"]}.get(fmt, [""])
    views = [(names[0], desc)]
    for i, b in enumerate(desc.get("buses", [])):
        sub = dict(desc)
        sub["frames"] = b["frames"]
        views.append((names[i + 1], sub))
    if fmt == "arxml" and len(views) > 1:
        # a cluster knows the ECUs that send or receive on it
        out = []
        for n, v in views:
            used = {s for fr in v["frames"] for s in fr["senders"]} | {r for fr in v["frames"] for sg in fr["signals"] for r in sg["receivers"]}
            v = dict(v)
            v["ecus"] = [e for e in v["ecus"] if e["name"] in used]
            out.append((n, v))
        views = out
    return views


def to_jsonable(x):
    if isinstance(x, D):
        return str(x)
    if isinstance(x, dict):
        return {str(k): to_jsonable(v) for k, v in x.items()}
    if isinstance(x, (list, tuple)):
        return [to_jsonable(v) for v in x]
    return x


# ---------------------------------------------------------------------------------------------------------------
# number renderings the formats' grammars allow for one exact decimal value (shared by the renderers)
NUM_STYLES = ["plain", "expE", "expe", "plus", "tz", "nz"]      # nz: zero written -0.0 (other values plain)


def plain(x):
    x = D(x)
    if x == 0:
        return "0"
    return format(x.normalize(), "f")


def render_number(x, style, allow_plus=True):
    """x: Decimal or int.  plain 0.001 | expE 1E-3 | expe 1.0e-03 | plus +0.001 | tz 0.00100 (100 -> 100.0)"""
    x = D(x)
    if style == "nz":
        return "-0.0" if x == 0 else plain(x)
    if style == "plain" or (style == "plus" and not allow_plus):
        return plain(x)
    if style == "plus":
        return plain(x) if x < 0 else "+" + plain(x)
    if style == "tz":
        p = plain(x)
        return p + ("00" if "." in p else ".0")
    sign, digits, exp = x.normalize().as_tuple() if x != 0 else (0, (0,), 0)
    ds = "".join(map(str, digits))
    e10 = exp + len(ds) - 1           # value = d.ddd * 10^e10
    mant = ds[0] + ("." + ds[1:] if len(ds) > 1 else "")
    if style == "expE":
        return ("-" if sign else "") + mant + "E" + str(e10)
    if style == "expe":
        if "." not in mant:
            mant += ".0"
        return ("-" if sign else "") + mant + "e" + ("-" if e10 < 0 else "+") + "%02d" % abs(e10)
    raise ValueError(style)
