"""C14: exporting never changes the matrix and is deterministic.

SEARCH (decides the property on the real code, no model involved):
 (a) for every generated matrix and every writer that accepts it: the complete state of the object (matgen.normal_form, a
     generic deep snapshot of every reachable field with list order and dict insertion order, Frame.decode / CanMatrix.decode
     of fixed payloads) is the same before and after the export;
 (b) for every ORDERED pair (A, B) of writers: bytes(B after A on the same object) == bytes(B alone on a fresh deep copy);
 (c) every export repeated in separate processes under several PYTHONHASHSEED values (harness/c14_runner.py rebuilds the matrix
     from the seed and prints hashes) and twice in the same process yields identical bytes.
TIE: model/ExportEffects.v `effect` (cmd 1401) against the modelled fields of the object after the real export; `view` (cmd 1402)
 against what the ARXML / FIBEX / KCD bytes actually contain (port references, frame names, producers/consumers); `sym_emit`
 (cmd 1411) against the [frame] blocks parsed from the SYM bytes; isort against sorted()."""
import collections
import decimal
import concurrent.futures
import copy
import hashlib
import json
import multiprocessing
import os
import re
import shutil
import subprocess
import sys
import tempfile

import core
import matgen
import c14_cases as K

LEVEL_NOTE = ("PARTIAL BY DESIGN. Proved: for the matrix fields a writer was seen to touch (frame name, transmitters, receivers, signal "
              "receivers) each writer's effect on its argument is the identity for ALL matrices, so any later export in any history "
              "sees the same matrix; the SYM Mux blocks do not depend on the order in which the set of multiplexer values is walked. "
              "The model is of the code WITH fixes/C14_{arxml,fibex,kcd}_copy.patch and C14_sym_sorted.patch; the tree before them is "
              "Histories that interleave exports with arbitrary in-place edits are covered by export_after_edits_equals_fresh - in the model the writers "
              "have no state besides the matrix; that the real writers keep none across calls (module-level caches) is RUN by the export/edit/export "
              "probe, not proved; likewise that an export leaves no process-wide state behind (thread decimal context, module globals) is only run. "
              "kcd.dump: since /repo b679340 CanCluster keeps its merged view in objects of its own, the model's KCD view is the member matrix and "
              "cluster_view (tied to CanCluster.frames/.signals, cmd 1404) is a separate function. The unfixed tree (arxml, fibex, sym) is "
              "kept in the same file (copies=false / sym_emit_in_order) and the four findings are theorems `_refuted` with `_partial` "
              "envelopes. NOT proved, only run: that the other fields stay untouched - attribute DEFINITIONS (definition, type, default, min, max, "
              "values), attributes, value tables and the ORDER of every list and dict are covered by the deep snapshot before/after only, the model's "
              "matrix type does not carry them; matrices produced by the readers (shipped sample files, generated matrices read back) are subjects of "
              "the search and of the effect tie, not of the ARXML/FIBEX/KCD/SYM byte-level ties; decode is not probed on container-PDU frames; the bytes themselves "
              "(169 ordered writer pairs per matrix), lxml/xlwt/json serialisation, and CPython's actual hash order - determinism is "
              "observed over the PYTHONHASHSEED values listed in the evidence, in separate processes, not for all seeds. "
              "jsonExportCanard is outside: it rejects every matrix whose factors are Decimals.")

WCODE = {w: i for i, w in enumerate(K.WRITER_KEYS)}       # same order as ExportEffects.writer


# ------------------------------------------------------------------------------------------------ worker (forked)
_G = {}


def _init():
    cm = core.import_impl()
    import canmatrix.formats as F
    _G["C"] = cm.canmatrix
    _G["F"] = F
    import resource
    resource.setrlimit(resource.RLIMIT_AS, (8 << 30, 8 << 30))      # a runaway case ends as MemoryError in its worker, not as a dead machine
    _G["tmp"] = os.path.join(_G["tmp_parent"], "w%d" % os.getpid())
    os.makedirs(_G["tmp"], exist_ok=True)


def classify(w, paths):
    """stable key of a mutation from the paths that changed"""
    joined = " ".join(paths)
    sig_recv = re.search(r"signals(\[\d+\]|/[^/ ]+)/receivers", joined) is not None
    fr_recv = re.search(r"frames(\[\d+\]|/[^/ ]+)/receivers", joined) is not None
    fr_tx = re.search(r"frames(\[\d+\]|/[^/ ]+)/transmitters", joined) is not None
    fr_name = re.search(r"frames(\[\d+\]|/[^/ ]+)/name", joined) is not None
    if w == "arxml" and fr_recv:
        return "arxml-mutates-receivers"
    if w == "fibex" and fr_name:
        return "fibex-renames-duplicate-frames"
    if w == "kcd" and (fr_recv or fr_tx):
        return "kcd-merges-duplicate-frames"
    if w == "kcd" and sig_recv:
        return "kcd-merges-duplicate-signals"
    if all(p.startswith("/decode") for p in paths):
        return "%s-changes-decode" % w
    return "%s-mutates-matrix" % w


def intern_matrix(fields):
    """modelled fields -> groups of integers (ECU / signal names interned in order of first appearance)"""
    ecu, sig = {}, {}

    def e(n):
        return ecu.setdefault(n, len(ecu) + 1)

    def s(n):
        return sig.setdefault(n, len(sig) + 1)
    for f in fields:
        for n in f["transmitters"] + f["receivers"]:
            e(n)
        for sn, rc in f["signals"]:
            s(sn)
            for n in rc:
                e(n)
    return ecu, sig


def encode_matrix(fields, ecu, sig):
    groups = []
    for f in fields:
        groups.append([len(f["signals"])] + [ord(c) for c in f["name"]])
        groups.append([ecu.setdefault(n, len(ecu) + 1) for n in f["transmitters"]])
        groups.append([ecu.setdefault(n, len(ecu) + 1) for n in f["receivers"]])
        for sn, rc in f["signals"]:
            groups.append([sig.setdefault(sn, len(sig) + 1)] + [ecu.setdefault(n, len(ecu) + 1) for n in rc])
    return groups


def mux_code(m):
    if m is None:
        return [0, 0]
    if m == "Multiplexor":
        return [1, 0]
    return [2, int(m)]


def parse_sym_blocks(data):
    """[(frame name, has ID line, mux value or None, [Var names])] in file order"""
    blocks = []
    cur = None
    for line in data.decode("iso-8859-1").split("\n"):
        m = re.match(r"^\[(.*)\]$", line)
        if m:
            cur = [m.group(1), False, None, []]
            blocks.append(cur)
            continue
        if cur is None:
            continue
        if line.startswith("ID="):
            cur[1] = True
        m = re.match(r"^Mux=(\S+) (\d+),(\d+) ([0-9A-Fa-f]+)(h?)", line)
        if m:
            cur[2] = int(m.group(4), 16) if m.group(5) else int(m.group(4))
        m = re.match(r'^Var=(?:"([^"]*)"|(\S+)) ', line)
        if m:
            cur[3].append(m.group(1) if m.group(1) is not None else m.group(2))
    return blocks


def view_from_bytes(w, data, db):
    """what the exported bytes say about the modelled fields, in the shape compared with `view` of the model"""
    import lxml.etree as ET
    root = ET.fromstring(data)
    if w == "arxml":
        ns = "{http://autosar.org/schema/r4.0}"
        out = []
        for ft in root.iter(ns + "CAN-FRAME-TRIGGERING"):
            name = ft.find(ns + "SHORT-NAME").text
            ports = [r.text.split("/")[2] for r in ft.iter(ns + "FRAME-PORT-REF")]
            out.append([name, ports])
        return out
    if w == "fibex":
        out = []
        for el in root.iter():
            if isinstance(el.tag, str) and el.tag.endswith("}FRAME-TRIGGERING"):
                out.append(el.get("ID")[3:])
        return out
    if w == "kcd":
        ns = "{http://kayak.2codeornot2code.org/1.0}"
        nodes = {n.get("id"): n.get("name") for n in root.iter(ns + "Node")}
        out = []
        for msg in root.iter(ns + "Message"):
            prod = [nodes[r.get("id")] for p in msg.findall(ns + "Producer") for r in p.findall(ns + "NodeRef")]
            sigs = {}
            for s in msg.iter(ns + "Signal"):
                cons = s.findall(ns + "Consumer")
                # the writer appends the same Consumer element once per receiver: one element
                sigs[s.get("name")] = [nodes[r.get("id")] for r in cons[0].findall(ns + "NodeRef")] if cons else []
            out.append([msg.get("name"), prod, sigs])
        return out
    raise ValueError(w)


def _too_long(*_a):
    raise TimeoutError("case did not finish within 600 s")


def eval_case(arg):
    import signal
    signal.signal(signal.SIGALRM, _too_long)
    signal.alarm(600)
    try:
        return eval_case_(arg)
    except (Exception, MemoryError):       # a crash of the machinery on one case must not hide what the other cases found
        import traceback
        return dict(idx=arg[1], info=dict(profile="crash"), violations=[], counts={}, ties=[], pairs=0, nontrivial=False,
                    rejected={}, crash=traceback.format_exc()[-1500:])
    finally:
        signal.alarm(0)


def eval_case_(arg):
    import time
    t_case = time.time()
    r = eval_case__(arg)
    r["seconds"] = round(time.time() - t_case, 2)
    return r


def eval_case__(arg):
    base_seed, idx = arg
    C, F, tmp = _G["C"], _G["F"], _G["tmp"]
    db, info = K.build_case(base_seed, idx, C)
    if db is None:
        return dict(idx=idx, info=info, skipped=info.get("skipped", "?"))
    res = dict(idx=idx, info=info, violations=[], counts=collections.Counter(), ties=[], pairs=0, nontrivial=False)
    from_reader = idx <= K.FILE_BASE or idx >= K.REREAD_BASE
    cnt = res["counts"]
    cnt["profile-" + info["profile"]] += 1
    fields0 = K.modelled_fields(db)
    names = [f["name"] for f in fields0]
    signames = [s[0] for f in fields0 for s in f["signals"]]
    dupf = len(set(names)) < len(names)
    dups = len(set(signames)) < len(signames)
    unprop = any(r not in f["receivers"] for f in fields0 for s in f["signals"] for r in s[1])
    muxn = max([len({s.multiplex for s in f.signals if type(s.multiplex) == int}) for f in db.frames] + [0])
    for flag, nm in ((dupf, "dup-frame-names"), (dups, "dup-signal-names"), (unprop, "unpropagated-receivers"),
                     (muxn >= 5, "mux-groups>=5"), (bool(db.signals), "free-signals"),
                     (any(len(n) > 32 for n in names + signames), "long-names"),
                     (any(f.cycle_time for f in db.frames), "cycle-times")):
        if flag:
            cnt["feature-" + nm] += 1
    res["nontrivial"] = dupf or dups or unprop or muxn >= 2 or from_reader
    ndef = sum(len(getattr(db, c_)) for c_ in ("global_defines", "ecu_defines", "frame_defines", "signal_defines", "env_defines"))
    nodd = sum(1 for c_ in ("global_defines", "ecu_defines", "frame_defines", "signal_defines", "env_defines")
               for d_ in getattr(db, c_).values() if d_.type not in ("ENUM", "STRING", "INT", "HEX", "FLOAT"))
    if ndef:
        cnt["feature-has-defines"] += 1
    if nodd:
        cnt["feature-defines-of-unknown-type"] += 1
    allsig = [s_ for f in db.frames for s_ in f.signals]
    for flag, nm in ((any(s_.is_float and s_.initial_value != 0 for s_ in allsig), "float-signal-with-nonzero-start-value"),
                     (any(s_.size == 64 and not s_.is_float for s_ in allsig), "64-bit-integer-signal"),
                     (any(len(str(abs(int(s_.initial_value)))) >= 18 for s_ in allsig if s_.initial_value == s_.initial_value), "start-value-of-18+-digits")):
        if flag:
            cnt["feature-" + nm] += 1
    if info.get("shuffled"):
        cnt["feature-orders-shuffled"] += 1
    if any(any(s.is_multiplexer for s in f.signals) and not f.signals[0].is_multiplexer for f in db.frames):
        cnt["feature-multiplexer-not-first-signal"] += 1
    summary = dict(case=dict(base_seed=base_seed, idx=idx, file=info.get("file"), via=info.get("via"), rebuild="harness/c14_cases.build_case(base_seed, idx, canmatrix.canmatrix)"),
                   profile=info["profile"], frames=fields0 if len(json.dumps(fields0)) < 3000 else "(large; rebuild from case)",
                   features={k: v for k, v in info.items() if k not in ("features", "idx", "base_seed")})
    state0 = K.state(db, base_seed, idx)
    ctx_blamed = set()

    def ctx_key():
        c_ = decimal.getcontext()
        return (c_.prec, c_.rounding, c_.Emin, c_.Emax, c_.capitals, c_.clamp, tuple(sorted(str(k_) for k_, v_ in c_.traps.items() if v_)))

    def xp(obj, w_, tmp_=None):
        """export with the arithmetic context guarded: a writer that leaves it changed is reported (once per case) and the context is put
        back, so that what follows in this worker judges its own exports and not the leftovers of an earlier one"""
        k0 = ctx_key()
        r_ = K.try_export(F, obj, w_, tmp)
        if ctx_key() != k0:
            if w_ not in ctx_blamed:
                ctx_blamed.add(w_)
                res["violations"].append(dict(key="%s-changes-process-state" % w_, what="%s export changed the thread's decimal context" % w_,
                                              input=dict(summary, writer=w_), expected=str(k0), observed=str(ctx_key())))
            decimal.setcontext(_G["decimal_context0"].copy())
        return r_
    fresh = K.copier(db, base_seed, idx, C)
    alone, after_fields, rejected = {}, {}, {}
    # ---- (a) one export on a fresh copy: state before == state after ----
    for w in K.WRITER_KEYS:
        d = fresh()
        amb0 = K.ambient_state()
        r = K.try_export(F, d, w, tmp)
        # the export leaves no trace in the PROCESS either: arithmetic context, locale, environment, module-level tables ... are as before,
        # and a freshly built reference matrix still decodes, scales and exports exactly as it did before anything was exported
        amb1 = K.ambient_state()
        cnt["process-state-probes"] += 1
        if amb1 != amb0:
            res["violations"].append(dict(key="%s-changes-process-state" % w, what="%s export changed process-wide state" % w,
                                          input=dict(summary, writer=w), expected="process state after == before",
                                          observed=[dict(path=p_, before=a_, after=b_) for p_, a_, b_ in matgen.diff(amb0, amb1)[:6]]))
        probe = K.behaviour_probe(C, F)
        cnt["fresh-reference-matrix-probes"] += 1
        if probe != _G["probe0"]:
            res["violations"].append(dict(key="%s-changes-behaviour-of-other-matrices" % w, what="after a %s export a freshly built reference matrix "
                                          "decodes / scales / exports differently than in a process that exported nothing" % w,
                                          input=dict(summary, writer=w, reference="harness/c14_cases.reference_matrix"), expected=_G["probe0"], observed=probe))
        if amb1 != amb0 or probe != _G["probe0"]:
            decimal.setcontext(_G["decimal_context0"].copy())      # so that the following probes of this worker judge their own export
        if r[0] != "ok":
            rejected[w] = r[1]
            cnt["rejected-%s" % w] += 1
            continue
        cnt["accepted-%s" % w] += 1
        alone[w] = r[1]
        after_fields[w] = K.modelled_fields(d)
        state1 = K.state(d, base_seed, idx)
        if state1 != state0:
            df = matgen.diff(state0, state1)
            df.sort(key=lambda t: t[0].startswith("/decode"))      # structural differences first
            key = classify(w, [p for p, _, _ in df])
            res["violations"].append(dict(key=key, what="%s export changed the caller's matrix" % w,
                                          input=dict(summary, writer=w), expected="state after == state before",
                                          observed=[dict(path=p, before=a, after=b) for p, a, b in df[:6]]))
    # copy.deepcopy itself must be faithful or (a)/(b) compare nothing
    # the rebuilt matrix must equal the original, and the original - never handed to a writer - must still be what it was
    if K.state(fresh(), base_seed, idx) != state0:
        res["violations"].append(dict(key="harness-rebuild-unfaithful", what="the case rebuilt from its seed differs from the first build", input=summary))
    try:
        dc = copy.deepcopy(db)
        if K.state(dc, base_seed, idx) != state0:
            res["violations"].append(dict(key="deepcopy-unfaithful", what="copy.deepcopy of the matrix differs from the matrix", input=summary))
    except Exception as e:
        cnt["matrix-cannot-be-deep-copied (%s)" % type(e).__name__] += 1
    # ---- (b) ordered pairs on the same object ----
    # quick tier, matrices with many frames (the shipped samples): each first writer with itself and a seeded sample of second writers
    import random
    prng = random.Random(base_seed * 17 + idx)
    big = len(db.frames) > 12 and not _G.get("thorough")
    if big:
        cnt["large-matrix: pairs sampled (each first writer x itself + 3 others)"] += 1
    for a in alone:
        for b in ([a] + prng.sample([w_ for w_ in alone if w_ != a], min(3, len(alone) - 1)) if big else alone):
            d = fresh()
            ra = xp(d, a, tmp)
            rb = xp(d, b, tmp)
            res["pairs"] += 1
            if ra != ("ok", alone[a]):
                res["violations"].append(dict(key="%s-not-repeatable" % a, what="%s: same matrix, same process, different bytes" % a,
                                              input=dict(summary, writer=a), expected=hashlib.sha256(alone[a]).hexdigest()[:16],
                                              observed=ra[1][:80] if ra[0] != "ok" else hashlib.sha256(ra[1]).hexdigest()[:16]))
            if rb != ("ok", alone[b]):
                obs = rb[1] if rb[0] != "ok" else first_diff(alone[b], rb[1])
                res["violations"].append(dict(key="%s-changes-later-export" % a,
                                              what="bytes(%s after %s on the same object) != bytes(%s alone)" % (b, a, b),
                                              input=dict(summary, first=a, second=b), expected="identical bytes", observed=obs))
    # ---- a longer history of exports on one object: state unchanged, last export as if alone ----
    import random
    hrng = random.Random(base_seed * 31 + idx)
    hist = [hrng.choice(sorted(alone)) for _ in range(hrng.randrange(3, 7))] if alone else []
    hist_fields = None
    if hist:
        d = fresh()
        last = None
        culprit = None      # the first export of the history after which the object differs
        for w in hist:
            last = xp(d, w, tmp)
            if culprit is None and K.state(d, base_seed, idx) != state0:
                culprit = w
        hist_fields = K.modelled_fields(d)
        res["pairs"] += 1
        cnt["history-len-%d" % len(hist)] += 1
        if last != ("ok", alone[hist[-1]]) or culprit is not None:
            res["violations"].append(dict(key=("%s-changes-later-export" % culprit) if culprit else "history-changes-bytes",
                                          what="after the exports %s on one object the matrix or the last export's bytes differ from a "
                                          "fresh copy's" % hist, input=dict(summary, history=hist, first_export_that_changed_the_object=culprit),
                                          expected="state and bytes as for a fresh copy",
                                          observed=[dict(path=p_, before=a_, after=b_) for p_, a_, b_ in matgen.diff(state0, K.state(d, base_seed, idx))[:4]]))
    # ---- export, then EDIT THE SAME OBJECT in place through the public API, then export again: every later export must be the bytes
    #      an equal matrix, edited the same way but never exported before, produces (nothing an export computed may survive the edit) ----
    erng = random.Random(base_seed * 131 + idx)
    script = K.make_edit_script(db, erng, erng.randrange(3, 8))
    try:
        e0 = fresh()
        kinds = K.apply_edits(e0, script, C)
    except Exception as e:      # the edit itself is not accepted by the API on this matrix: nothing to compare
        kinds = []
        cnt["edit-script-not-applicable (%s)" % type(e).__name__] += 1
    if kinds:
        ref_state = K.state(e0, base_seed, idx)
        ref = {}

        def reference(b):
            if b not in ref:
                x = fresh()
                K.apply_edits(x, script, C)
                ref[b] = xp(x, b, tmp)
            return ref[b]
        cnt["edit-histories (export, edit in place, export)"] += len(alone)
        for k_ in kinds:
            cnt["edit-" + k_] += 1
        for a in alone:
            d = fresh()
            xp(d, a, tmp)
            K.apply_edits(d, script, C)
            einput = dict(summary, first_export=a, edits=script)
            st = K.state(d, base_seed, idx)
            if st != ref_state:
                res["violations"].append(dict(key="%s-then-edit-state-differs" % a, what="after a %s export and in-place edits the matrix differs from "
                                              "an equal matrix that got the same edits without the export" % a, input=einput,
                                              expected="same state", observed=[dict(path=p_, fresh=a_, exported=b_) for p_, a_, b_ in matgen.diff(ref_state, st)[:4]]))
            # second writers: the first one again and a seeded sample of the others (thorough tier: all of them)
            seconds = K.WRITER_KEYS if _G.get("thorough") else [a] + erng.sample([w_ for w_ in K.WRITER_KEYS if w_ != a], 3)
            for b in seconds:
                if reference(b)[0] != "ok":
                    continue
                rb = xp(d, b, tmp)
                res["pairs"] += 1
                if rb != ref[b]:
                    obs = rb[1] if rb[0] != "ok" else first_diff(ref[b][1], rb[1])
                    res["violations"].append(dict(key="%s-export-survives-edit" % a, what="export %s, edit the object in place, export %s: the second "
                                                  "export is not the bytes of an equally edited matrix that was never exported" % (a, b),
                                                  input=dict(einput, second_export=b), expected="bytes of the fresh edited matrix", observed=obs))
    if K.state(db, base_seed, idx) != state0:
        res["violations"].append(dict(key="export-of-a-copy-changes-the-original", what="a matrix that was never handed to a writer changed while "
                                      "copies of it were exported", input=summary,
                                      observed=[dict(path=p_, before=a_, after=b_) for p_, a_, b_ in matgen.diff(state0, K.state(db, base_seed, idx))[:4]]))
    # ---- tie data ----
    ecu, sig = intern_matrix(fields0)
    enc0 = encode_matrix(fields0, ecu, sig)
    # which model is compared: the fixed code (copies = 1) unless the writer's defect is a recorded known finding, in which case the
    # tree is expected to be the unfixed one and the model of the unfixed code (copies = 0) is the one that must agree
    unfixed = _G.get("unfixed_writers", set())
    flag = lambda w: 0 if w in unfixed else 1
    touched = [w for w in hist if w in ("arxml", "fibex", "kcd")]
    if hist and len({flag(w) for w in touched}) <= 1:
        res["ties"].append(("history", core.fmt_case(1403, [[flag(touched[0]) if touched else 1] + [WCODE[w] for w in hist]] + enc0),
                            encode_matrix(hist_fields, ecu, sig), dict(idx=idx, history=hist)))
    for w in alone:
        exp = encode_matrix(after_fields[w], ecu, sig)
        res["ties"].append(("effect", core.fmt_case(1401, [[WCODE[w], flag(w)]] + enc0), exp, dict(idx=idx, writer=w, copies=flag(w))))
    rev = {v: k for k, v in ecu.items()}
    # CanCluster - the cluster-wide view kcd.dump and arxml.load build: the member matrix stays as it was (search), and
    # cluster.frames / cluster.signals are the model's cluster_view (tie, cmd 1404)
    import canmatrix.cancluster as CC
    d = fresh()
    try:
        cl = CC.CanCluster({K.BUS: d})
        cview = dict(frames=[[f.name, list(f.transmitters), list(f.receivers)] for f in cl.frames],
                     signals=[[s_.name, list(s_.receivers)] for s_ in cl.signals])
    except Exception as e:
        cview = None
        cnt["cancluster-rejected (%s)" % type(e).__name__] += 1
    if cview is not None:
        cnt["cancluster-views"] += 1
        if K.state(d, base_seed, idx) != state0:
            res["violations"].append(dict(key="cancluster-changes-member-matrix", what="building a CanCluster over the matrix changed the matrix",
                                          input=summary, expected="member matrix unchanged",
                                          observed=[dict(path=p_, before=a_, after=b_) for p_, a_, b_ in matgen.diff(state0, K.state(d, base_seed, idx))[:4]]))
        res["ties"].append(("cluster", core.fmt_case(1404, [[]] + enc0), None,
                            dict(idx=idx, got=cview, rev=dict(rev), sig={v: k for k, v in sig.items()})))
    # view / SYM ties: generated and corpus matrices only (reader-made matrices carry PDUs, Sendable/Receivable sections ... that the
    # small parsers below do not know; their export EFFECT is tied above like everyone's)
    for w in ("arxml", "fibex", "kcd"):
        if w in alone and not from_reader:
            try:
                got = view_from_bytes(w, alone[w], db)
            except Exception as e:
                got = "unparsable: %r" % e
            res["ties"].append(("view", core.fmt_case(1402, [[WCODE[w]]] + enc0), None,
                                dict(idx=idx, writer=w, got=got, rev=rev, sig={v: k for k, v in sig.items()},
                                     complex=[bool(f.is_complex_multiplexed) for f in db.frames], orig=[f.name for f in db.frames])))
    if "sym" in alone and not from_reader:
        blocks = parse_sym_blocks(alone["sym"])
        pos = 0
        for f in db.frames:
            muxed = any(s.multiplex is not None for s in f.signals)
            ints = []
            for s in f.signals:
                if type(s.multiplex) == int and s.multiplex not in ints:
                    ints.append(s.multiplex)
            n = len(ints) if muxed else 1
            mine = blocks[pos:pos + n]
            pos += n
            if not muxed:
                continue
            order = []
            for s in f.signals:
                if s.multiplex not in order:
                    order.append(s.multiplex)
            symcmd = 1411
            if "sym" in unfixed:
                # unfixed writer: the blocks follow the iteration order of this very set in this very process (model cmd 1412)
                order = list(set([a_.multiplex for a_ in f.signals]))
                symcmd = 1412
            else:
                hrng.shuffle(order)      # any iteration order of the set: the model's answer must not depend on it
            sid = {s.name: i + 1 for i, s in enumerate(f.signals)}
            exp = [[b[2] if b[2] is not None else -1, int(b[1])] + [sid.get(n_, -1) for n_ in b[3]] for b in mine]
            og = [x for m in order for x in mux_code(m)]
            sg = [x for s in f.signals for x in [sid[s.name]] + mux_code(s.multiplex)]
            res["ties"].append(("sym", core.fmt_case(symcmd, [og, sg]), exp if exp else [[]],
                                dict(idx=idx, frame=f.name, names=[b[0] for b in mine], expect_name=f.name)))
            cnt["sym-mux-frames"] += 1
    res["counts"] = dict(cnt)
    res["rejected"] = rejected
    return res


def first_diff(x, y):
    lx, ly = x.split(b"\n"), y.split(b"\n")
    for i, (p, q) in enumerate(zip(lx, ly)):
        if p != q:
            return dict(line=i + 1, alone=p[:200].decode("latin-1"), after=q[:200].decode("latin-1"))
    return dict(lengths=(len(x), len(y)))


# ------------------------------------------------------------------------------------------------ determinism
def run_runner(hashseed, base_seed, idxs, extra=()):
    env = dict(os.environ)
    env["PYTHONHASHSEED"] = str(hashseed)
    env["PYTHONPATH"] = core.SRC
    env["PYTHONDONTWRITEBYTECODE"] = "1"
    cmd = [sys.executable, os.path.join(core.VERIF, "harness", "c14_runner.py"), str(base_seed), ",".join(str(i) for i in idxs) or "none"] + list(extra)
    p = subprocess.run(cmd, env=env, stdout=subprocess.PIPE, stderr=subprocess.PIPE, text=True, timeout=1500)
    if p.returncode != 0:
        raise RuntimeError("c14_runner failed under PYTHONHASHSEED=%s: %s" % (hashseed, p.stderr[-1500:]))
    return p.stdout


# ------------------------------------------------------------------------------------------------ main
def run(chk):
    thorough = chk.tier == "thorough"
    known_keys = {k.get("key") for k in chk.known}
    per_key = collections.Counter()

    def violation(key, what, input, expected=None, observed=None):
        # core keeps at most 50 violations in total: hand over a few per failure class so that no class is crowded out
        # (known findings are counted in full)
        per_key[key] += 1
        if key in known_keys or per_key[key] <= 3:
            chk.violation(key, what, input, expected, observed)
    ncases = 2000 if thorough else 160
    nreread = 60 if thorough else 12         # generated matrices written and read back through each of the 7 read+write formats
    hashseeds = [0, 1, 2, 3, 5, 7, 11, 4242] if thorough else [0, 1, 7]
    chk.rule = ("%d seeded matrices (profiles plain / rich / duplicate frame names / unpropagated receivers / both / many mux groups / all, "
                "plus long names, free signals, cycle times, equal signal names in two frames; in 3 of 4 matrices every ordered container - frames, ecus, "
                "signals of a frame incl. the position of the multiplexer, transmitters, receivers, attribute/define/value-table insertion order, signal "
                "groups - is randomly permuted; two of three matrices get frames with values at the edge of their types - 64 bit integers with 18-20 digit "
                "start values, float signals with non-zero or non-terminating start values, 18-digit factors; every second matrix carries attribute definitions of kinds DBC does not know - BOOL, STR, empty, "
                "lower-case, oddly quoted ENUMs - in all four categories) + %d hand-made corpus matrices + the shipped sample files under tests/files "
                "as read by their readers + generated matrices written and read back through dbc/dbf/sym/kcd/json/arxml/xls; per matrix: 13 "
                "writers alone, one random export history, one export / in-place edit script (3-7 of 25 kinds of edits through the public API: names, ids, "
                "cycle times, attributes, define defaults, signals and frames added or deleted ...) / export history per first writer compared with an "
                "equally edited never-exported matrix, around every single export a comparison of process-wide state (decimal context, locale, cwd, "
                "environment, interpreter limits, plain-data globals of all canmatrix modules) and a probe that a freshly built reference matrix with "
                "edge values still decodes / scales / exports as in a process that exported nothing, "
                "all ordered pairs of the writers that accept it, %d PYTHONHASHSEED values in separate processes. One evaluation "
                "= one (matrix, first writer, second writer) triple or one (matrix, writer, hash seed) export; non-trivial = the matrix has "
                "duplicate frame or signal names, unpropagated receivers, a multiplexed frame, or comes from a reader" % (ncases, K.N_CORPUS, len(hashseeds)))
    ok = chk.build_and_audit()
    cm_ = core.import_impl()
    # the snapshot must see every field of a Define (values only, no identities): a writer that 'repairs' a define in place shows there
    for d_, fields in (("INT 0 5", ("definition", "type", "defaultValue", "min", "max")), ('ENUM "a","b"', ("definition", "type", "defaultValue", "values")),
                       ("BOOL False True", ("definition", "type", "defaultValue"))):
        snap = K.snapshot(cm_.canmatrix.Define(d_))
        if any(f_ not in snap for f_ in fields) or "__ref__" in json.dumps(snap):
            chk.obligation_failures.append("deep snapshot does not cover Define fields %s" % (fields,))
    base_seed = chk.rng.randrange(1, 2 ** 31)
    nfiles = len(K.sample_files(core.REPO))
    # the (few, large) reader-produced sample matrices first so that they do not end up as the tail of the pool
    idxs = [K.FILE_BASE - n for n in range(K.BUSES_PER_FILE * nfiles)] + list(range(-K.N_CORPUS, 0)) \
        + [K.REREAD_BASE + 8 * j + f for j in range(nreread) for f in range(len(K.REREAD_FORMATS))] + list(range(ncases))
    chk.extra["hash_seeds"] = hashseeds
    chk.extra["base_seed"] = base_seed

    unfixed = set()
    for w, keys in (("arxml", ("arxml-mutates-receivers",)), ("fibex", ("fibex-renames-duplicate-frames",)),
                    ("kcd", ("kcd-merges-duplicate-frames", "kcd-merges-duplicate-signals")), ("sym", ("sym-hashseed-order",))):
        if any(k in known_keys for k in keys):
            unfixed.add(w)
    _G["unfixed_writers"] = unfixed
    chk.extra["model_compared"] = {w: ("unfixed code (known finding recorded)" if w in unfixed else "code with the C14 fix") for w in ("arxml", "fibex", "kcd", "sym")}
    _G["thorough"] = thorough
    import canmatrix.formats as F0
    _G["decimal_context0"] = decimal.getcontext().copy()
    _G["probe0"] = K.behaviour_probe(cm_.canmatrix, F0)      # taken before this process exported anything
    _G["tmp_parent"] = tempfile.mkdtemp(prefix="c14_", dir="/tmp")       # xls goes through real files; removed below
    ctx = multiprocessing.get_context("fork")
    nworkers = max(2, core.NPROC - 2)
    try:
        with ctx.Pool(nworkers, initializer=_init) as pool:      # fork before any thread exists
            # (c) determinism runners, in the background, sharded
            ex = concurrent.futures.ThreadPoolExecutor(max_workers=max(2, core.NPROC // 2))
            shard = 70 if thorough else 45
            futs = {}
            for hs in hashseeds:
                for s0 in range(0, len(idxs), shard):
                    futs[(hs, s0)] = ex.submit(run_runner, hs, base_seed, idxs[s0:s0 + shard])
            # (a) + (b)
            results = pool.map(eval_case, [(base_seed, i) for i in idxs], chunksize=2)
    finally:
        shutil.rmtree(_G["tmp_parent"], ignore_errors=True)
    ties = []
    infos = {}
    slow = []
    for r in results:
        infos[r["idx"]] = r["info"]
        if r.get("skipped"):
            chk.count("skipped-%s: %s" % (r["info"].get("profile"), r["skipped"]))
            continue
        if r.get("crash"):
            chk.obligation_failures.append("harness crashed on case %d: %s" % (r["idx"], r["crash"].strip().splitlines()[-1]))
            chk.build_log = r["crash"]
            continue
        for k, v in r["counts"].items():
            chk.count(k, v)
        slow.append((r.get("seconds", 0), r["idx"], r["info"].get("file") or r["info"].get("profile")))
        chk.evaluations += r["pairs"]
        if r["nontrivial"]:
            for j in range(r["pairs"]):
                chk.nontrivial.add(hash((base_seed, r["idx"], j)))
        for v in r["violations"]:
            violation(v["key"], v["what"], v.get("input"), v.get("expected"), v.get("observed"))
        ties += r["ties"]
        if r["idx"] in (-1, -5, 1, 2, K.FILE_BASE - 16, K.REREAD_BASE + 10):
            chk.sample(dict(idx=r["idx"], profile=r["info"]["profile"], corpus=r["info"].get("corpus"),
                            dup_names=r["info"].get("dup_names"), unpropagated=r["info"].get("unpropagated"),
                            bigmux_values=len(r["info"].get("bigmux", {}).get("values", [])), pairs=r["pairs"],
                            file=r["info"].get("file"), via=r["info"].get("via"), odd_defines=r["info"].get("odd_defines"),
                            rejected=r["rejected"]))

    chk.extra["slowest_cases_s"] = sorted(slow, reverse=True)[:6]
    chk.extra["case_seconds_total"] = round(sum(x[0] for x in slow), 1)
    # (c) collect
    per = collections.defaultdict(dict)      # (idx, writer) -> {hashseed: hash}
    states = collections.defaultdict(dict)
    for (hs, s0), fu in futs.items():
        for line in fu.result().splitlines():
            o = json.loads(line)
            if "skipped" in o:
                continue
            states[o["idx"]][hs] = o["state"]
            for w, h in o["w"].items():
                per[(o["idx"], w)][hs] = h
            if "cluster_view" in o:
                per[(o["idx"], "cancluster-view")][hs] = o["cluster_view"]
            for w in o["same_process"]:
                violation("%s-not-repeatable" % w, "%s: two exports of equal matrices in one process differ" % w,
                              dict(case=dict(base_seed=base_seed, idx=o["idx"]), writer=w, hashseed=hs))
    ex.shutdown()
    reader_dependent = set()
    for idx, st in states.items():
        if len(set(st.values())) != 1:
            if idx <= K.FILE_BASE or idx >= K.REREAD_BASE:
                # the READER gave different matrices under different hash seeds: not a statement about exporting (C14); the
                # cross-seed comparison of this case would compare different matrices and is left out, visibly
                reader_dependent.add(idx)
                chk.count("reader-output-depends-on-hashseed (case left out of the cross-seed comparison): %s"
                          % (infos.get(idx, {}).get("file") or infos.get(idx, {}).get("profile")))
            else:
                # the generator must not depend on the hash seed; otherwise (c) compares different matrices
                chk.obligation_failures.append("case %d is not rebuilt identically under different hash seeds (harness defect)" % idx)
    ndet = 0
    for (idx, w), hs in sorted(per.items()):
        if idx in reader_dependent:
            continue
        vals = set(hs.values())
        ndet += len(hs)
        chk.evaluations += len(hs)
        if infos.get(idx, {}).get("profile") != "plain":
            for s_ in hs:
                chk.nontrivial.add(hash((base_seed, idx, w, s_)))
        if len(vals) != 1:
            by = collections.defaultdict(list)
            for s_, h in hs.items():
                by[h].append(s_)
            groups = sorted(by.values())
            obs = dict(hashseeds_by_output=groups)
            if w != "cancluster-view" and all(not h.startswith("REJ") for h in vals) and per_key["%s-hashseed-order" % w] < 3:      # diagnosis for the first few
                try:
                    x = bytes.fromhex(run_runner(groups[0][0], base_seed, [], ["--bytes", str(idx), w]).strip())
                    y = bytes.fromhex(run_runner(groups[1][0], base_seed, [], ["--bytes", str(idx), w]).strip())
                    fd = first_diff(x, y)
                    if "line" in fd:
                        fd = {"line": fd["line"], "under_seed_%d" % groups[0][0]: fd["alone"], "under_seed_%d" % groups[1][0]: fd["after"]}
                    obs["first_difference"] = fd
                except Exception as e:      # diagnosis only
                    obs["first_difference"] = "unavailable: %r" % e
            violation("%s-hashseed-order" % w, "%s: the same matrix exports to different bytes under different PYTHONHASHSEED" % w,
                          dict(case=dict(base_seed=base_seed, idx=idx, rebuild="PYTHONHASHSEED=<s> harness/c14_runner.py %d none --bytes %d %s" % (base_seed, idx, w)),
                               writer=w, profile=infos.get(idx, {}).get("profile"), bigmux=infos.get(idx, {}).get("bigmux")),
                          "identical bytes under all hash seeds", obs)
    chk.count("determinism-exports", ndet)
    # xls: nothing time-dependent in the bytes (the separate processes above also ran at different times)
    import time
    cm = core.import_impl()
    import canmatrix.formats as F
    db, _ = K.build_case(base_seed, 1, cm.canmatrix)
    tdir = tempfile.mkdtemp(prefix="c14_", dir="/tmp")
    try:
        x1 = K.try_export(F, copy.deepcopy(db), "xls", tdir)
        time.sleep(2.2)
        x2 = K.try_export(F, copy.deepcopy(db), "xls", tdir)
    finally:
        shutil.rmtree(tdir, ignore_errors=True)
    chk.evaluations += 1
    if x1 != x2:
        violation("xls-time-dependent", "xls: two exports of the same matrix 2.2 s apart differ", dict(case=dict(base_seed=base_seed, idx=1)))
    chk.extra["failing_cases_by_key"] = dict(per_key)
    chk.extra["determinism"] = dict(exports_compared=ndet, hash_seeds=hashseeds, processes=len(futs), same_process_repeats=2)

    if not ok:
        chk.ties["correspondence"] = "not run (build failed)"
        return
    # ---- TIE ----
    rng = chk.rng
    lines, expect, meta = [], [], []
    for kind, line, exp, inf in ties:
        lines.append(line)
        expect.append(exp)
        meta.append((kind, inf))
    nsort = 150
    for _ in range(nsort):
        l = [rng.randrange(-5, 300) for _ in range(rng.randrange(0, 14))]
        lines.append(core.fmt_case(1413, [l]))
        expect.append([sorted(l)])
        meta.append(("isort", dict(l=l)))
    out = core.run_model(lines)
    bad = collections.Counter()
    ncmp = collections.Counter()
    for (kind, inf), exp, o in zip(meta, expect, out):
        got = core.parse_out(o)
        ncmp[kind] += 1
        if kind == "cluster":
            mism = compare_cluster(inf, got)
            if mism:
                bad[kind] += 1
                chk.tie_break("cluster-view", dict(idx=inf["idx"]), mism[0], mism[1])
        elif kind == "view":
            mism = compare_view(inf, got)
            if mism:
                bad[kind] += 1
                chk.tie_break("view-" + inf["writer"], dict(idx=inf["idx"]), mism[0], mism[1])
        else:
            if kind == "sym" and any(n != inf["expect_name"] for n in inf["names"]):
                bad[kind] += 1
                chk.tie_break("sym-blocks", inf, "blocks of frame %s" % inf["expect_name"], inf["names"])
            elif (sym_canon(got) != sym_canon(exp)) if kind == "sym" else (got != exp):
                bad[kind] += 1
                chk.tie_break(kind, inf, got, exp)
    chk.ties["correspondence"] = {"suite": "effect (1401), view from ARXML/FIBEX/KCD bytes (1402), export histories (1403), CanCluster view (1404), SYM blocks (1411), isort (1413)",
                                  "cases": dict(ncmp), "disagreements": dict(bad)}
    cand = [i for i, (k, _) in enumerate(meta) if k not in ("view", "cluster") and len(lines[i]) < 1500]
    pick = rng.sample(cand, min(240, len(cand)))
    shard_cases = []
    for i in pick:
        c, groups = lines[i].split(" ", 1)
        # SYM blocks: implementation vs model is judged above modulo block order; here vm_compute is checked against the extracted driver
        shard_cases.append((int(c, 16), core.parse_out(groups), core.parse_out(out[i]) if meta[i][0] == "sym" else expect[i]))
    mm, log = core.coq_shard(shard_cases, "c14")
    chk.ties["vm_compute_shard"] = {"cases": len(shard_cases), "mismatches": mm}
    if mm is None:
        chk.obligation_failures.append("in-Coq shard failed to evaluate")
        chk.build_log = log[-3000:]
    else:
        for i in mm:
            chk.tie_break("c14-shard", shard_cases[i][1], "vm_compute differs", shard_cases[i][2])


def decode_matrix(groups):
    """inverse of encode_matrix on the model's answer"""
    fr = []
    i = 0
    while i + 2 < len(groups):
        h = groups[i]
        n = h[0]
        name = "".join(chr(c) for c in h[1:])
        tx, rx = groups[i + 1], groups[i + 2]
        sigs = [(g[0], g[1:]) for g in groups[i + 3:i + 3 + n]]
        fr.append(dict(name=name, tx=tx, rx=rx, sigs=sigs))
        i += 3 + n
    return fr


def sym_canon(blocks):
    """SYM blocks modulo what the property leaves open: the ORDER of the blocks (it demands the same order on every run, not ascending
    order), hence which block carries the ID=/Type= lines (only: how many do), and the order of the Var= lines inside a block"""
    blocks = [b for b in blocks if b]
    return [sorted([b[0], sorted(b[2:])] for b in blocks), sum(b[1] for b in blocks)]


def compare_cluster(inf, got):
    """model's cluster_view (first frame / signal of every name carries the merged lists) vs CanCluster.frames / .signals"""
    m = decode_matrix(got)
    rev, sigrev = inf["rev"], inf["sig"]
    frames, seen = [], set()
    for f in m:
        if f["name"] not in seen:
            seen.add(f["name"])
            frames.append([f["name"], [rev[x] for x in f["tx"]], [rev[x] for x in f["rx"]]])
    signals, seen = [], set()
    for f in m:
        for sn, rc in f["sigs"]:
            if sn not in seen:
                seen.add(sn)
                signals.append([sigrev[sn], [rev[x] for x in rc]])
    model = dict(frames=frames, signals=signals)
    return None if model == inf["got"] else (model, inf["got"])


def compare_view(inf, got):
    """model's working matrix (after the writer's normalisation) vs what the bytes contain; returns None or (model, bytes)"""
    w, seen, rev, sigrev = inf["writer"], inf["got"], inf["rev"], inf["sig"]
    if isinstance(seen, str):
        return ("-", seen)
    m = decode_matrix(got)
    # The property says nothing about WHAT a writer emits (which fresh name a clashing frame gets, in which order references are listed);
    # the correspondence therefore compares model and bytes modulo those choices: sets instead of sequences, 'renamed' instead of the new name.
    if w == "arxml":
        model = [[f["name"], sorted(rev[x] for x in f["tx"] + f["rx"])] for f, cx in zip(m, inf["complex"]) if not cx]
        seen = [[n_, sorted(p_)] for n_, p_ in seen]
        return None if model == seen else (model, seen)
    if w == "fibex":
        # which frames keep their name and which get another one - not which one (the model's <name>_<n> is one valid choice)
        # Position by position: a frame whose name an EARLIER frame already had must come out renamed; a frame before which no name
        # clashed yet must keep its name; a first-of-its-name frame AFTER some clash may or may not collide with the fresh name chosen
        # there (e.g. a frame already called X_2 behind two frames X) - that depends on the choice and is not compared.
        orig = inf["orig"]

        def canon(names):
            out_, clash = [], False
            for i_, (n_, o_) in enumerate(zip(names, orig)):
                if o_ in orig[:i_]:
                    out_.append("<renamed>" if n_ != o_ else "<KEPT a name that was taken: %s>" % n_)
                    clash = True
                elif not clash:
                    out_.append(n_ if n_ == o_ else "<RENAMED without a clash: %s -> %s>" % (o_, n_))
                else:
                    out_.append("<open>")
            return out_ + ["<length %d>" % len(names)]
        model = canon([f["name"] for f in m])
        return None if model == canon(seen) else (model, canon(seen))
    if w == "kcd":
        model = []
        for f in m:
            model.append([f["name"], sorted(rev[x] for x in f["tx"]), {sigrev[s]: sorted(rev[x] for x in rc) for s, rc in f["sigs"]}])
        seen = [[n_, sorted(p_), {k_: sorted(v_) for k_, v_ in sg_.items()}] for n_, p_, sg_ in seen]
        if len(model) != len(seen):
            return (model, seen)
        for a, b in zip(model, seen):
            if a[0] != b[0] or a[1] != b[1]:
                return (a[:2], b[:2])
            for sn, rc in b[2].items():       # the multiplexor is written as <Multiplex>, not as <Signal>
                if a[2].get(sn) != rc:
                    return (dict(frame=a[0], signal=sn, receivers=a[2].get(sn)), dict(frame=b[0], signal=sn, receivers=rc))
        return None
    return ("?", "?")
