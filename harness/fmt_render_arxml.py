"""C15: independent writer of an AUTOSAR 4 system description subset (CAN-CLUSTER, CAN-FRAME-TRIGGERING, CAN-FRAME, I-SIGNAL-I-PDU,
MULTIPLEXED-I-PDU, I-SIGNAL, SYSTEM-SIGNAL, COMPU-METHOD, UNIT, SW-BASE-TYPE, DATA-CONSTR, ECU-INSTANCE with ports), following the
element nesting and child order of the AUTOSAR 4 schema as seen in tests/files/arxml/ARXML_min_max.arxml (Vector tool output) and
ARXMLCompuMethod1.arxml.  Never calls canmatrix.

Conventions: START-POSITION = least significant bit for MOST-SIGNIFICANT-BYTE-LAST, most significant bit for
MOST-SIGNIFICANT-BYTE-FIRST, both in LSB0 numbering (TPS System Template, ISignalToIPduMapping.startPosition).
Scaling: COMPU-RATIONAL-COEFFS numerator (V0, V1), denominator (D): phys = (V0 + V1*raw)/D; V0 = offset*D, V1 = factor*D exactly.
Limits: DATA-CONSTR INTERNAL-CONSTRS hold raw limits, PHYS-CONSTRS physical ones.  Sign/float: SW-BASE-TYPE BASE-TYPE-ENCODING
NONE | 2C | IEEE754 (BOOLEAN for one-bit unsigned as an option); the base type's name says nothing.
Sender/receiver: FRAME-PORT OUT/IN of an ECU-INSTANCE's connector referenced by the frame triggering; I-SIGNAL-PORT IN referenced by the
I-SIGNAL-TRIGGERING.
Lexical choices: xml.*; denom (1,2,4,5,8,10,100,1000); identity ('linear' | 'identical' | 'omit': how factor 1/offset 0 without table is
written); compuref / constrref / unitref ('isignal' | 'syssignal', unitref also 'compu'); constr ('internal' | 'phys' | 'omit' when the
limits span the raw range); defaults ('omit' | 'explicit': CAN-ADDRESSING-MODE STANDARD, INTERVAL-TYPE CLOSED); num.scale (V),
num.limit (DATA-CONSTR limits), num.tt (text table limits; also 'hex'); bool1 (BOOLEAN encoding for 1-bit unsigned); lang (L attribute of L-2:
EN | FOR-ALL | DE); order.packages, order.elements; btname ('typed' | 'neutral'); idhex (IDENTIFIER as 0x..)
"""
import random

import xmlw
from xmlw import E
from netdesc import render_number, D

CANON = {"denom": 1, "identity": "linear", "compuref": "syssignal", "constrref": "syssignal", "unitref": "compu", "constr": "internal",
         "defaults": "explicit", "num.scale": "plain", "num.limit": "plain", "num.tt": "plain", "bool1": False, "lang": "EN",
         "order.packages": "asis", "order.elements": "asis", "btname": "typed", "idhex": False}
ENCODINGS = ["utf-8", "iso-8859-1"]
NS = "http://autosar.org/schema/r4.0"


def random_lex(rng):
    lex = {}
    def maybe(k, choices, p=0.35):
        if rng.random() < p:
            lex[k] = rng.choice(choices)
    maybe("denom", [2, 4, 5, 8, 10, 100, 1000], 0.6)
    maybe("identity", ["identical", "omit"], 0.4)
    maybe("compuref", ["isignal"])
    maybe("constrref", ["isignal"])
    maybe("unitref", ["isignal", "syssignal"], 0.5)
    maybe("constr", ["phys", "omit"], 0.4)
    maybe("defaults", ["omit"])
    maybe("num.scale", ["expE", "expe", "plus", "tz", "nz"], 0.5)
    maybe("num.limit", ["expE", "expe", "plus", "tz", "nz"], 0.5)
    maybe("num.tt", ["expE", "plus", "tz", "hex", "nz"], 0.35)
    maybe("bool1", [True])
    maybe("lang", ["FOR-ALL", "DE"])
    maybe("order.packages", ["rev", "shuf"])
    maybe("order.elements", ["rev", "shuf"])
    maybe("btname", ["neutral"])
    maybe("idhex", [True], 0.2)
    x = xmlw.xml_random_lex(rng, {})
    lex["order_seed"] = x.pop("order_seed")
    for k, v in x.items():
        lex["xml." + k] = v
    return lex


def render(desc, lex=None, encoding="utf-8"):
    lx = dict(CANON)
    lx.update(lex or {})
    orng = random.Random(lx.get("order_seed", 0))
    explicit = lx["defaults"] == "explicit"

    def order(mode, items):
        items = list(items)
        if mode == "rev":
            items.reverse()
        elif mode == "shuf":
            orng.shuffle(items)
        return items

    def sn(name):
        return E("SHORT-NAME", text=name)

    def desc_el(text):
        if not text:
            return None
        return E("DESC", children=[E("L-2", [("L", lx["lang"])], text=text)])

    def ref(tag, dest, path):
        return E(tag, [("DEST", dest)], text=path)

    pk = {n: [] for n in ("Cluster", "Ecu", "Frame", "Pdu", "ISignal", "SysSignal", "Compu", "Unit", "BaseType", "Constr")}
    # ---- units / base types (shared) ----
    units = {}

    def unit_path(u):
        if u not in units:
            name = "Unit_%d" % len(units)
            units[u] = "/Unit/" + name
            pk["Unit"].append(E("UNIT", children=[sn(name), E("DISPLAY-NAME", text=u)]))
        return units[u]
    basetypes = {}

    def base_path(sg):
        if sg["type"] == "float":
            enc, nm = "IEEE754", "float%d" % sg["width"]
        elif sg["type"] == "signed":
            enc, nm = "2C", "sint%d" % sg["width"]
        elif sg["width"] == 1 and lx["bool1"]:
            enc, nm = "BOOLEAN", "bit1"
        else:
            enc, nm = "NONE", "uint%d" % sg["width"]
        key = (enc, sg["width"])
        if key not in basetypes:
            name = nm if lx["btname"] == "typed" else "BaseType_%d" % len(basetypes)
            basetypes[key] = "/BaseType/" + name
            pk["BaseType"].append(E("SW-BASE-TYPE", children=[sn(name), E("CATEGORY", text="FIXED_LENGTH"),
                                                               E("BASE-TYPE-SIZE", text=str(sg["width"])), E("BASE-TYPE-ENCODING", text=enc)]))
        return basetypes[key]

    # ---- ECUs with ports ----
    # several clusters: every cluster has its own channel, triggerings and one connector per ECU; a frame shared between clusters is ONE
    # CAN-FRAME (with its PDUs, I-SIGNALs, ...) triggered in each of them with the ports - senders and receivers - that cluster has
    buses = [desc["frames"]] + [b["frames"] for b in desc.get("buses", [])]
    cur = [0]
    cname = lambda b: "CAN" if b == 0 else "CAN%d" % (b + 1)
    conn = lambda b, ecu: ("Conn_%s" if b == 0 else "Conn%d_%%s" % (b + 1)) % ecu
    ecu_ports = {(b, e["name"]): [] for b in range(len(buses)) for e in desc["ecus"]}
    port_n = [0]
    emitted = set()

    def port(ecu, kind, direction):
        port_n[0] += 1
        name = "%s_%s_%d" % ({"FRAME-PORT": "FP", "I-PDU-PORT": "PP", "I-SIGNAL-PORT": "SP"}[kind], direction, port_n[0])
        ecu_ports[(cur[0], ecu)].append(E(kind, children=[sn(name), E("COMMUNICATION-DIRECTION", text=direction)]))
        return "/Ecu/%s/%s/%s" % (ecu, conn(cur[0], ecu), name)

    trigs = {b: ([], [], []) for b in range(len(buses))}
    interval = [("INTERVAL-TYPE", "CLOSED")] if explicit else []

    def signal_elements(fr, sg, name):
        """I-SIGNAL, SYSTEM-SIGNAL, COMPU-METHOD, DATA-CONSTR for one described signal; returns the I-SIGNAL path"""
        ipath = "/ISignal/" + name
        spath = "/SysSignal/" + name + "_sys"
        if ("sig", name) in emitted:
            signal_triggering(fr, sg, name, ipath)
            return ipath
        emitted.add(("sig", name))
        props = {"isignal": [], "syssignal": []}
        props["isignal"].append(ref("BASE-TYPE-REF", "SW-BASE-TYPE", base_path(sg)))
        identity = sg["factor"] == 1 and sg["offset"] == 0 and not sg["values"]
        unit = unit_path(sg["unit"]) if sg["unit"] else None
        if not (identity and lx["identity"] == "omit" and (unit is None or lx["unitref"] != "compu")):
            cname = name + "_cm"
            cm = E("COMPU-METHOD", children=[sn(cname)])
            if identity and lx["identity"] == "identical":
                cm.add(E("CATEGORY", text="IDENTICAL"))
                if unit and lx["unitref"] == "compu":
                    cm.add(ref("UNIT-REF", "UNIT", unit))
            else:
                cm.add(E("CATEGORY", text="SCALE_LINEAR_AND_TEXTTABLE" if sg["values"] else "LINEAR"))
                if unit and lx["unitref"] == "compu":
                    cm.add(ref("UNIT-REF", "UNIT", unit))
                scales = []
                def tt(k):      # AUTOSAR numerical values may be written 0x1F as well
                    return ("0x%X" % k) if (lx["num.tt"] == "hex" and k >= 0) else render_number(k, "plain" if lx["num.tt"] == "hex" else lx["num.tt"])
                for k, lab in sorted(sg["values"].items()):
                    scales.append(E("COMPU-SCALE", children=[E("LOWER-LIMIT", interval, text=tt(k)),
                                                             E("UPPER-LIMIT", interval, text=tt(k)),
                                                             E("COMPU-CONST", children=[E("VT", text=lab)])]))
                d = D(lx["denom"])
                scales.append(E("COMPU-SCALE", children=[E("COMPU-RATIONAL-COEFFS", children=[
                    E("COMPU-NUMERATOR", children=[E("V", text=render_number(sg["offset"] * d, lx["num.scale"])),
                                                   E("V", text=render_number(sg["factor"] * d, lx["num.scale"]))]),
                    E("COMPU-DENOMINATOR", children=[E("V", text=render_number(d, lx["num.scale"]))])])]))
                cm.add(E("COMPU-INTERNAL-TO-PHYS", children=[E("COMPU-SCALES", children=scales)]))
            pk["Compu"].append(cm)
            props[lx["compuref"]].append(ref("COMPU-METHOD-REF", "COMPU-METHOD", "/Compu/" + cname))
        # limits
        w = sg["width"]
        lo, hi = (-(1 << (w - 1)), (1 << (w - 1)) - 1) if sg["type"] == "signed" else (0, (1 << w) - 1)
        full = sg["type"] != "float" and sg["min"] == sg["offset"] + lo * sg["factor"] and sg["max"] == sg["offset"] + hi * sg["factor"]
        if not (full and lx["constr"] == "omit"):
            kname = name + "_dc"
            if lx["constr"] == "phys":
                lims = E("PHYS-CONSTRS", children=[E("LOWER-LIMIT", interval, text=render_number(sg["min"], lx["num.limit"])),
                                                   E("UPPER-LIMIT", interval, text=render_number(sg["max"], lx["num.limit"]))])
            else:
                rlo, rhi = (sg["min"] - sg["offset"]) / sg["factor"], (sg["max"] - sg["offset"]) / sg["factor"]
                assert rlo * sg["factor"] + sg["offset"] == sg["min"] and rhi * sg["factor"] + sg["offset"] == sg["max"]
                lims = E("INTERNAL-CONSTRS", children=[E("LOWER-LIMIT", interval, text=render_number(rlo, lx["num.limit"])),
                                                       E("UPPER-LIMIT", interval, text=render_number(rhi, lx["num.limit"]))])
            pk["Constr"].append(E("DATA-CONSTR", children=[sn(kname), E("DATA-CONSTR-RULES", children=[E("DATA-CONSTR-RULE", children=[lims])])]))
            props[lx["constrref"]].append(ref("DATA-CONSTR-REF", "DATA-CONSTR", "/Constr/" + kname))
        if unit and lx["unitref"] in ("isignal", "syssignal"):
            props[lx["unitref"]].append(ref("UNIT-REF", "UNIT", unit))

        def ddp(items):      # schema order inside SW-DATA-DEF-PROPS-CONDITIONAL: BASE-TYPE-REF, COMPU-METHOD-REF, DATA-CONSTR-REF, UNIT-REF
            rank = {"BASE-TYPE-REF": 0, "COMPU-METHOD-REF": 1, "DATA-CONSTR-REF": 2, "UNIT-REF": 3}
            return E("SW-DATA-DEF-PROPS-VARIANTS", children=[E("SW-DATA-DEF-PROPS-CONDITIONAL", children=sorted(items, key=lambda e: rank[e.tag]))])
        isig = E("I-SIGNAL", children=[sn(name), E("DATA-TYPE-POLICY", text="OVERRIDE"), E("LENGTH", text=str(sg["width"])),
                                      E("NETWORK-REPRESENTATION-PROPS", children=[ddp(props["isignal"])]),
                                      ref("SYSTEM-SIGNAL-REF", "SYSTEM-SIGNAL", spath)])
        pk["ISignal"].append(isig)
        ss = E("SYSTEM-SIGNAL", children=[sn(name + "_sys"), desc_el(sg.get("comment")), E("DYNAMIC-LENGTH", text="false")])
        if props["syssignal"]:
            ss.add(E("PHYSICAL-PROPS", children=[ddp(props["syssignal"])]))
        pk["SysSignal"].append(ss)
        signal_triggering(fr, sg, name, ipath)
        return ipath

    def signal_triggering(fr, sg, name, ipath):
        # triggering (one per cluster) with the receivers' signal ports
        prefs = [ref("I-SIGNAL-PORT-REF", "I-SIGNAL-PORT", port(r, "I-SIGNAL-PORT", "IN")) for r in sg["receivers"]]
        prefs += [ref("I-SIGNAL-PORT-REF", "I-SIGNAL-PORT", port(s, "I-SIGNAL-PORT", "OUT")) for s in fr["senders"]]
        st = E("I-SIGNAL-TRIGGERING", children=[sn("ST_" + name)])
        if prefs:
            st.add(E("I-SIGNAL-PORT-REFS", children=prefs))
        st.add(ref("I-SIGNAL-REF", "I-SIGNAL", ipath))
        trigs[cur[0]][1].append(st)

    def mapping(sg, name, ipath):
        return E("I-SIGNAL-TO-I-PDU-MAPPING", children=[
            sn("M_" + name), ref("I-SIGNAL-REF", "I-SIGNAL", ipath),
            E("PACKING-BYTE-ORDER", text="MOST-SIGNIFICANT-BYTE-LAST" if sg["byte_order"] == "intel" else "MOST-SIGNIFICANT-BYTE-FIRST"),
            E("START-POSITION", text=str(sg["start"])), E("TRANSFER-PROPERTY", text="PENDING")])

    def signal_pdu(pname, fr, sigs):
        maps = [mapping(sg, sg["name"], signal_elements(fr, sg, sg["name"])) for sg in sigs]
        if ("pdu", pname) in emitted:
            return "/Pdu/" + pname
        emitted.add(("pdu", pname))
        p = E("I-SIGNAL-I-PDU", children=[sn(pname), E("LENGTH", text=str(fr["length"]))])
        if maps:
            p.add(E("I-SIGNAL-TO-PDU-MAPPINGS", children=maps))
        pk["Pdu"].append(p)
        return "/Pdu/" + pname

    for bidx, fr in [(b, f) for b, fs in enumerate(buses) for f in fs]:
        cur[0] = bidx
        frame_trigs, sig_trigs, pdu_trigs = trigs[bidx]
        fname = fr["name"]
        first_time = ("frame", fname) not in emitted
        emitted.add(("frame", fname))
        muxer = [s for s in fr["signals"] if s["mux"] and s["mux"]["role"] == "multiplexer"]
        if not muxer:
            pdu_path, pdu_dest = signal_pdu(fname + "_pdu", fr, fr["signals"]), "I-SIGNAL-I-PDU"
        else:
            mx = muxer[0]
            assert mx["byte_order"] == "intel"
            static = [s for s in fr["signals"] if not s["mux"]]
            sels = sorted({s["mux"]["selector"] for s in fr["signals"] if s["mux"] and s["mux"]["role"] == "muxed"})
            alts = []
            for sel in sels:
                pp = signal_pdu("%s_dyn%d" % (fname, sel), fr, [s for s in fr["signals"] if s["mux"] and s["mux"].get("selector") == sel])
                alts.append(E("DYNAMIC-PART-ALTERNATIVE", children=[ref("I-PDU-REF", "I-SIGNAL-I-PDU", pp), E("INITIAL-DYNAMIC-PART", text="false"),
                                                                     E("SELECTOR-FIELD-CODE", text=str(sel))]))
            mp = E("MULTIPLEXED-I-PDU", children=[sn(fname + "_pdu"), E("LENGTH", text=str(fr["length"])),
                                                  E("DYNAMIC-PARTS", children=[E("DYNAMIC-PART", children=[E("DYNAMIC-PART-ALTERNATIVES", children=alts)])]),
                                                  E("SELECTOR-FIELD-BYTE-ORDER", text="MOST-SIGNIFICANT-BYTE-LAST"),
                                                  E("SELECTOR-FIELD-LENGTH", text=str(mx["width"])),
                                                  E("SELECTOR-FIELD-START-POSITION", text=str(mx["start"]))])
            if static:
                sp = signal_pdu(fname + "_static", fr, static)
                mp.add(E("STATIC-PARTS", children=[E("STATIC-PART", children=[ref("I-PDU-REF", "I-SIGNAL-I-PDU", sp)])]))
            if first_time:
                pk["Pdu"].append(mp)
            pdu_path, pdu_dest = "/Pdu/" + fname + "_pdu", "MULTIPLEXED-I-PDU"
        if first_time:
          pk["Frame"].append(E("CAN-FRAME", children=[
              sn(fname), desc_el(fr.get("comment")), E("FRAME-LENGTH", text=str(fr["length"])),
              E("PDU-TO-FRAME-MAPPINGS", children=[E("PDU-TO-FRAME-MAPPING", children=[
                  sn("PM_" + fname), E("PACKING-BYTE-ORDER", text="MOST-SIGNIFICANT-BYTE-LAST"), ref("PDU-REF", pdu_dest, pdu_path),
                  E("START-POSITION", text="0")])])]))
        receivers = sorted({r for s in fr["signals"] for r in s["receivers"]})
        fprefs = [ref("FRAME-PORT-REF", "FRAME-PORT", port(s, "FRAME-PORT", "OUT")) for s in fr["senders"]]
        fprefs += [ref("FRAME-PORT-REF", "FRAME-PORT", port(r, "FRAME-PORT", "IN")) for r in receivers]
        pprefs = [ref("I-PDU-PORT-REF", "I-PDU-PORT", port(s, "I-PDU-PORT", "OUT")) for s in fr["senders"]]
        pprefs += [ref("I-PDU-PORT-REF", "I-PDU-PORT", port(r, "I-PDU-PORT", "IN")) for r in receivers]
        pt = E("PDU-TRIGGERING", children=[sn("PT_" + fname)])
        if pprefs:
            pt.add(E("I-PDU-PORT-REFS", children=pprefs))
        pt.add(ref("I-PDU-REF", pdu_dest, pdu_path))
        pdu_trigs.append(pt)
        ft = E("CAN-FRAME-TRIGGERING", children=[sn("FT_" + fname)])
        if fprefs:
            ft.add(E("FRAME-PORT-REFS", children=fprefs))
        ft.add(ref("FRAME-REF", "CAN-FRAME", "/Frame/" + fname))
        ft.add(E("PDU-TRIGGERINGS", children=[E("PDU-TRIGGERING-REF-CONDITIONAL", children=[
            ref("PDU-TRIGGERING-REF", "PDU-TRIGGERING", "/Cluster/%s/CH/PT_%s" % (cname(bidx), fname))])]))
        if fr["extended"]:
            ft.add(E("CAN-ADDRESSING-MODE", text="EXTENDED"))
        elif explicit:
            ft.add(E("CAN-ADDRESSING-MODE", text="STANDARD"))
        ft.add(E("IDENTIFIER", text=("0x%X" % fr["id"]) if lx["idhex"] else str(fr["id"])))
        frame_trigs.append(ft)

    for e in desc["ecus"]:
        n = e["name"]
        pk["Ecu"].append(E("ECU-INSTANCE", children=[
            sn(n), desc_el(e.get("comment")),
            E("CONNECTORS", children=[E("CAN-COMMUNICATION-CONNECTOR", children=[
                sn(conn(b, n)), E("ECU-COMM-PORT-INSTANCES", children=ecu_ports[(b, n)]) if ecu_ports[(b, n)] else None])
                for b in range(len(buses)) if (b == 0 or ecu_ports[(b, n)])])]))
    for b in range(len(buses)):
        frame_trigs, sig_trigs, pdu_trigs = trigs[b]
        chan = E("CAN-PHYSICAL-CHANNEL", children=[
            sn("CH"),
            E("COMM-CONNECTORS", children=[E("COMMUNICATION-CONNECTOR-REF-CONDITIONAL", children=[
                ref("COMMUNICATION-CONNECTOR-REF", "CAN-COMMUNICATION-CONNECTOR", "/Ecu/%s/%s" % (e["name"], conn(b, e["name"])))])
                for e in desc["ecus"] if (b == 0 or ecu_ports[(b, e["name"])])]),
            E("FRAME-TRIGGERINGS", children=order(lx["order.elements"], frame_trigs)) if frame_trigs else None,
            E("I-SIGNAL-TRIGGERINGS", children=order(lx["order.elements"], sig_trigs)) if sig_trigs else None,
            E("PDU-TRIGGERINGS", children=order(lx["order.elements"], pdu_trigs)) if pdu_trigs else None])
        pk["Cluster"].append(E("CAN-CLUSTER", children=[sn(cname(b)), E("CAN-CLUSTER-VARIANTS", children=[E("CAN-CLUSTER-CONDITIONAL", children=[
            E("BAUDRATE", text="500000"), E("PHYSICAL-CHANNELS", children=[chan]), E("PROTOCOL-NAME", text="CAN"), E("SPEED", text="500000")])])]))

    packages = []
    for name in ("Cluster", "Ecu", "Frame", "Pdu", "ISignal", "SysSignal", "Compu", "Unit", "BaseType", "Constr"):
        if pk[name]:
            packages.append(E("AR-PACKAGE", children=[sn(name), E("ELEMENTS", children=order(lx["order.elements"], pk[name]))]))
    root = E("AUTOSAR", [("xmlns", NS), ("xmlns:xsi", "http://www.w3.org/2001/XMLSchema-instance"),
                         ("xsi:schemaLocation", NS + " AUTOSAR_4-2-2.xsd")],
             children=[E("AR-PACKAGES", children=order(lx["order.packages"], packages))])
    xl = {k[4:]: v for k, v in lx.items() if k.startswith("xml.")}
    xl["order_seed"] = lx.get("order_seed", 0)
    return xmlw.serialise(root, xl, encoding)


def render_with_opts(desc, lex, encoding):
    return render(desc, lex, encoding), {}
