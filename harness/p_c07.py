"""C07: round trips preserve value interpretation where the format carries it.
Search: same round trips as C06 (harness/fmt_rt.py), per-format feature table of the property text: frame length, sign/float
type, factor and offset as exact Decimals, value tables, units, multiplexer role and selector values, senders, receivers;
phys_value / named_value of 8 payloads per frame for the signals whose carried features came back.
Tie: type words, multiplex tokens and decimal texts found in the real output against model/FmtNum.v (cmd 701-709), the real
reader's result against the model's reading of those fields."""
import copy
import decimal
import json

import core
import fmt_rt
from p_c06 import Fwd, round_trip, check_types, chain_stage, frame_kind

D = decimal.Decimal

LEVEL_NOTE = ("partial by design: the theorems are about the field codecs of model/FmtNum.v (type words, multiplex tokens, decimal text "
              "rendering and parsing as (coefficient, exponent) pairs); the file syntax around them (regexes, lxml, json, xlwt/xlrd), value-table and "
              "unit strings, sender/receiver lists are compared on generated matrices only. Python's decimal module is modelled only as far as "
              "str(Decimal) / Decimal(str) of finite numbers; '%g' is not modelled (the repaired writers no longer use it). Per-signal receivers are "
              "compared (frame-level receiver lists are derived data); senders as sets (DBF: first sender)")

QUICK = {"dbc": 90, "dbf": 90, "sym": 90, "kcd": 90, "json-all": 80, "xls-msbreverse": 30, "xls-msb": 30, "xls-lsb": 30,
         "arxml3": 44, "arxml4": 44}
THOROUGH_FACTOR = 40


def deq(a, b):
    a, b = D(a), D(b)
    if a.is_nan() or b.is_nan():
        return a.is_nan() and b.is_nan()
    return a == b


def same_value(a, b):
    if isinstance(a, str) or isinstance(b, str):
        return a == b
    try:
        return deq(a, b)
    except Exception:  # noqa
        return a == b


def compare_features(chk, viol, cfg, rng, orig, back, mk_info):
    want_buses = {fmt_rt.bus_key_after(cfg, n): m for n, m in orig.items()}
    car = cfg.carries
    names_count = {}        # signals by name over the whole file (all buses)
    for odb in want_buses.values():
        for f in odb.frames:
            for s in f.signals:
                names_count.setdefault(s.name, []).append(s)
    for bname, odb in want_buses.items():
        bdb = back.get(bname) if cfg.cluster else list(back.values())[0]
        if bdb is None:
            continue
        bframes = {}
        for f in bdb.frames:
            bframes.setdefault(fmt_rt.fkey(f), f)
        for fo in odb.frames:
            k = fmt_rt.fkey(fo)
            if k not in bframes or not fmt_rt.frame_written(cfg, fo):
                continue            # frame identity is C06's subject
            fb = bframes[k]
            info = lambda s=None: mk_info(fo, s)
            kind = frame_kind(fo, {fmt_rt.fkey(x): x for x in odb.frames})
            known_keys = {x.get("key") for x in chk.known}
            fv = viol if not kind else (lambda key, *rest, kind=kind: viol(key if key in known_keys else key + "@" + kind, *rest))
            if fo.is_j1939:
                chk.count("frame-kind:j1939")
            if any(fmt_rt.fkey(x) == (k[0], not k[1]) for x in odb.frames):
                chk.count("frame-kind:id-twin (same number, other format)")
            nontriv = False
            frame_ok = True
            if "length" in car and int(fo.size) != int(fb.size):
                fv(cfg.kbase + "-length", "frame length changed", info(), int(fo.size), int(fb.size))
                frame_ok = False
            if "senders" in car and sorted(set(fo.transmitters)) != sorted(set(fb.transmitters)):
                key = cfg.kbase + "-senders"
                lost = set(fo.transmitters) - set(fb.transmitters)
                sig_recv = {r for s in fo.signals for r in s.receivers}
                if cfg.fmt == "arxml" and lost and lost <= sig_recv and set(fb.transmitters) <= set(fo.transmitters):
                    key = "arxml-sender-also-receiver"
                fv(key, "frame senders changed", info(), list(fo.transmitters), list(fb.transmitters))
            if "first_sender" in car and list(fb.transmitters)[:1] != list(fo.transmitters)[:1]:
                # only the FIRST sender is constrained for this format: it comes back, and comes back first (a frame without sender comes
                # back without one); whether further senders are dropped or kept is left open
                fv(cfg.kbase + "-first-sender", "first sender not preserved", info(), list(fo.transmitters)[:1], list(fb.transmitters))
            if len(fo.transmitters) > 1:
                chk.count("multi-sender-frames")
            got = {}
            for s in fb.signals:
                got.setdefault(s.name, s)
            sig_ok = {}
            mux_ok = True
            if "xmux" in car and bool(fo.is_complex_multiplexed) != bool(fb.is_complex_multiplexed):
                fv(cfg.kbase + "-xmux-flag", "is_complex_multiplexed changed", info(), bool(fo.is_complex_multiplexed), bool(fb.is_complex_multiplexed))
                mux_ok = False
            for so in fo.signals:
                n = fmt_rt.expected_signal_name(cfg, fo, so)
                if n not in got:
                    if "mux" in car and so.mux_val is not None:
                        fv(cfg.kbase + "-mux-group-signal-lost", "signal of multiplex group %s is missing after the round trip" % so.mux_val,
                             info(n), n, sorted(got))
                        mux_ok = False
                    continue        # otherwise C06's subject
                sb = got[n]
                ok = True
                sym_mux = cfg.fmt == "sym" and so.is_multiplexer
                if "type" in car:
                    if bool(so.is_float) != bool(sb.is_float):
                        key = cfg.kbase + "-type-float"
                        if cfg.fmt == "sym" and so.is_float and so.is_signed:
                            key = "sym-float-signed"
                        fv(key, "float type changed", info(n), bool(so.is_float), bool(sb.is_float))
                        ok = False
                    elif not so.is_float and bool(so.is_signed) != bool(sb.is_signed):
                        fv(cfg.kbase + "-type-signed", "signedness changed (width %d)" % so.size, info(n), bool(so.is_signed), bool(sb.is_signed))
                        ok = False
                    chk.count("type:%s" % ("float%d" % so.size if so.is_float else ("signed" if so.is_signed else "unsigned")))
                if "scaling" in car:
                    for which in ("factor", "offset"):
                        a, b = D(getattr(so, which)), D(getattr(sb, which))
                        nd = fmt_rt.dec_digits(a)
                        chk.count("digits:%s" % (nd if nd <= 6 else "7-12"))
                        if nd > 6:
                            nontriv = True
                        if a.as_tuple().exponent > 0 or abs(a.adjusted()) > 6:
                            chk.count("scaling:exponent-form")
                        if not deq(a, b):
                            key = cfg.kbase + "-scaling"
                            if nd > 6 and deq(b, D("%g" % a)):
                                key = cfg.fmt + "-scaling-digits"
                            fv(key, "%s is not the same decimal number" % which, info(n), str(a), str(b))
                            ok = False
                if "values" in car and not sym_mux:
                    a = {int(x): y for x, y in so.values.items()}
                    b = {int(x): y for x, y in sb.values.items()}
                    if a:
                        chk.count("value-tables")
                    if a != b:
                        key = cfg.kbase + "-values"
                        if cfg.fmt == "sym" and any({int(x): y for x, y in o.values.items()} != a for o in names_count[so.name]):
                            key = "sym-values-enum-name-collision"
                        elif cfg.fmt == "kcd" and so.is_multiplexer and b == {} and not any(x.mux_val is not None for x in fo.signals):
                            key = "kcd-lone-multiplexer-values"     # <Multiplex> without any MuxGroup: Value/LabelSet are never appended
                        fv(key, "value table changed", info(n), a, b)
                        ok = False
                if "unit" in car:
                    if so.unit != sb.unit:
                        key = cfg.kbase + "-unit"
                        if so.unit == "" and sb.unit is None:
                            key = cfg.fmt + "-unit-empty-none"
                        fv(key, "unit changed", info(n), so.unit, sb.unit)
                        ok = False
                if "mux" in car:
                    a = (bool(so.is_multiplexer), so.mux_val)
                    b = (bool(sb.is_multiplexer), sb.mux_val)
                    if so.mux_val == 0:
                        chk.count("mux:selector-0")
                        nontriv = True
                    elif so.mux_val is not None:
                        chk.count("mux:selector-nonzero")
                    if a != b:
                        key = cfg.kbase + ("-mux-role" if a[0] != b[0] else "-mux-selector")
                        if b == (False, None):
                            key = cfg.kbase + "-mux-lost"
                        fv(key, "multiplexer role / selector value changed", info(n), list(a), list(b))
                        ok = False
                        mux_ok = False
                    if "xmux" in car and fo.is_complex_multiplexed:
                        a = ([list(map(int, r)) for r in so.mux_val_grp], so.muxer_for_signal)
                        b = ([list(map(int, r)) for r in sb.mux_val_grp], sb.muxer_for_signal)
                        if a != b:
                            fv(cfg.kbase + "-xmux", "extended multiplexing (selector ranges / multiplexer reference) changed", info(n), list(a), list(b))
                            ok = False
                            mux_ok = False
                if "receivers" in car:
                    a, b = list(so.receivers), list(sb.receivers)
                    chk.count("receivers:%d" % len(a))
                    if sorted(a) != sorted(b):
                        key = cfg.fmt + "-receivers"
                        if cfg.fmt == "dbf" and len(a) > 1 and b == a[:1]:
                            key = "dbf-receivers-first-only"
                        elif cfg.fmt == "dbf" and a == [] and b == [""]:
                            key = "dbf-receivers-empty-string"
                        elif cfg.fmt == "kcd" and len(names_count.get(so.name, [])) > 1:
                            key = "kcd-receivers-merged-same-name"
                        fv(key, "signal receivers changed", info(n), a, b)
                sig_ok[so.name] = (ok, n)
            # ---- consequence: physical and named values of payloads ----
            phys_ok = {"type", "scaling"} <= car
            named_ok = phys_ok and "values" in car
            xls_named = cfg.fmt == "xls"      # value tables without type: comparable for unsigned integer signals
            if (phys_ok or xls_named) and frame_ok:
                fdec = fb
                if int(fb.size) != int(fo.size):
                    fdec = copy.copy(fb)
                    fdec.size = int(fo.size)
                for data in fmt_rt.payloads(rng, fo, 8):
                    do, dbk = fmt_rt.decode(fo, data), fmt_rt.decode(fdec, data)
                    if isinstance(do, Exception):
                        chk.count("decode-original-raises")
                        continue
                    if isinstance(dbk, Exception):
                        fv(cfg.kbase + "-decode-raises", "Frame.decode of the re-read frame raises", info() | {"payload": data.hex()}, "decoded", repr(dbk))
                        break
                    if "mux" in car and mux_ok:
                        exp_names = sorted(sig_ok[x][1] for x in do if x in sig_ok)
                        if exp_names != sorted(x for x in dbk if x in [v[1] for v in sig_ok.values()]):
                            fv(cfg.kbase + "-decode-selection", "another set of signals is decoded for this payload", info() | {"payload": data.hex()},
                                 exp_names, sorted(dbk))
                            break
                    stop = False
                    for name, ds in do.items():
                        if name not in sig_ok or not sig_ok[name][0] or sig_ok[name][1] not in dbk:
                            chk.count("decode-compare-skipped")
                            continue
                        dsb = dbk[sig_ok[name][1]]
                        if xls_named and (ds.signal.is_float or ds.signal.is_signed):
                            continue
                        if cfg.fmt == "sym" and ds.signal.is_multiplexer:
                            continue    # by design the re-read multiplexer carries the Mux= names as its value table
                        try:
                            pa, pb = ds.phys_value, dsb.phys_value
                            na, nb = ds.named_value, dsb.named_value
                        except Exception as e:  # noqa
                            chk.count("phys-raises:" + type(e).__name__)
                            continue
                        chk.count("payload-values-compared")
                        if phys_ok and not same_value(pa, pb):
                            fv(cfg.kbase + "-phys-value", "payload decodes to another physical value", info(name) | {"payload": data.hex()}, str(pa), str(pb))
                            stop = True
                        if (named_ok or xls_named) and (isinstance(na, str) != isinstance(nb, str) or (isinstance(na, str) and na != nb)):
                            fv(cfg.kbase + "-named-value", "payload decodes to another named value", info(name) | {"payload": data.hex()}, str(na), str(nb))
                            stop = True
                        elif named_ok and not isinstance(na, str) and not same_value(na, nb):
                            fv(cfg.kbase + "-named-value", "payload decodes to another named value", info(name) | {"payload": data.hex()}, str(na), str(nb))
                            stop = True
                    if stop:
                        break
            canon = json.dumps(fmt_rt.frame_brief(fo), sort_keys=True, default=str)
            chk.case((cfg.key, canon), nontriv or any(s.mux_val is not None or s.is_float or s.values for s in fo.signals))


# ----------------------------------------------------------------------------------------------------------------------
# histories: a matrix (freshly built, or as the format's own reader returned it) is exported, its value interpretation is
# edited IN PLACE, and the same objects are exported again.  The file must describe the current state: it has to read back
# with the edited features (compare_features) and like the export of a fresh deep copy of the same matrix.
def edit_values_in_place(rng, C, cfg, buses):
    frames = [(m, f) for m in buses.values() for f in m.frames]
    m, fr = rng.choice(frames)
    ecus = [e.name for e in m.ecus]
    s = rng.choice(fr.signals)
    sym_or_kcd_mux = s.is_multiplexer and cfg.fmt in ("sym", "kcd")
    kind = rng.choice(["values-replace", "values-replace", "values-add", "values-clear", "scaling", "unit", "sign", "receivers", "senders"])
    lo, hi = s.calculate_raw_range()
    if kind.startswith("values"):
        if s.is_float or (s.is_multiplexer and cfg.fmt == "sym"):
            return None
        if kind == "values-replace":
            keys = sorted({rng.randrange(max(int(lo), -3), min(int(hi), 12) + 1) for _ in range(rng.randrange(1, 4))})
            s.values = {k: "New%d_%d" % (k if k >= 0 else -k, rng.randrange(100)) for k in keys}     # a NEW dict object
        elif kind == "values-add":
            s.add_values(rng.randrange(max(int(lo), 0), min(int(hi), 12) + 1), "Added%d" % rng.randrange(100))
        else:
            if not s.values:
                return None
            s.values = {}
    elif kind == "scaling":
        if sym_or_kcd_mux or s.is_multiplexer:
            return None
        s.factor = fmt_rt.matgen.rand_decimal(rng, 9, allow_neg=False, nonzero=True)
        s.offset = fmt_rt.matgen.rand_decimal(rng, 9)
        if not s.is_float:
            a, b = s.offset + lo * s.factor, s.offset + hi * s.factor
            s.min, s.max = min(a, b), max(a, b)
    elif kind == "unit":
        if s.is_multiplexer:
            return None
        s.unit = rng.choice(["", "mV", "1/min", "l/100km", "deg"])[: cfg.feats.get("unit_max", 100)]
    elif kind == "sign":
        if s.is_float or s.is_multiplexer or s.values:
            return None
        s.is_signed = not s.is_signed
        lo, hi = s.calculate_raw_range()
        a, b = s.offset + lo * s.factor, s.offset + hi * s.factor
        s.min, s.max = min(a, b), max(a, b)
    elif kind == "receivers":
        if s.is_multiplexer or not ecus:
            return None
        e = rng.choice(ecus)
        if e in s.receivers:
            s.del_receiver(e)
        else:
            s.add_receiver(e)
        fr.receivers = []
        fr.update_receiver()
    else:
        if not ecus:
            return None
        e = rng.choice(ecus)
        if e in fr.transmitters:
            if len(fr.transmitters) < 2:
                return None
            fr.del_transmitter(e)
        else:
            fr.add_transmitter(e)
    return kind


def history_stage(chk, viol, C, F, rng):
    known = {k.get("key") for k in chk.known}
    per_cfg = 6 if chk.tier != "thorough" else 40
    for cfg in fmt_rt.CONFIGS:
        if "C07" not in cfg.props:
            continue
        for it in range(per_cfg):
            reader_made = it % 2 == 1
            if reader_made:
                # "read a file, edit, write it again": the matrix is what this format's own reader returned
                m, _ = fmt_rt.gen_chain_source(rng, C, F, cfg, cfg, 12)
                if m is None or fmt_rt.inside_envelope(cfg, m) is not None:
                    chk.count("history-source-skipped:" + cfg.fmt)
                    continue
                buses = {"Chain": m} if cfg.cluster else {"": m}
            else:
                buses = fmt_rt.gen_case(rng, C, cfg, digits=12, nbuses=1)
            chk.count("history-source:%s" % ("reader-made" if reader_made else "built"))
            trail = []

            def mk_info(fr=None, sig=None, cfg=cfg, it=it, trail=trail, reader_made=reader_made):
                d = {"format": cfg.key, "options": cfg.opts, "iteration": it, "edits": list(trail),
                     "history": ("matrix read from a %s file, " % cfg.fmt if reader_made else "matrix built through the API, ")
                     + "exported, then edited in place and the SAME objects exported again"}
                if fr is not None:
                    d["frame"] = fmt_rt.frame_brief(fr)
                if sig is not None:
                    d["signal"] = sig
                return d
            skip = lambda *a, **k: chk.count("round-trip-raises (C06's subject)")
            if round_trip(F, cfg, buses, skip, mk_info) is None:
                continue
            for step in range(3):
                what = edit_values_in_place(rng, C, cfg, buses)
                if what is None:
                    chk.count("history-edit-not-applicable")
                    continue
                trail.append(what)
                chk.count("history-edit:" + what)
                fresh = copy.deepcopy(buses)
                state = copy.deepcopy(buses)
                r_fresh = round_trip(F, cfg, fresh, skip, mk_info)
                r_used = round_trip(F, cfg, buses, skip, mk_info)
                if r_fresh is None or r_used is None or r_fresh[1] is None or r_used[1] is None:
                    break
                chk.count("history-exports:" + cfg.fmt)
                a = {n: fmt_rt.matgen.normal_form(x)["frames"] for n, x in r_used[1].items()}
                b = {n: fmt_rt.matgen.normal_form(x)["frames"] for n, x in r_fresh[1].items()}
                if a != b:
                    viol(cfg.kbase + "-reused-object-differs-from-fresh", "after an in-place edit (%s) the export of the same objects reads back differently "
                         "from the export of a fresh copy of the same matrix" % what, mk_info(),
                         [list(map(str, x)) for x in fmt_rt.matgen.diff(b, a)[:6]], "paths: fresh value vs re-used value")
                compare_features(chk, lambda key, *rest: viol(key if key in known else "after-edit:" + key, *rest), cfg, rng, state, r_used[1], mk_info)


def run(chk):
    chk.rule = ("same configurations and envelopes as C06 (json only with jsonExportAll); factors and offsets with 1..12 significant digits, exponents "
                "-6..2 (so that str(Decimal) uses exponent forms), negative offsets, width classes 1..64 with float32/float64, value tables with negative "
                "keys on signed signals, units from a pool incl. '%' and 'm/s^2', simple multiplexing with selector 0 forced into half the frames, extended "
                "multiplexing for dbc/json-all, 1..3 senders, 0..3 receivers per signal; matrix-wide value tables, some named like a signal with other content; "
                "conversion chains A->B; histories: a built or reader-made matrix exported, edited in place (value table replaced/extended/cleared, scaling, unit, sign, receivers, "
                "senders) and the same objects exported again, compared with the edited state and with a fresh deep copy's export. one evaluation = one frame compared feature by feature per the "
                "property's table; non-trivial = a factor/offset with more than 6 digits, a multiplexed, float or value-table signal; distinct by "
                "(configuration, frame normal form)")
    chk.notes.append("envelope decisions (DESIGN.md Appendix A): SYM has no place for a non-multiplexed signal in a multiplexed frame (the writer repeats it "
                     "in every Mux= block, the reader returns one copy per block with that block's selector) - generated SYM multiplexed frames hold the "
                     "multiplexer and group signals only; KCD multiplexers are Intel, unsigned, unscaled; extended multiplexing only for DBC and JSON; "
                     "cluster files are generated with file-wide unique frame names (and signal names for ARXML); frames flagged for extended multiplexing "
                     "without any multiplexed signal are treated as plain frames")
    ok = chk.build_and_audit()
    cm = core.import_impl()
    C = cm.canmatrix
    import canmatrix.formats as F
    rng = chk.rng
    viol = Fwd(chk)
    factor = THOROUGH_FACTOR if chk.tier == "thorough" else 1
    tie_cases = []
    for cfg in fmt_rt.CONFIGS:
        if "C07" not in cfg.props:
            continue
        for it in range(QUICK[cfg.key] * factor):
            nb = rng.choice([1, 1, 2, 3]) if cfg.cluster else 1
            buses = fmt_rt.gen_case(rng, C, cfg, digits=12, nbuses=nb)
            orig = copy.deepcopy(buses)
            chk.count("matrices:" + cfg.key)

            def mk_info(fr=None, sig=None, cfg=cfg, orig=orig, it=it):
                d = {"format": cfg.key, "options": cfg.opts, "iteration": it}
                if fr is not None:
                    d["frame"] = fmt_rt.frame_brief(fr)
                else:
                    d["frames"] = {n: [[f.name, f.arbitration_id.id, bool(f.arbitration_id.extended)] for f in m.frames] for n, m in orig.items()}
                if sig is not None:
                    d["signal"] = sig
                return d
            # a reader/writer that raises is reported by C06 (identity); here only counted
            r = round_trip(F, cfg, buses, lambda *a, **k: chk.count("round-trip-raises (C06's subject)"), mk_info)
            if r is None or r[1] is None:
                continue
            data, back = r
            check_types(chk, viol, cfg, back, "value", mk_info)
            compare_features(chk, viol, cfg, rng, orig, back, mk_info)
            tie_cases.append((cfg, orig, data, back))
    for label, fmts, db in fmt_rt.directed(C):
        for cfg in fmt_rt.CONFIGS:
            if "C07" not in cfg.props or (fmts is not None and cfg.fmt not in fmts):
                continue
            buses = {"Directed": copy.deepcopy(db)} if cfg.cluster else {"": copy.deepcopy(db)}
            orig = copy.deepcopy(buses)
            chk.count("directed:" + label)

            def mk_info(fr=None, sig=None, cfg=cfg, label=label):
                d = {"format": cfg.key, "options": cfg.opts, "directed": label}
                if fr is not None:
                    d["frame"] = fmt_rt.frame_brief(fr)
                if sig is not None:
                    d["signal"] = sig
                return d
            r = round_trip(F, cfg, buses, lambda *a, **k: chk.count("round-trip-raises (C06's subject)"), mk_info)
            if r is None or r[1] is None:
                continue
            check_types(chk, viol, cfg, r[1], "value", mk_info)
            compare_features(chk, viol, cfg, rng, orig, r[1], mk_info)
            tie_cases.append((cfg, orig, r[0], r[1]))
    chain_stage(chk, viol, C, F, rng, "C07", 12, compare_features, "value", tie_cases)
    history_stage(chk, viol, C, F, rng)
    chk.sample({"format": "kcd", "signal": "factor 0.123456789, offset 1.00000001 -> slope/intercept text must give the same Decimals"})
    chk.sample({"format": "json-all", "frame": "multiplexer + groups 0 and 5", "re-read": "is_multiplexer / mux_val per signal, decode selects the group"})
    chk.sample({"format": "sym", "signal": "Signal(is_float=True) with default is_signed=True, 32 bit -> type word float"})
    if tie_cases:
        cfg, orig, data, back = tie_cases[0]
        chk.sample({"format": cfg.key, "frame": fmt_rt.frame_brief(list(orig.values())[0].frames[0])})
    if not ok:
        chk.ties["correspondence"] = "not run (build failed)"
        return
    tie(chk, tie_cases)


# ----------------------------------------------------------------------------------------------------------------------
TYPE_FMT = {"dbc": 1, "dbf": 2, "sym": 3, "kcd": 4, "json-all": 5, "arxml4": 7, "arxml3": 9}
NUM_RE = __import__("re").compile(r"^(-?)(\d*)(?:\.(\d*))?(?:[eE]([+-]?)(\d+))?$")


def num_struct(text):
    """token structure of a number text as the model's io groups: [neg] | int digits | frac digits | [-1] or [neg, digits...]"""
    m = NUM_RE.match(text.strip())
    if not m:
        return None
    e = [-1] if m.group(5) is None else [1 if m.group(4) == "-" else 0] + [int(c) for c in m.group(5)]
    return [[1 if m.group(1) else 0], [int(c) for c in m.group(2)], [int(c) for c in (m.group(3) or "")], e]


def dec_tuple(d):
    t = D(d).as_tuple()
    return [int(t.sign), int("".join(map(str, t.digits)) or "0"), int(t.exponent)]


def tie(chk, tie_cases):
    """W: type words / multiplex tokens / number texts in the real output == model write;
       R: what the real reader stored == model read of the fields in the file."""
    lines, expect, info = [], [], []

    def add(cmd, groups, exp, inf):
        lines.append(core.fmt_case(cmd, groups))
        expect.append(exp)
        info.append(inf)
    for cfg, orig, data, back in tie_cases:
        try:
            ex = fmt_rt.extract(cfg, data)
        except Exception as e:  # noqa
            chk.tie_break("extractor", {"format": cfg.key}, "extractor failed: %r" % e, None)
            continue
        tfmt = TYPE_FMT.get(cfg.key)
        for bname, odb in orig.items():
            xb = ex.get(fmt_rt.bus_key_after(cfg, bname) if cfg.cluster else "", {})
            bdb = back.get(fmt_rt.bus_key_after(cfg, bname)) if cfg.cluster else list(back.values())[0]
            if bdb is None:
                continue
            for fo in odb.frames:
                xf = xb.get(fo.name)
                fb = next((f for f in bdb.frames if f.name in (fo.name, "FRAME_" + fo.name)), None)
                if xf is None or fb is None or not fmt_rt.frame_written(cfg, fo):
                    continue
                for so in fo.signals:
                    sinf = {"format": cfg.key, "frame": fo.name, "signal": so.name}
                    sb = next((s for s in fb.signals if s.name == fmt_rt.expected_signal_name(cfg, fo, so)), None)
                    xs = xf["signals"].get(so.name)
                    # SYM selector token of the group this signal belongs to
                    if cfg.fmt == "sym" and so.mux_val is not None and sb is not None:
                        msig = next((s for s in fo.signals if s.is_multiplexer), None)
                        ml = next((m for m in xf.get("muxlines", []) if m["value"] == so.mux_val), None)
                        if msig is not None and ml is not None:
                            tok = ml["token"]
                            hexa = tok.endswith("h")
                            ds = [int(c, 16) for c in (tok[:-1] if hexa else tok)]
                            add(705, [[int(msig.size), int(so.mux_val)]], ("W", [[int(hexa)], ds]), dict(sinf, what="selector token in file"))
                            add(706, [[int(hexa)], ds], ("sem-sel", int(so.mux_val)), dict(sinf, what="selector token in file read by the model"))
                            add(706, [[int(hexa)], ds], [[int(sb.mux_val) if sb.mux_val is not None else -1]], dict(sinf, what="selector read"))
                    if xs is None or sb is None:
                        continue
                    # ---- type ----
                    if tfmt is not None and xs.get("type") is not None and "type" in cfg.carries:
                        add(701, [[tfmt, int(so.size), int(bool(so.is_signed)), int(bool(so.is_float))]], ("W", [xs["type"]]), dict(sinf, what="type fields in file"))
                        add(702, [[tfmt], xs["type"]], ("sem-type", bool(so.is_signed), bool(so.is_float), tfmt), dict(sinf, what="type fields in file read by the model"))
                        add(702, [[tfmt], xs["type"]], [[1, int(bool(sb.is_signed)), int(bool(sb.is_float))]], dict(sinf, what="type read"))
                    # ---- multiplex token ----
                    if xs.get("mux") is not None and "mux" in cfg.carries:
                        kind = 1 if cfg.fmt == "dbc" else 2
                        tok = xs["mux"][:1] if xs["mux"][0] in (0, 1) else list(xs["mux"])
                        mv = -1 if so.mux_val is None else int(so.mux_val)
                        add(703, [[kind, int(bool(so.is_multiplexer)), mv]], ("W", [tok]), dict(sinf, what="multiplex token in file"))
                        add(704, [[kind], tok], ("sem-mux", bool(so.is_multiplexer), mv, kind), dict(sinf, what="multiplex token in file read by the model"))
                        add(704, [[kind], tok], [[1, int(bool(sb.is_multiplexer)), -1 if sb.mux_val is None else int(sb.mux_val)]], dict(sinf, what="multiplex read"))
                    # ---- factor / offset texts ----
                    if "scaling" in cfg.carries:
                        for which in ("factor", "offset"):
                            text = xs.get(which)
                            if text is None:
                                continue        # omitted by the writer (factor 1 / offset 0)
                            st = num_struct(str(text))
                            if st is None:
                                chk.tie_break("number-text", dict(sinf, which=which), "not a number text: %r" % text, None)
                                continue
                            d = dec_tuple(getattr(so, which))
                            add(708 if cfg.fmt in ("dbc", "sym") else 707, [d], ("W", st), dict(sinf, what=which + " text in file", text=str(text)))
                            add(709, st, ("sem-dec", d), dict(sinf, what=which + " text in file read by the model", text=str(text)))
                            add(709, st, ("sem-dec", dec_tuple(getattr(sb, which))), dict(sinf, what=which + " read", text=str(text)))
    out = core.run_model(lines)
    bad = 0

    def value_of(neg, coef, exp):
        return (-1 if neg else 1) * D(int(coef)).scaleb(int(exp))
    for inf, exp, o in zip(info, expect, out):
        got = core.parse_out(o)
        if isinstance(exp, tuple):
            tag = exp[0]
            if tag == "W":
                # how a writer spells a field (bare digit or hex selector, 1E+3 or 1000, a default stated or left out) is not
                # constrained by the property: a spelling other than the model writer's is recorded, not judged; what the
                # spelling MEANS is judged by the sem-* cases (model reader on the file's fields) and the reader tie
                chk.count("writer-spelling:%s" % ("as-model" if got == exp[1] else "other-than-model:" + inf["what"]))
                continue
            if tag == "sem-sel":
                ok_ = got == [[exp[1]]]
            elif tag == "sem-type":
                _, s0, f0, tf = exp
                ok_ = len(got) == 1 and len(got[0]) == 3 and got[0][0] == 1 and bool(got[0][2]) == f0 and \
                    (f0 or tf == 9 or bool(got[0][1]) == s0)       # a float's sign flag carries no meaning; AUTOSAR 3 carries no sign (known finding)
            elif tag == "sem-mux":
                _, im, mv, kind = exp
                want = [1, int(im), mv if (kind == 1 or not im) else -1]
                ok_ = got == [want]
            else:   # sem-dec: the same number, whatever (digits, exponent) representation
                ok_ = len(got) == 1 and len(got[0]) == 4 and got[0][0] == 1 and value_of(*got[0][1:]) == value_of(*exp[1]) \
                    and (bool(got[0][1]) == bool(exp[1][0]) or int(exp[1][1]) == 0)
            if not ok_:
                bad += 1
                chk.tie_break("fmtnum", inf, got, list(exp))
            continue
        if got != exp:
            bad += 1
            chk.tie_break("fmtnum", inf, got, exp)
    chk.ties["correspondence"] = {"suite": "fmtnum W+R (cmd 701-709)", "cases": len(lines), "disagreements": bad, "files": len(tie_cases)}
    eligible = [i for i in range(len(lines)) if not isinstance(expect[i], tuple)]
    idx = chk.rng.sample(eligible, min(300, len(eligible)))
    shard = []
    for i in idx:
        c, groups = lines[i].split(" ", 1)
        shard.append((int(c, 16), core.parse_out(groups), expect[i]))
    mm, log = core.coq_shard(shard, "c07")
    chk.ties["vm_compute_shard"] = {"cases": len(shard), "mismatches": mm}
    if mm is None:
        chk.obligation_failures.append("in-Coq shard failed to evaluate")
        chk.build_log = log[-3000:]
    else:
        for i in mm:
            chk.tie_break("fmtnum-shard", shard[i][1], "vm_compute differs", shard[i][2])
