"""Seeded generators of signal layouts (shared by C02, C03, C16 and the matrix generator)."""


def positions(le, start, size):
    """payload bit numbers in LSB0 numbering (byte n//8, bit n%8) a signal occupies, LSB of the value first for
    Intel, MSB first for Motorola (internal start = sequential MSB0 number of the MSB)"""
    if le:
        return [start + i for i in range(size)]
    out = []
    for j in range(size):
        p = start + j
        out.append(8 * (p // 8) + 7 - p % 8)
    return out


def bigpos(le, start, size):
    """positions in sequential MSB0 numbering (index into the 'big' bit string)"""
    if le:
        return [8 * (n // 8) + 7 - n % 8 for n in range(start, start + size)]
    return list(range(start, start + size))


def gen_layout(rng, nbytes, max_signals=8, max_width=64, le_prob=0.5, tries=40, widths=None, free=None):
    """random non-overlapping layout: list of dict(le,start,size).  `free` = set of LSB0 bit numbers still free."""
    nbits = 8 * nbytes
    if free is None:
        free = set(range(nbits))
    sigs = []
    n = rng.randrange(1, max_signals + 1)
    for _ in range(tries):
        if len(sigs) >= n or not free:
            break
        le = rng.random() < le_prob
        w = rng.choice(widths) if widths else min(rng.choice([1, 1, 2, 3, 4, 7, 8, 9, 12, 16, 17, 24, 31, 32, 33, 48, 63, 64]), max_width, nbits)
        if w > nbits:
            continue
        start = rng.randrange(0, nbits - w + 1)
        pos = set(positions(le, start, w))
        if pos <= free:
            free -= pos
            sigs.append(dict(le=le, start=start, size=w))
    if not sigs:
        # always possible: a 1-bit signal on a free bit
        b = min(free) if free else 0
        if b in free:
            free.discard(b)
            sigs.append(dict(le=True, start=b, size=1))
    return sigs
