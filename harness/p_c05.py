"""C05: DBC round trip is lossless and its output is a fixed point.

SEARCH (decides the sentence on the real code): generated DBC-expressible matrices (harness/matgen.py + `decorate` below) covering every
content class of the quantifier, under every encoding option pair; for each matrix
  (a) dump -> loads -> normal forms compared field by field (rule of DESIGN.md section 5/C05 'Reading of "the same"', `compare`),
  (b) the reader's stdout must not contain "error with line no" (and its logger must not report a line error),
  (c) dump(load(dump(m))) must be byte-identical to dump(m).
TIE: `fmt_tok_dbc` (an independent tokenizer) splits the real dump output into statements; the numbers and tokens found there
(start bits, compound ids, multiplex tokens, shortened names + System*LongSymbol attributes, enum keys, GenSigStartValue, rendered
floats) and what the real reader makes of them are compared with model/FmtDbc.v (cmd 501..) on the same inputs; a core-subset
projection of whole matrices is sent through the statement-level model dbc_write / dbc_read (cmd 520/521).
"""
import contextlib
import decimal
import io
import logging
import os
import re

import core
import matgen

D = decimal.Decimal

LEVEL_NOTE = (
    "PARTIAL BY DESIGN. Proved (coq/props/C05.v, about coq/model/FmtDbc.v): the mechanisms the round trip rests on - DBC start-bit "
    "numbering, compound identifiers, multiplex tokens, 32-character name shortening with System*LongSymbol restore (objects addressed "
    "by their shortened name - ECUs, environment variables: premise 32-character prefixes unique in their scope; signals of a frame: "
    "with the writer's numeric suffix on colliding symbols, premises suffixed symbols distinct and no short name colliding; frames are "
    "addressed by identifier), ENUM key/value conversion, GenSigStartValue on the raw grid, decimal integer text, "
    "format_float(Decimal) parsing back to the same number (str(Decimal) and Decimal(text) modelled on digit strings), "
    "and a statement-level model dbc_write/dbc_read for the core subset (ECUs, frames, senders, signals with placement/type/scaling/"
    "limits/unit/receivers, simple multiplexing, value tables, float type) with round trip and fixed point. NOT proved: that the "
    "regular expressions of dbc.load invert the string formatting of dbc.dump (text <-> statements), comments, attribute definitions/"
    "defaults/values beyond the mechanisms, signal groups, environment variables, extended multiplexing ranges, encodings: these are "
    "decided by the generative search on the real code only (a test). Decimal arithmetic of phys2raw (28-digit context) is modelled "
    "exactly only on the raw grid. The model follows the code WITH fixes/C05_*.patch applied."
)

# ---------------------------------------------------------------------------------------------------------------------
# bookkeeping names the DBC writer introduces by itself (dbc.py dump): not a difference when the original lacked them
BOOK_DEFINES = {
    "frame_defines": {"VFrameFormat", "GenMsgCycleTime", "SystemMessageLongSymbol"},
    "signal_defines": {"GenSigCycleTime", "GenSigStartValue", "SystemSignalLongSymbol"},
    "ecu_defines": {"SystemNodeLongSymbol"},
    "env_defines": {"SystemEnvVarLongSymbol"},
    "global_defines": {"BusType", "ProtocolType"},
}
BOOK_ATTRS = {
    "frame": {"VFrameFormat", "GenMsgCycleTime"},
    "signal": {"GenSigCycleTime", "GenSigStartValue"},
    "global": {"BusType", "ProtocolType"},
}

LATIN1_TEXT = ["°C", "µs", "m²", "Änderung", "café", "§ 5", "½"]
UTF8_TEXT = LATIN1_TEXT + ["Ω", "€", "℃", "км/ч", "速度", "≤ 5"]

ENC_PROFILES = [
    # (name, dump options, load options, text pool for units/strings, text pool for comments)
    ("default", {}, {}, LATIN1_TEXT, LATIN1_TEXT),
    ("latin-1", {"dbcExportEncoding": "iso-8859-1"}, {"dbcImportEncoding": "iso-8859-1"}, LATIN1_TEXT, LATIN1_TEXT),
    ("utf-8", {"dbcExportEncoding": "utf-8"}, {"dbcImportEncoding": "utf-8"}, UTF8_TEXT, UTF8_TEXT),
    ("latin-1+utf-8-comments", {"dbcExportEncoding": "iso-8859-1", "dbcExportCommentEncoding": "utf-8"},
     {"dbcImportEncoding": "iso-8859-1", "dbcImportCommentEncoding": "utf-8"}, LATIN1_TEXT, UTF8_TEXT),
    ("latin-1-alias", {"dbcExportEncoding": "latin-1"}, {"dbcImportEncoding": "latin-1"}, LATIN1_TEXT, LATIN1_TEXT),
]


# ---------------------------------------------------------------------------------------------------------------------
# independent tokenizer of DBC text (does not use the regular expressions of dbc.load)
def _split_quoted(s):
    """split at blanks outside double quotes; a backslash escapes the next character inside quotes"""
    out, cur, inq, i = [], "", False, 0
    while i < len(s):
        c = s[i]
        if inq:
            cur += c
            if c == "\\" and i + 1 < len(s):
                cur += s[i + 1]
                i += 1
            elif c == '"':
                inq = False
        elif c == '"':
            inq = True
            cur += c
        elif c in " \t":
            if cur:
                out.append(cur)
                cur = ""
        else:
            cur += c
        i += 1
    if cur:
        out.append(cur)
    return out


def _unq(t):
    assert len(t) >= 2 and t[0] == '"' and t[-1] == '"', t
    return t[1:-1].replace('\\"', '"')


def fmt_tok_dbc(text):
    """list of statements (dicts with key 'k') of a DBC text in file order.  Statements: BU_, VAL_TABLE_, BO_, SG_, BO_TX_BU_, CM_,
    BA_DEF_, BA_DEF_DEF_, BA_, VAL_, SIG_VALTYPE_, SIG_GROUP_, SG_MUL_VAL_, EV_.  Unknown lines are returned as {'k': '?'}."""
    stmts = []
    lines = text.split("\n")
    i = 0
    cur_frame = None
    while i < len(lines):
        raw = lines[i]
        l = raw.strip()
        i += 1
        if not l:
            continue
        head = l.split(" ", 1)[0]
        if head in ("VERSION", "NS_", "BS_:"):
            continue
        if head == "BU_:":
            stmts.append(dict(k="BU_", names=l[4:].split()))
        elif head == "VAL_TABLE_":
            t = _split_quoted(l[:-1] if l.endswith(";") else l)
            rows = [(int(t[j]), _unq(t[j + 1])) for j in range(2, len(t) - 1, 2)]
            stmts.append(dict(k="VAL_TABLE_", name=t[1], rows=rows))
        elif head == "BO_":
            t = l.split()
            name = t[2][:-1] if t[2].endswith(":") else t[2]
            rest = l.split(":", 1)[1].split()
            cur_frame = int(t[1])
            stmts.append(dict(k="BO_", cid=cur_frame, name=name, size=int(rest[0]), tx=rest[1]))
        elif head == "SG_":
            left, right = l.split(":", 1)
            lt = left.split()
            mux = lt[2] if len(lt) > 2 else ""
            right = right.strip()
            pos, right = right.split(" ", 1)
            start, r2 = pos.split("|")
            size, r3 = r2.split("@")
            order, sign = r3[0], r3[1]
            assert right[0] == "("
            fo, right = right[1:].split(")", 1)
            factor, offset = fo.split(",")
            right = right.strip()
            assert right[0] == "["
            mm, right = right[1:].split("]", 1)
            mn, mx = mm.split("|")
            right = right.strip()
            q1 = right.index('"')
            q2 = right.rindex('"')
            unit = right[q1 + 1:q2]
            recv = [x.strip() for x in right[q2 + 1:].strip().split(",")]
            stmts.append(dict(k="SG_", frame=cur_frame, name=lt[1], mux=mux, start=int(start), size=int(size), le=(order == "1"),
                              signed=(sign == "-"), factor=factor.strip(), offset=offset.strip(), min=mn, max=mx, unit=unit, receivers=recv))
        elif head == "BO_TX_BU_":
            a, b = l.split(":", 1)
            stmts.append(dict(k="BO_TX_BU_", cid=int(a.split()[1]), txs=[x.strip() for x in b.strip().rstrip(";").split(",")]))
        elif head == "CM_":
            # may span lines: ends with `";` at the end of a line
            full = l
            while not re.search(r'"\s*;\s*$', full) and i < len(lines):
                full += "\n" + lines[i].strip()
                i += 1
            body = full[3:].strip()
            q = body.index('"')
            ident = body[:q].split()
            txt = body[q + 1:body.rindex('"')].replace('\\"', '"')
            stmts.append(dict(k="CM_", cls=ident[0] if ident and ident[0] in ("BO_", "SG_", "BU_", "EV_") else "",
                              ident=ident[1:] if ident and ident[0] in ("BO_", "SG_", "BU_", "EV_") else ident, text=txt))
        elif head == "BA_DEF_":
            t = _split_quoted(l.rstrip().rstrip(";"))
            if t[1] in ("BO_", "SG_", "BU_", "EV_"):
                cls, name = t[1], _unq(t[2])
                q = l.index('"', l.index('"') + 1)
            else:
                cls, name = "", _unq(t[1])
                q = l.index('"', l.index('"') + 1)
            definition = l[q + 1:].strip().rstrip(";").strip()
            stmts.append(dict(k="BA_DEF_", cls=cls, name=name, definition=definition))
        elif head == "BA_DEF_DEF_":
            q = l.index('"', l.index('"') + 1)
            stmts.append(dict(k="BA_DEF_DEF_", name=l[l.index('"') + 1:q], value=l[q + 1:].strip().rstrip(";").strip()))
        elif head == "BA_":
            q = l.index('"', l.index('"') + 1)
            name = l[l.index('"') + 1:q]
            rest = l[q + 1:].strip()
            rest = rest[:-1] if rest.endswith(";") else rest
            t = rest.split(None, 1)
            if t and t[0] == "BO_":
                cid, val = t[1].split(None, 1)
                stmts.append(dict(k="BA_", cls="BO_", name=name, cid=int(cid), value=val.strip()))
            elif t and t[0] == "SG_":
                cid, sname, val = t[1].split(None, 2)
                stmts.append(dict(k="BA_", cls="SG_", name=name, cid=int(cid), sig=sname, value=val.strip()))
            elif t and t[0] == "BU_":
                ecu, val = t[1].split(None, 1)
                stmts.append(dict(k="BA_", cls="BU_", name=name, ecu=ecu, value=val.strip()))
            elif t and t[0] == "EV_":
                stmts.append(dict(k="BA_", cls="EV_", name=name, value=(t[1].strip() if len(t) > 1 else "")))
            else:
                stmts.append(dict(k="BA_", cls="", name=name, value=rest.strip()))
        elif head == "VAL_":
            t = _split_quoted(l.rstrip().rstrip(";"))
            if re.fullmatch(r"\d+", t[1]):
                rows = [(int(t[j]), _unq(t[j + 1])) for j in range(3, len(t) - 1, 2)]
                stmts.append(dict(k="VAL_", cid=int(t[1]), sig=t[2], rows=rows))
            else:
                rows = [(int(t[j]), _unq(t[j + 1])) for j in range(2, len(t) - 1, 2)]
                stmts.append(dict(k="VAL_", cid=None, sig=t[1], rows=rows))
        elif head == "SIG_VALTYPE_":
            t = l.rstrip(";").replace(":", " ").split()
            stmts.append(dict(k="SIG_VALTYPE_", cid=int(t[1]), sig=t[2], type=int(t[3])))
        elif head == "SIG_GROUP_":
            a, b = l.rstrip(";").split(":", 1)
            t = a.split()
            stmts.append(dict(k="SIG_GROUP_", cid=int(t[1]), name=t[2], id=t[3], members=b.split()))
        elif head == "SG_MUL_VAL_":
            t = l.rstrip(";").split(None, 4)
            ranges = [tuple(int(x) for x in r.strip().split("-")) for r in t[4].split(",")]
            stmts.append(dict(k="SG_MUL_VAL_", cid=int(t[1]), sig=t[2], muxer=t[3], ranges=ranges))
        elif head == "EV_":
            stmts.append(dict(k="EV_", name=l.split()[1].rstrip(":"), text=l))
        else:
            stmts.append(dict(k="?", text=l))
    return stmts


# ---------------------------------------------------------------------------------------------------------------------
def env_nf(db):
    """environment variables as the DBC carries them (every field by its text, numbers by value)"""
    out = {}
    for name, ev in db.env_vars.items():
        nodes = ev.get("accessNodes", [])
        if isinstance(nodes, str):
            nodes = [nodes]
        attrs = {k: str(v) for k, v in ev.get("attributes", {}).items()}
        out[name] = dict(varType=str(ev.get("varType")), min=matgen._dec_str(ev.get("min")), max=matgen._dec_str(ev.get("max")),
                         unit=ev.get("unit"), initialValue=matgen._dec_str(ev.get("initialValue")), evId=str(ev.get("evId")),
                         accessType=ev.get("accessType"), accessNodes=list(nodes), attributes=attrs)
    return out


def nf_of(db):
    nf = matgen.normal_form(db)
    nf["env_vars"] = env_nf(db)
    return nf


def _wild(path):
    p = re.sub(r"^/frames/\d+_\d", "/frames/*", path)
    p = re.sub(r"^(/frames/\*/signals|/free_signals)/[^/]+", r"\1/*", p)
    p = re.sub(r"^/ecus/[^/]+", "/ecus/*", p)
    p = re.sub(r"^/env_vars/[^/]+", "/env_vars/*", p)
    p = re.sub(r"^/value_tables/[^/]+", "/value_tables/*", p)
    p = re.sub(r"/values/-?\d+$", "/values/*", p)
    p = re.sub(r"\[\d+\]", "[*]", p)
    return p


def is_bookkeeping_addition(path, a):
    """DESIGN.md C05: an attribute/define the writer itself introduces is not a difference when the original lacked it."""
    if a != "<absent>":
        return False
    parts = path.strip("/").split("/")
    last = parts[-1]
    if parts[0] == "defines" and len(parts) == 3:
        return last in BOOK_DEFINES.get(parts[1], ())
    if parts[0] == "attributes" and len(parts) == 2:
        return last in BOOK_ATTRS["global"]
    if parts[0] == "frames" and len(parts) == 4 and parts[2] == "attributes":
        return last in BOOK_ATTRS["frame"]
    if parts[0] == "frames" and len(parts) == 6 and parts[2] == "signals" and parts[4] == "attributes":
        return last in BOOK_ATTRS["signal"]
    if parts[0] == "free_signals" and len(parts) == 4 and parts[2] == "attributes":
        return last in BOOK_ATTRS["signal"]
    return False


def compare(nf0, nf2):
    """field-by-field differences that count: list of (class key, path, original, re-read)"""
    out = []
    skip = set()
    for name, ev in nf0["env_vars"].items():
        # one precise class: an environment variable with a name > 32 characters comes back under its 32-character prefix
        if len(name) > 32 and name not in nf2["env_vars"] and nf2["env_vars"].get(name[:32]) == ev and name[:32] not in nf0["env_vars"]:
            out.append(("envvar-long-name-lost", "/env_vars/" + name, name, name[:32]))
            skip |= {"/env_vars/" + name, "/env_vars/" + name[:32]}
    for path, a, b in matgen.diff(nf0, nf2):
        if is_bookkeeping_addition(path, a) or path in skip:
            continue
        out.append(("roundtrip:" + _wild(path), path, a, b))
    return out


class _LogCatcher(logging.Handler):
    def __init__(self):
        logging.Handler.__init__(self, level=logging.ERROR)
        self.msgs = []

    def emit(self, record):
        try:
            self.msgs.append(record.getMessage())
        except Exception:
            self.msgs.append(str(record.msg))


def load_capture(F, data, load_opts):
    """loads_flat with stdout and the reader's error log captured"""
    so = io.StringIO()
    lg = logging.getLogger("canmatrix.formats.dbc")
    h = _LogCatcher()
    lg.addHandler(h)
    old_prop, old_dis = lg.propagate, logging.root.manager.disable
    lg.propagate = False
    logging.disable(logging.WARNING)
    try:
        with contextlib.redirect_stdout(so):
            db = F.loads_flat(data, "dbc", **load_opts)
    finally:
        logging.disable(old_dis)
        lg.propagate = old_prop
        lg.removeHandler(h)
    return db, so.getvalue(), h.msgs


def dump_bytes(F, db, dump_opts):
    out = io.BytesIO()
    F.dump(db, out, "dbc", **dump_opts)
    return out.getvalue()


# ---------------------------------------------------------------------------------------------------------------------
EXTRA_DEFINES = [
    # (level, name, definition, default, value pool)
    ("global", "NetStrAttr", "STRING", "net", ["x", "hello world", "a;b", "50%"]),
    ("global", "NetFloatAttr", "FLOAT 0 10", "2.5", ["0.25", "3", "9.75"]),
    ("global", "NetHexAttr", "HEX 0 65535", "255", ["0", "4096", "65535"]),
    ("global", "NetEnumAttr", 'ENUM "low","mid","high"', "low", ["low", "mid", "high"]),
    ("ecu", "EcuEnumAttr", 'ENUM "no","yes","maybe so"', "no", ["no", "yes", "maybe so"]),
    ("ecu", "EcuHexAttr", "HEX 0 255", "0", ["1", "128", "255"]),
    ("ecu", "EcuFloatAttr", "FLOAT -5 5", "0", ["-4.5", "0.125", "5"]),
    ("frame", "FrIntAttr", "INT -100 100", "0", ["-100", "-1", "7", "100"]),
    ("frame", "FrStrAttr", "STRING", "", ["f", "two words", "semi;colon", "100%"]),
    ("frame", "FrFloatAttr", "FLOAT 0 1", "0.5", ["0", "0.001", "1"]),
    ("signal", "SigIntAttr", "INT 0 65535", "1", ["0", "2", "65535"]),
    ("signal", "SigHexAttr", "HEX 0 255", "17", ["0", "16", "255"]),
    ("signal", "SigStrAttr", "STRING", "s", ["y", "some text", "k=v;"]),
]


def decorate(rng, C, db, units_pool, comment_pool, ft):
    """adds the content classes matgen does not produce: non-ASCII text, quoted and multi-line comments, every attribute type
    on every level, environment variables (short and long names), a frame with nested (extended) multiplexing."""
    if ft.get("attributes"):
        for level, name, definition, default, pool in EXTRA_DEFINES:
            if rng.random() < 0.3:
                continue
            getattr(db, "add_%s_defines" % level)(name, definition)
            if rng.random() < 0.8:
                db.add_define_default(name, default)
            if level == "global":
                if rng.random() < 0.6:
                    db.add_attribute(name, rng.choice(pool))
            elif level == "ecu":
                for e in db.ecus:
                    if rng.random() < 0.4:
                        e.add_attribute(name, rng.choice(pool))
            elif level == "frame":
                for f in db.frames:
                    if rng.random() < 0.4:
                        f.add_attribute(name, rng.choice(pool))
            else:
                for f in db.frames:
                    for s in f.signals:
                        if rng.random() < 0.25:
                            s.add_attribute(name, rng.choice(pool))
    if ft.get("nonascii"):
        for f in db.frames:
            for s in f.signals:
                if rng.random() < 0.3:
                    s.unit = rng.choice(units_pool)
                if ft.get("comments") and rng.random() < 0.25:
                    s.add_comment("%s %s" % (rng.choice(matgen.COMMENT_WORDS), rng.choice(comment_pool)))
            if ft.get("comments") and rng.random() < 0.3:
                f.add_comment("%s %s" % (rng.choice(comment_pool), rng.choice(matgen.COMMENT_WORDS)))
        for e in db.ecus:
            if ft.get("comments") and rng.random() < 0.3:
                e.add_comment(rng.choice(comment_pool))
    if ft.get("comments") and ft.get("rich_comments"):
        objs = [x for f in db.frames for x in [f] + list(f.signals)] + list(db.ecus)
        for o in rng.sample(objs, min(len(objs), 3)):
            kind = rng.choice(["quote", "multi", "multi3", "semicolon", "multi-nonascii", "multi-nonascii", "multi-nbsp"])
            if kind == "quote":
                o.add_comment('say "hello" to %s' % rng.choice(matgen.COMMENT_WORDS))
            elif kind == "multi":
                o.add_comment("first line\nsecond line")
            elif kind == "multi-nonascii":
                # non-ASCII text on lines after the first (decoded with the COMMENT encoding by the reader)
                o.add_comment("first line\n%s second %s\nthird line: %s" % (rng.choice(comment_pool), rng.choice(comment_pool), rng.choice(comment_pool)))
            elif kind == "multi-nbsp":
                # U+00A0 at the start / end of a continuation line (expressible in latin-1 and utf-8; not ASCII white space)
                o.add_comment("first line\n\u00a0indented by a no-break space\u00a0\nlast\u00a0line")
            elif kind == "multi3":
                o.add_comment("line one;\nline \"two\"\nlast line (3)")
            else:
                o.add_comment("ends with semicolon;")
    if ft.get("value_tables") and ft.get("quoted_labels"):
        for f in db.frames:
            for s in f.signals:
                if s.values and rng.random() < 0.3:
                    k = sorted(s.values)[0]
                    s.values[k] = 'the "%s" state' % s.values[k]
    if ft.get("nonascii") and ft.get("attributes"):
        for f in db.frames:
            if "FrStrAttr" in db.frame_defines and rng.random() < 0.3:
                f.add_attribute("FrStrAttr", rng.choice(units_pool))
            for s in f.signals:
                if "SigStrAttr" in db.signal_defines and rng.random() < 0.15:
                    s.add_attribute("SigStrAttr", rng.choice(units_pool))
    if ft.get("numeric_extremes"):
        # every numeric rendering: large/small exponents, trailing zeros, negative offsets
        sigs = [s for f in db.frames for s in f.signals if not s.is_float and s.size <= 16]
        for s in rng.sample(sigs, min(len(sigs), 2)):
            s.factor = D(rng.choice(["1E-10", "2.50E-7", "1.5E+12", "0.10", "4E+3", "0.000001", "1.000"]))
            s.offset = D(rng.choice(["-1.2300E+5", "0", "-0.5", "1E+6", "-7.0", "0E-3"]))
            lo, hi = s.calculate_raw_range()
            s.min, s.max = s.offset + lo * s.factor, s.offset + hi * s.factor
            s.initial_value = s.offset + rng.choice([lo, hi, 0 if lo <= 0 else lo]) * s.factor
    if ft.get("value_tables") and rng.random() < 0.5:
        db.add_value_table("VtMode", {0: "Not available", 5: "Fault 2", 255: "SNA", 16: "16"})
    if ft.get("free_signals") and rng.random() < 0.5:
        s = C.Signal("FreeRich%d" % rng.randrange(100), start_bit=8, size=12, is_little_endian=rng.random() < 0.5, is_signed=True,
                     factor=D("0.5"), offset=D("-10"), unit="V")
        lo, hi = s.calculate_raw_range()
        s.min, s.max = s.offset + lo * s.factor, s.offset + hi * s.factor
        s.initial_value = s.offset + rng.choice([0, 3, -7]) * s.factor
        if db.ecus:
            s.add_receiver(db.ecus[0].name)
        if ft.get("value_tables"):
            s.add_values(1, "one")
            s.add_values(-2, "minus two")
        if ft.get("comments"):
            s.add_comment("a free signal")
        db.add_signal(s)
    if ft.get("id_zero") and db.frames and not any(f.arbitration_id.id == 0 for f in db.frames):
        db.frames[0].arbitration_id = C.ArbitrationId(0, False)
    if ft.get("shared_prefixes"):
        # names longer than 32 characters that SHARE their first 32 characters within their scope.  dump() keeps them apart by a
        # numeric suffix on the SG_ symbol (signals of one frame) resp. addresses the object by its identifier (frames).
        suffixes = ["_Request", "_Response", "_Status", "_Counter"]
        cands = [f for f in db.frames if len(f.signals) >= 2]
        for f in rng.sample(cands, min(len(cands), 2)):
            k = rng.randrange(2, min(len(f.signals), 4) + 1)
            chosen = rng.sample(list(f.signals), k)
            prefix = ("Shared_%s_prefix_of_thirty_two_chars_x" % rng.choice(matgen.NAME_POOL))[:32]
            assert len(prefix) == 32
            sufs = list(suffixes)
            if ft.get("name_equals_prefix"):
                sufs[0] = ""       # one sibling is named exactly like the 32-character prefix of the others
            for s, suf in zip(chosen, sufs):
                old_name, new_name = s.name, prefix + suf
                if any(t.name == new_name for t in f.signals):
                    continue
                s.name = new_name
                for t in f.signals:
                    if t.muxer_for_signal == old_name:
                        t.muxer_for_signal = new_name
                if ft.get("value_tables") and not s.is_float and rng.random() < 0.8:
                    lo, hi = s.calculate_raw_range()
                    s.add_values(lo, "lowest of " + (suf[1:] or "prefix"))
                    s.add_values(hi, rng.choice(matgen.LABELS))
                if ft.get("comments") and rng.random() < 0.6:
                    s.add_comment("comment of " + new_name)
                if ft.get("attributes") and "SigIntAttr" in db.signal_defines and rng.random() < 0.6:
                    s.add_attribute("SigIntAttr", str(rng.randrange(0, 65535)))
        if len(db.frames) >= 2 and rng.random() < 0.6:
            prefix = ("FShared_%s_frame_prefix_thirty_two_x" % rng.choice(matgen.NAME_POOL))[:32]
            for f, suf in zip(rng.sample(list(db.frames), 2), suffixes):
                if f.name.startswith("FNestedMux"):
                    continue
                f.name = prefix + suf
                if ft.get("comments") and rng.random() < 0.5:
                    f.add_comment("comment of " + f.name)
    if ft.get("shared_prefix_ecus") and len(db.ecus) >= 2:
        # ECUs: BA_ "SystemNodeLongSymbol" BU_ <32-character name> addresses the node by its shortened name
        prefix = ("EShared_%s_node_prefix_thirty_two_xx" % rng.choice(matgen.NAME_POOL))[:32]
        for e, suf in zip(rng.sample(list(db.ecus), 2), ["_Front", "_Rear"]):
            old_name, new_name = e.name, prefix + suf
            e.name = new_name
            for f in db.frames:
                f.transmitters[:] = [new_name if t == old_name else t for t in f.transmitters]
                for sg in f.signals:
                    sg.receivers[:] = [new_name if r == old_name else r for r in sg.receivers]
                f.update_receiver()
            for sg in db.signals:
                sg.receivers[:] = [new_name if r == old_name else r for r in sg.receivers]
            for ev in db.env_vars.values():
                if isinstance(ev.get("accessNodes"), list):
                    ev["accessNodes"] = [new_name if r == old_name else r for r in ev["accessNodes"]]
    if ft.get("env_vars"):
        used = set()
        for _ in range(rng.randrange(1, 4)):
            name = "Env" + rng.choice(matgen.NAME_POOL) + str(rng.randrange(100))
            if ft.get("long_env_names") and rng.random() < 0.5:
                while len(name) <= 32:
                    name += "_" + rng.choice(matgen.NAME_POOL)
            if name[:32] in used:
                continue
            used.add(name[:32])
            nodes = rng.choice([["Vector__XXX"], [db.ecus[0].name], [e.name for e in db.ecus[:2]]])
            db.add_env_var(name, {"varType": rng.choice([0, 1]), "min": rng.choice(["0", "-10", "0.5"]), "max": rng.choice(["100", "1", "255.5"]),
                                  "unit": rng.choice(["", "V", "km/h"]), "initialValue": rng.choice(["0", "1", "2.5"]),
                                  "evId": str(rng.randrange(1, 90)), "accessType": rng.choice(["DUMMY_NODE_VECTOR0", "DUMMY_NODE_VECTOR3"]),
                                  "accessNodes": nodes})
    if ft.get("nested_mux") and db.ecus:
        # two-level multiplexing: Top (M) selects Sub (m1M) which selects leaves (m<k>) by value ranges
        fid = 0x6F0
        while any(f.arbitration_id.id == fid and not f.arbitration_id.extended for f in db.frames):
            fid += 1
        fr = C.Frame("FNestedMux%d" % rng.randrange(100), arbitration_id=C.ArbitrationId(fid, False), size=8)
        fr.add_transmitter(db.ecus[0].name)
        rcv = [db.ecus[-1].name]
        top = C.Signal("MxTop", start_bit=0, size=4, is_little_endian=True, is_signed=False, multiplex="Multiplexor", receivers=list(rcv))
        v1 = rng.randrange(0, 8)
        sub = C.Signal("MxSub", start_bit=4, size=4, is_little_endian=True, is_signed=False, multiplex=v1, receivers=list(rcv))
        sub.is_multiplexer = True
        sub.multiplex = "Multiplexor"
        sub.muxer_for_signal = "MxTop"
        sub.mux_val_grp.append([v1, v1])
        a, b = sorted(rng.sample(range(0, 12), 2))
        leaf1 = C.Signal("LeafRange", start_bit=8, size=8, is_little_endian=True, is_signed=False, multiplex=a, receivers=list(rcv))
        leaf1.muxer_for_signal = "MxSub"
        leaf1.mux_val_grp.append([a, b])
        leaf1.mux_val_grp.append([b + 2, b + 2])
        leaf2 = C.Signal("LeafTop", start_bit=23, size=8, is_little_endian=False, is_signed=True, multiplex=v1 + 1, receivers=list(rcv))
        leaf2.muxer_for_signal = "MxTop"
        leaf2.mux_val_grp.append([v1 + 1, v1 + 3])
        static = C.Signal("StaticTail", start_bit=32, size=16, is_little_endian=True, is_signed=False, receivers=list(rcv))
        for s in (top, sub, leaf1, leaf2, static):
            lo, hi = s.calculate_raw_range()
            s.min, s.max = D(lo), D(hi)
            fr.add_signal(s)
        fr.is_complex_multiplexed = True
        fr.update_receiver()
        db.add_frame(fr)


FEATURES = ["ext_ids", "fd", "j1939", "mux", "floats", "value_tables", "comments", "attributes", "long_names", "multi_senders",
            "free_signals", "env_vars", "signal_groups", "cycle_times", "nonascii", "rich_comments", "quoted_labels", "nested_mux",
            "long_env_names", "signed", "numeric_extremes", "id_zero", "no_senders", "shared_prefixes", "shared_prefix_ecus"]


def gen_case(rng, C, idx, enc, stream=None):
    """one generated matrix inside the DBC envelope (Appendix A) + the feature set it was drawn from"""
    if idx % 4 == 0:
        ft = {k: True for k in FEATURES}
    else:
        ft = {k: rng.random() < 0.55 for k in FEATURES}
    ft["shared_prefix_ecus"] = stream == ECU_CLASH_KEY
    ft["name_equals_prefix"] = stream == PREFIX32_KEY
    if stream == PREFIX32_KEY:
        ft["shared_prefixes"] = True
    kw = dict(ext_ids=ft["ext_ids"], fd=ft["fd"], max_len=64 if ft["fd"] else 8, j1939=ft["j1939"] and ft["ext_ids"],
              mux="mixed" if ft["mux"] else "none", floats=ft["floats"], value_tables=ft["value_tables"], comments=ft["comments"],
              attributes=ft["attributes"], long_names=ft["long_names"], multi_senders=ft["multi_senders"], free_signals=ft["free_signals"],
              signal_groups=ft["signal_groups"], cycle_times=ft["cycle_times"], signal_cycle_times=ft["cycle_times"], signed=ft["signed"],
              initial_on_grid=True, fd_j1939_exclusive=True, n_frames=(1, 5), n_ecus=(2, 5),
              senders=not (ft["no_senders"] and idx % 4 != 0))
    db = matgen.gen_matrix(rng, C, **kw)
    for f in db.frames:
        # envelope: DBC carries "extended multiplexing" only through SG_MUL_VAL_ / m<n>M, i.e. through a signal with a named
        # multiplexer; a frame flagged is_complex_multiplexed without any multiplexed signal has no carrier for the flag
        if f.is_complex_multiplexed and not any(s.muxer_for_signal is not None for s in f.signals):
            f.is_complex_multiplexed = False
    decorate(rng, C, db, enc[3], enc[4], ft)
    return db, ft


def content_classes(db):
    """which content classes of the quantifier a matrix really contains (for the input distribution)"""
    cl = set()
    for f in db.frames:
        cl.add("id:extended" if f.arbitration_id.extended else "id:standard")
        if f.is_fd:
            cl.add("frame:canfd")
        if f.is_j1939:
            cl.add("frame:j1939")
        if len(f.transmitters) > 1:
            cl.add("senders:multiple")
        if not f.transmitters:
            cl.add("senders:none")
        if f.arbitration_id.id == 0:
            cl.add("id:zero")
        if len(f.name) > 32:
            cl.add("longname:frame")
            if any(g is not f and g.name[:32] == f.name[:32] for g in db.frames):
                cl.add("longname:frame:shared-prefix")
        shared = [s for s in f.signals if len(s.name) > 32 and any(t is not s and t.name[:32] == s.name[:32] for t in f.signals)]
        if shared:
            cl.add("longname:signal:shared-prefix")
            if any(s.values for s in shared):
                cl.add("longname:signal:shared-prefix+values")
            if any(s.comment for s in shared):
                cl.add("longname:signal:shared-prefix+comment")
            if any(s.attributes for s in shared):
                cl.add("longname:signal:shared-prefix+attribute")
            if any(s.is_multiplexer or s.mux_val is not None for s in shared):
                cl.add("longname:signal:shared-prefix+mux")
        for o in [f] + list(f.signals):
            if o.comment and "\n" in o.comment:
                tail = o.comment.split("\n", 1)[1]
                if any(ord(c) > 127 for c in tail):
                    cl.add("comment:multiline:non-ascii-continuation")
                if "\u00a0" in tail:
                    cl.add("comment:multiline:nbsp-edge")
        if f.is_complex_multiplexed:
            cl.add("mux:extended")
        elif any(s.is_multiplexer for s in f.signals):
            cl.add("mux:simple")
        if f.signalGroups:
            cl.add("signal-groups")
        if f.cycle_time:
            cl.add("cycle-time")
        if f.comment:
            cl.add("comment:frame")
        for k in f.attributes:
            cl.add("attr:frame:" + db.frame_defines[k].type)
        for s in f.signals:
            if s.is_float:
                cl.add("signal:float")
            if len(s.name) > 32:
                cl.add("longname:signal")
            if s.initial_value != 0:
                cl.add("initial:nonzero")
            if s.initial_value == s.offset and s.offset != 0:
                cl.add("initial:raw0-offset")
            if s.values:
                cl.add("value-table:signal")
            if s.comment:
                cl.add("comment:signal")
                if "\n" in s.comment:
                    cl.add("comment:multiline")
            if s.is_multiplexer and s.mux_val is not None:
                cl.add("mux:m<n>M")
            if not s.is_little_endian:
                cl.add("order:motorola")
            if not s.receivers:
                cl.add("receivers:none")
            if "E" in str(s.factor) + str(s.offset) + str(s.min) + str(s.max):
                cl.add("number:exponent")
            if s.offset < 0:
                cl.add("number:negative-offset")
            if any(ord(c) > 127 for c in (s.unit or "")):
                cl.add("unit:non-ascii")
            for k in s.attributes:
                cl.add("attr:signal:" + db.signal_defines[k].type)
    for e in db.ecus:
        if e.comment and "\n" in e.comment and any(ord(c) > 127 for c in e.comment.split("\n", 1)[1]):
            cl.add("comment:multiline:non-ascii-continuation:ecu")
        if len(e.name) > 32:
            cl.add("longname:ecu")
            if any(g is not e and g.name[:32] == e.name[:32] for g in db.ecus):
                cl.add("longname:ecu:shared-prefix")
        if e.comment:
            cl.add("comment:ecu")
        for k in e.attributes:
            cl.add("attr:ecu:" + db.ecu_defines[k].type)
    for k in db.attributes:
        cl.add("attr:matrix:" + db.global_defines[k].type)
    if db.signals:
        cl.add("free-signals")
    if db.env_vars:
        cl.add("env-vars")
        if any(len(n) > 32 for n in db.env_vars):
            cl.add("longname:envvar")
    if db.value_tables:
        cl.add("value-table:global")
    return cl


def describe(db, enc_name):
    """replayable description of a failing matrix: the DBC text of its first dump is the most useful replay"""
    return dict(encoding=enc_name, frames=[(f.name, f.arbitration_id.id, f.arbitration_id.extended, f.size) for f in db.frames][:8],
                ecus=[e.name for e in db.ecus][:8])


_PER_KEY = {}


ECU_CLASH_KEY = "ecu-long-name-prefix-clash"
PREFIX32_KEY = "signal-name-equals-long-sibling-prefix"
STREAM_WHAT = {
    ECU_CLASH_KEY: "ECUs whose names share their first 32 characters do not survive the DBC round trip",
    PREFIX32_KEY: "a signal named exactly like the 32-character prefix of long-named signals of its frame comes back with the "
                  "writer's numeric suffix (no SystemSignalLongSymbol is written for it)",
}
_AGGREGATE = {"key": None, "hits": None}


def viol(chk, key, what, inp, expected=None, observed=None):
    if _AGGREGATE["key"] is not None and key != "envvar-long-name-lost":
        # matrices of the ECU-clash stream: every symptom is reported under the one key of that defect
        _AGGREGATE["hits"].append((key, what, inp, expected, observed))
        return
    _viol(chk, key, what, inp, expected, observed)


def _viol(chk, key, what, inp, expected=None, observed=None):
    """core.Check keeps at most 50 violations: report at most 3 inputs per failure class so that no class hides another
    (recorded known findings are always passed on, they are only counted)"""
    if any(k.get("key") == key for k in chk.known):
        chk.violation(key, what, inp, expected, observed)
        return
    _PER_KEY[key] = _PER_KEY.get(key, 0) + 1
    if _PER_KEY[key] <= 3:
        chk.violation(key, what, inp, expected, observed)


def search_one(chk, F, db, enc, tag, strict_fixed_point=True):
    """(a) (b) (c) on one matrix; returns (first dump bytes, re-read matrix) or (None, None)"""
    enc_name, dopt, lopt = enc[0], enc[1], enc[2]
    base = dict(describe(db, enc_name), case=tag)
    try:
        nf0 = nf_of(db)
        b1 = dump_bytes(F, db, dopt)
    except Exception as e:
        viol(chk, "dump-raises:" + type(e).__name__, "dump of a DBC-expressible matrix raised", base, None, repr(e)[:300])
        return None, None
    base["dbc"] = b1.decode(dopt.get("dbcExportEncoding", "iso-8859-1"), "replace")[:6000]
    try:
        db2, so, logs = load_capture(F, b1, lopt)
    except Exception as e:
        viol(chk, "load-raises:" + type(e).__name__, "load of canmatrix's own DBC output raised", base, None, repr(e)[:300])
        return b1, None
    if "error with line no" in so:
        viol(chk, "line-error", "reader reports 'error with line no' on canmatrix's own DBC output", base, "no line errors", so[:400])
    if logs:
        viol(chk, "reader-logged-error", "reader logged an error on canmatrix's own DBC output", base, "no errors logged", logs[:3])
    nf2 = nf_of(db2)
    for key, path, a, b in compare(nf0, nf2):
        viol(chk, key, "DBC round trip changed " + _wild(path), dict(base, path=path), a, b)
    try:
        b2 = dump_bytes(F, db2, dopt)
    except Exception as e:
        viol(chk, "redump-raises:" + type(e).__name__, "dump of the re-read matrix raised", base, None, repr(e)[:300])
        return b1, db2
    if b2 != b1:
        import difflib
        e = dopt.get("dbcExportEncoding", "iso-8859-1")
        d = [x for x in difflib.unified_diff(b1.decode(e, "replace").splitlines(), b2.decode(e, "replace").splitlines(), lineterm="", n=0)
             if not x.startswith(("---", "+++", "@@"))]
        by_cls = {}
        for x in d:
            by_cls.setdefault(_fp_class(x), []).append(x)
        for cls, lines_ in sorted(by_cls.items()):
            key = "envvar-long-name-lost" if cls == "BA_:SystemEnvVarLongSymbol" and all(x.startswith("-") for x in lines_) \
                else "not-fixed-point:" + cls
            viol(chk, key, "dump(load(dump(m))) differs from dump(m) in %s lines" % cls, base, "byte-identical", lines_[:8])
    return b1, db2


_HEADS = {"VERSION", "NS_", "BS_:", "BU_:", "VAL_TABLE_", "BO_", "SG_", "BO_TX_BU_", "CM_", "BA_DEF_", "BA_DEF_DEF_", "BA_", "VAL_",
          "SIG_VALTYPE_", "SIG_GROUP_", "SG_MUL_VAL_", "EV_"}


def _fp_class(diffline):
    t = diffline[1:].split()
    if not t:
        return "blank"
    if t[0] not in _HEADS:
        return "CM_-continuation-line"
    if t[0] in ("BA_", "BA_DEF_", "BA_DEF_DEF_") and len(t) > 1:
        names = re.findall(r'"([^"]*)"', diffline)
        return t[0] + (":" + names[0] if names else "")
    return t[0]


# ---------------------------------------------------------------------------------------------------------------------
def run(chk):
    chk.rule = ("matrices from harness/matgen.py (2-5 ECUs, 1-5 frames + optional nested-multiplex frame; standard/extended ids, CAN FD up to "
                "64 bytes, J1939, Intel/Motorola, signed/unsigned/float, simple + extended (ranges, m<n>M) multiplexing, value tables, "
                "comments incl. quotes and line breaks, INT/HEX/FLOAT/STRING/ENUM attributes on matrix/ECU/frame/signal level, names > 32 "
                "characters, multiple senders, free signals, environment variables, signal groups, cycle times, initial values on the raw grid "
                "inside the limits) x encoding profiles (default, iso-8859-1, latin-1, utf-8, latin-1 with utf-8 comments; non-ASCII units/"
                "comments where expressible); every 4th matrix has all features on, the others each feature with p=0.55; every matrix is also "
                "checked after one reload (original then carries the writer's bookkeeping attributes). non-trivial = matrix has >= 3 content "
                "classes; distinct by first dump bytes")
    ok = chk.build_and_audit()
    cm = core.import_impl()
    import canmatrix.formats as F
    C = cm.canmatrix
    rng = chk.rng
    thorough = chk.tier == "thorough"
    n_mat = 1200 if not thorough else 40000
    tie_inputs = []
    streams_on = {k: any(x.get("key") == k for x in chk.known) or os.environ.get("VERIF_C05_STREAMS") == "1" for k in STREAM_WHAT}
    for k, on in streams_on.items():
        if not on:
            chk.notes.append("stream '%s' not run: it fails on the current code (reported finding) and is enabled by recording that key in "
                             "known_findings.json or VERIF_C05_STREAMS=1" % k)
    for idx in range(n_mat):
        enc = ENC_PROFILES[idx % len(ENC_PROFILES)] if idx % 7 else rng.choice(ENC_PROFILES)
        # gated streams (every 10th matrix each), all symptoms of a matrix under the one key of the defect the stream provokes.
        # A stream runs only once its key is recorded in known_findings.json (or VERIF_C05_STREAMS=1); until then it is skipped
        # so that a reported-but-unrecorded defect can neither mask nor fake other detections.
        stream = {3: ECU_CLASH_KEY, 7: PREFIX32_KEY}.get(idx % 10)
        if stream is not None and not streams_on[stream]:
            stream = None
        try:
            db, ft = gen_case(rng, C, idx, enc, stream)
        except RuntimeError:
            chk.count("generator-gave-up")
            continue
        if stream is not None:
            _AGGREGATE["key"], _AGGREGATE["hits"] = stream, []
            b1, db2 = search_one(chk, F, db, enc, "%s gen#%d" % (stream, idx))
            hits = _AGGREGATE["hits"]
            _AGGREGATE["key"], _AGGREGATE["hits"] = None, None
            chk.case(hash(b1), True)
            chk.count("stream:" + stream)
            if hits:
                k0, w0, inp0, e0, o0 = hits[0]
                _viol(chk, stream, STREAM_WHAT[stream], dict(inp0, symptoms=sorted({h[0] for h in hits})[:12]), e0, o0)
            continue
        cl = content_classes(db)
        for c in cl:
            chk.count(c)
        chk.count("encoding:" + enc[0])
        if enc[0] == "latin-1+utf-8-comments" and cl & {"comment:multiline:non-ascii-continuation", "comment:multiline:non-ascii-continuation:ecu"}:
            chk.count("mixed-encoding:multiline-non-ascii-continuation")
        b1, db2 = search_one(chk, F, db, enc, "gen#%d" % idx)
        chk.case(hash(b1), len(cl) >= 3)
        if idx < 3 and b1 is not None:
            chk.sample(dict(encoding=enc[0], classes=sorted(cl), dbc_head=b1[:400].decode("latin-1")))
        if db2 is not None:
            # the re-read matrix is itself DBC-expressible content whose original HAS the bookkeeping attributes: they count now
            b3, db3 = search_one(chk, F, db2, enc, "reloaded gen#%d" % idx)
            if b3 is not None and db3 is not None and idx % 3 == 0:
                tie_inputs.append((db2, enc, b3, db3))
            chk.case(("reload", hash(b3)), len(cl) >= 3)
            chk.count("reloaded-original")
        if b1 is not None and db2 is not None:
            tie_inputs.append((db, enc, b1, db2))
    chk.extra["content_classes_required"] = sorted(REQUIRED_CLASSES)
    missing = [c for c in REQUIRED_CLASSES if not chk.hist.get(c)]
    if missing:
        chk.obligation_failures.append("generator did not produce content classes: " + ", ".join(missing))
    if not ok:
        chk.ties["correspondence"] = "not run (build failed)"
        return
    run_tie(chk, C, F, tie_inputs)


REQUIRED_CLASSES = [
    "id:standard", "id:extended", "frame:canfd", "frame:j1939", "mux:simple", "mux:extended", "mux:m<n>M", "signal:float",
    "attr:matrix:INT", "attr:matrix:HEX", "attr:matrix:FLOAT", "attr:matrix:STRING", "attr:matrix:ENUM",
    "attr:ecu:INT", "attr:ecu:HEX", "attr:ecu:FLOAT", "attr:ecu:STRING", "attr:ecu:ENUM",
    "attr:frame:INT", "attr:frame:HEX", "attr:frame:FLOAT", "attr:frame:STRING", "attr:frame:ENUM",
    "attr:signal:INT", "attr:signal:HEX", "attr:signal:FLOAT", "attr:signal:STRING", "attr:signal:ENUM",
    "senders:multiple", "env-vars", "free-signals", "longname:ecu", "longname:frame", "longname:signal", "longname:envvar",
    "initial:nonzero", "initial:raw0-offset", "value-table:signal", "value-table:global", "comment:multiline", "unit:non-ascii",
    "signal-groups", "cycle-time", "order:motorola", "encoding:utf-8", "encoding:latin-1", "senders:none", "receivers:none",
    "number:exponent", "number:negative-offset", "id:zero",
    "longname:signal:shared-prefix+values", "longname:signal:shared-prefix+comment", "longname:signal:shared-prefix+attribute",
    "longname:signal:shared-prefix+mux", "longname:frame:shared-prefix", "comment:multiline:non-ascii-continuation",
    "comment:multiline:non-ascii-continuation:ecu", "comment:multiline:nbsp-edge", "mixed-encoding:multiline-non-ascii-continuation",
]


# ---------------------------------------------------------------------------------------------------------------------
# TIE: model/FmtDbc.v (cmd 501-521) against the real writer (through fmt_tok_dbc) and the real reader
def codes(t):
    return [ord(c) for c in t]


def num_pair(x):
    """value-canonical (coefficient, exponent) of a Decimal / numeric text"""
    d = x if isinstance(x, D) else D(str(x))
    if d == 0:
        return [0, 0]
    sign, digits, exp = d.normalize().as_tuple()
    c = int("".join(map(str, digits)))
    return [-c if sign else c, exp]


def role_pair(mux_val, multiplexor):
    if mux_val is None:
        return [1, 0] if multiplexor else [0, 0]
    return [3, int(mux_val)] if multiplexor else [2, int(mux_val)]


def token_role(tok):
    """independent reading of the multiplex token"""
    if tok == "":
        return [0, 0]
    if tok == "M":
        return [1, 0]
    if tok.endswith("M"):
        return [3, int(tok[1:-1])]
    return [2, int(tok[1:])]


def sig_role(s):
    return role_pair(s.mux_val, s.multiplex == "Multiplexor")


FREE_NAME = "VECTOR__INDEPENDENT_SIG_MSG"


def written_frames(db):
    """(name, id, ext, size, transmitters, signals) in the order dump writes them; free signals last in their pseudo frame"""
    out = [(f.name, f.arbitration_id.id, bool(f.arbitration_id.extended), f.size, list(f.transmitters), list(f.signals)) for f in db.frames]
    if db.signals:
        out.append((FREE_NAME, 0x40000000, True, 0, [], list(db.signals)))
    return out


def read_frames_view(db2):
    """frames of a re-read matrix in file order (the model keeps the pseudo frame of free signals as frame (0, extended))"""
    out = [(f.name, f.arbitration_id.id, bool(f.arbitration_id.extended), f.size, list(f.transmitters), list(f.signals)) for f in db2.frames]
    if db2.signals:
        out.append((FREE_NAME, 0, True, 0, [], list(db2.signals)))
    return out


def view_groups(ecus, vtabs, frames):
    """core-subset view of a matrix as the integer groups of model/Run_C05.v (names cut to 32 characters: the core subset has no
    long names, mechanism 5 covers them)"""
    g = [[10] + codes(n[:32]) for n in ecus]
    for name in sorted(vtabs):
        g.append([11] + codes(name))
        for k, v in sorted(vtabs[name].items(), key=lambda kv: int(kv[0])):     # a mapping: the property fixes no order of the rows
            g.append([12, int(k)] + codes(v))
    for name, fid, ext, size, txs, sigs in frames:
        g.append([20, fid, int(ext), size])
        g.append([21] + codes(name[:32]))
        for t in txs:
            g.append([22] + codes(t[:32]))
        for s in sigs:
            g.append([30, int(s.start_bit), int(s.size), int(bool(s.is_little_endian)), int(bool(s.is_signed)), int(bool(s.is_float))] + sig_role(s)
                     + num_pair(s.factor) + num_pair(s.offset) + num_pair(s.min) + num_pair(s.max))
            g.append([31] + codes(s.name[:32]))
            g.append([32] + codes(s.unit or ""))
            for r in s.receivers:
                g.append([33] + codes(r[:32]))
            for k, v in sorted(s.values.items()):
                g.append([34, int(k)] + codes(v))
    return g


def stmt_groups(stmts):
    """core statements of a tokenized DBC text as integer groups"""
    g = []
    for st in stmts:
        k = st["k"]
        if k == "BU_":
            g.append([100])
            g += [[101] + codes(n[:32]) for n in st["names"]]
        elif k == "VAL_TABLE_":
            g.append([110] + codes(st["name"]))
            # value descriptions are a key -> text mapping; the order in which a statement lists them is not constrained by the
            # property (only that the writer reproduces its own bytes), so both sides are compared in key order
            g += [[111, key] + codes(lab) for key, lab in sorted(st["rows"], key=lambda r: r[0])]
        elif k == "BO_":
            g += [[120, st["cid"], st["size"]], [121] + codes(st["name"][:32]), [122] + codes(st["tx"][:32])]
        elif k == "SG_":
            g.append([130, st["start"], st["size"], int(st["le"]), int(st["signed"])] + token_role(st["mux"]) + num_pair(st["factor"])
                     + num_pair(st["offset"]) + num_pair(st["min"]) + num_pair(st["max"]))
            g += [[131] + codes(st["name"][:32]), [132] + codes(st["unit"])] + [[133] + codes(r[:32]) for r in st["receivers"]]
        elif k == "BO_TX_BU_":
            g.append([140, st["cid"]])
            g += [[141] + codes(t[:32]) for t in st["txs"]]
        elif k == "VAL_" and st["cid"] is not None:
            g += [[150, st["cid"]], [151] + codes(st["sig"][:32])] + [[152, key] + codes(lab) for key, lab in sorted(st["rows"], key=lambda r: r[0])]
        elif k == "SIG_VALTYPE_":
            g += [[160, st["cid"], st["type"]], [161] + codes(st["sig"][:32])]
    return g


def enum_values(definition):
    """value list of an ENUM definition text (own splitter: values are quoted, separated by commas)"""
    body = definition[4:].strip()
    vals, cur, inq = [], "", False
    for c in body:
        if c == '"':
            inq = not inq
            if not inq:
                vals.append(cur)
                cur = ""
        elif inq:
            cur += c
    return vals


def scaled(decs):
    """integers of several decimals over a common power of ten"""
    ds = [x if isinstance(x, D) else D(str(x)) for x in decs]
    e = min([d.as_tuple().exponent for d in ds] + [0])
    out = []
    for d in ds:
        v = d.scaleb(-e)
        assert v == v.to_integral_value()
        out.append(int(v))
    return out, e


def run_tie(chk, C, F, tie_inputs):
    rng = chk.rng
    thorough = chk.tier == "thorough"
    lines, expect, info = [], [], []
    suites = {}

    def add(suite, cmd, groups, exp, inf):
        lines.append(core.fmt_case(cmd, groups))
        expect.append(exp)
        info.append((suite, inf))
        suites[suite] = suites.get(suite, 0) + 1

    limit = 600 if not thorough else 6000
    structure_mismatch = 0
    for db, enc, b1, db2 in tie_inputs[:limit]:
        text = b1.decode(enc[1].get("dbcExportEncoding", "iso-8859-1"), "replace")
        try:
            stmts = fmt_tok_dbc(text)
        except Exception as e:
            chk.tie_break("tokenizer", dict(error=repr(e)[:200], dbc=text[:1500]), "tokenized", "tokenizer failed")
            continue
        unknown = [st for st in stmts if st["k"] == "?"]
        if unknown:
            chk.tie_break("tokenizer", dict(line=unknown[0]["text"][:200]), "known statement", "unknown statement in dump output")
            continue
        wf = written_frames(db)
        rf = read_frames_view(db2)
        bos = [st for st in stmts if st["k"] == "BO_"]
        if len(bos) != len(wf) or len(rf) != len(wf):
            structure_mismatch += 1
            continue
        cid_name = {st["cid"]: st["name"] for st in bos}
        sg_by_cid = {}
        for st in stmts:
            if st["k"] == "SG_":
                sg_by_cid.setdefault(st["frame"], []).append(st)
        enum_defs = {(st["cls"], st["name"]): enum_values(st["definition"]) for st in stmts
                     if st["k"] == "BA_DEF_" and st["definition"].startswith("ENUM")}
        start_attr = {(st["cid"], st["sig"]): st["value"] for st in stmts
                      if st["k"] == "BA_" and st["cls"] == "SG_" and st["name"] == "GenSigStartValue"}
        gss = db.signal_defines.get("GenSigStartValue")
        gss_default = gss is not None and gss.defaultValue is not None
        ok_structure = True
        for (name, fid, ext, size, txs, sigs), bo, (name2, fid2, ext2, size2, txs2, sigs2) in zip(wf, bos, rf):
            cid = bo["cid"]
            add("id", 503, [[fid, int(ext)]], [[cid]], dict(frame=name))
            try:
                a = C.ArbitrationId.from_compound_integer(cid)
                exp = [[1, a.id, int(bool(a.extended))]]
            except Exception:
                exp = [[0]]
            add("id", 504, [[cid]], exp, dict(cid=cid))
            sgs = sg_by_cid.get(cid, [])
            if len(sgs) != len(sigs) or len(sigs2) != len(sigs):
                ok_structure = False
                break
            for s, st, s2 in zip(sigs, sgs, sigs2):
                inf = dict(frame=name, signal=s.name)
                add("startbit", 501, [[int(bool(s.is_little_endian)), int(s.size), int(s.start_bit)]], [[st["start"]]], inf)
                add("startbit", 502, [[int(st["le"]), st["size"], st["start"]]], [[1, int(s2.start_bit)]], inf)
                add("mux", 505, [[-1 if s.mux_val is None else int(s.mux_val), int(s.multiplex == "Multiplexor")]], [[1] + codes(st["mux"])], inf)
                add("mux", 506, [codes(st["mux"])], [[1] + sig_role(s2)], inf)
                # numbers: format_float(Decimal) is the token, Decimal(token) is what the reader gets
                for fld in ("factor", "offset", "min", "max"):
                    dv = getattr(s, fld)
                    sign, digits, ex = dv.as_tuple()
                    if not isinstance(ex, int):
                        continue
                    # the TEXT of a rendered number is not constrained by the property (same value read back + the writer's own
                    # fixed point are): the token, read by the model of Decimal(text), must denote the number's value (cmd 518)
                    add("number", 518, [[sign, ex], [48 + x for x in digits], codes(st[fld])], [[1]], dict(inf, field=fld, value=str(dv), token=st[fld]))
                    s2n, d2n, e2n = D(st[fld]).as_tuple()
                    add("number", 516, [codes(st[fld])], [[1, s2n, e2n], [48 + x for x in d2n]], dict(inf, field=fld, token=st[fld]))
                # GenSigStartValue (integer signals, definition without default)
                if not s.is_float and not gss_default:
                    try:
                        (I, O, Fa, MIN, MAX), e = scaled([s.initial_value, s.offset, s.factor, s.min, s.max])
                        (I2,), e2 = scaled([s2.initial_value])
                        own = s.attributes.get("GenSigStartValue")
                        own_i = None if own is None else int(own)
                        tok = start_attr.get((cid, st["name"]))
                        tok_i = None if tok is None else int(tok)
                        big = max(abs(I - O), abs(MIN - O), abs(O), abs((tok_i or 0) * Fa), abs((tok_i or 0) * Fa + O), abs(I2))
                        if big >= 10 ** 28:
                            raise ValueError("beyond the 28 digits Decimal keeps exactly: outside the model's stated scope")
                    except (AssertionError, ValueError):
                        chk.count("tie:start-value-skipped")
                    else:
                        add("start-value", 511, [[int(own_i is not None), own_i or 0, I, O, Fa, MIN, MAX]],
                            [[0]] if tok_i is None else [[1, tok_i]], dict(inf, initial=str(s.initial_value), offset=str(s.offset), factor=str(s.factor)))
                        want = D(s2.initial_value).scaleb(-e)
                        if want == want.to_integral_value():
                            add("start-value", 512, [[int(tok_i is not None), tok_i or 0, O, Fa, MIN, MAX]], [[int(want)]], inf)
            # long names of the signals of this frame
            if (any(len(s.name) > 32 for s in sigs) or rng.random() < 0.05) and sigs:
                shorts = [st["name"] for st in sgs]
                attrs = [(st["sig"], _unq(st["value"])) for st in stmts if st["k"] == "BA_" and st["cls"] == "SG_"
                         and st["name"] == "SystemSignalLongSymbol" and st["cid"] == cid]
                add("long-names", 517, [codes(s.name) for s in sigs],
                    [codes(x) for x in shorts] + [[-1]] + [codes(y) for kv in attrs for y in kv], dict(frame=name, scope="signals"))
                add("long-names", 508, [codes(x) for x in shorts] + [[-1]] + [codes(y) for kv in attrs for y in kv],
                    [codes(s2.name) for s2 in sigs2], dict(frame=name, scope="signals"))
        if not ok_structure:
            structure_mismatch += 1
            continue
        # long names of frames and ECUs
        shorts = [bo["name"] for bo in bos]
        attrs = [(cid_name.get(st["cid"], "?"), _unq(st["value"])) for st in stmts if st["k"] == "BA_" and st["cls"] == "BO_"
                 and st["name"] == "SystemMessageLongSymbol"]
        by_cid = {}
        for st in stmts:
            if st["k"] == "BA_" and st["cls"] == "BO_" and st["name"] == "SystemMessageLongSymbol":
                by_cid.setdefault(st["cid"], []).append(_unq(st["value"]))
        for w, bo, r in zip(wf, bos, rf):
            # frames are addressed by identifier: every frame is a scope of its own
            a_ = [(bo["name"], v) for v in by_cid.get(bo["cid"], [])]
            if a_ or rng.random() < 0.1:
                enc_ = [codes(bo["name"])] + [[-1]] + [codes(y) for kv in a_ for y in kv]
                add("long-names", 507, [codes(w[0])], enc_, dict(scope="frame", frame=w[0]))
                add("long-names", 508, enc_, [codes(r[0])], dict(scope="frame", frame=w[0]))
        bu = [st for st in stmts if st["k"] == "BU_"]
        if bu and len(db2.ecus) == len(db.ecus):
            shorts = bu[0]["names"]
            attrs = [(st["ecu"], _unq(st["value"])) for st in stmts if st["k"] == "BA_" and st["cls"] == "BU_" and st["name"] == "SystemNodeLongSymbol"]
            add("long-names", 507, [codes(e.name) for e in db.ecus], [codes(x) for x in shorts] + [[-1]] + [codes(y) for kv in attrs for y in kv], dict(scope="ecus"))
            add("long-names", 508, [codes(x) for x in shorts] + [[-1]] + [codes(y) for kv in attrs for y in kv], [codes(e.name) for e in db2.ecus], dict(scope="ecus"))
        # ENUM keys
        frames_by_cid = {bo["cid"]: (w, r) for w, bo, r in zip(wf, bos, rf)}
        for st in stmts:
            if st["k"] != "BA_" or (st["cls"], st["name"]) not in enum_defs or st["cls"] not in ("BO_", "SG_", "BU_"):
                continue
            vals = enum_defs[(st["cls"], st["name"])]
            orig = new = None
            if st["cls"] == "BU_":
                for e, e2 in zip(db.ecus, db2.ecus):
                    if e.name[:32] == st["ecu"]:
                        orig, new = e.attributes.get(st["name"]), e2.attributes.get(st["name"])
            elif st["cid"] in frames_by_cid:
                w, r = frames_by_cid[st["cid"]]
                if st["cls"] == "BO_":
                    fo = [f for f in db.frames if f.name == w[0]]
                    fn = [f for f in db2.frames if f.name == r[0]]
                    if fo and fn:
                        orig, new = fo[0].attributes.get(st["name"]), fn[0].attributes.get(st["name"])
                else:
                    for s, s2 in zip(w[5], r[5]):
                        if s.name[:32] == st["sig"]:
                            orig, new = s.attributes.get(st["name"]), s2.attributes.get(st["name"])
            inf = dict(attribute=st["name"], cls=st["cls"], key=st["value"])
            if orig is not None:
                add("enum", 509, [codes(orig)] + [codes(v) for v in vals], [[1] + codes(st["value"])], inf)
            if new is not None:
                add("enum", 510, [codes(st["value"])] + [codes(v) for v in vals], [[1] + codes(new)], inf)
        # decimal integer text of the identifiers
        for bo in bos[:2]:
            add("int-text", 513, [[bo["cid"]]], [[1] + codes(str(bo["cid"]))], dict(cid=bo["cid"]))
            add("int-text", 514, [codes(str(bo["cid"]))], [[1, bo["cid"]]], dict(cid=bo["cid"]))
        # statement level, core subset: W (model writer = tokenized real dump) and R (model reader = real reader)
        if any(len({x.name[:32] for x in w[5]}) != len(w[5]) for w in wf) or len({e.name[:32] for e in db.ecus}) != len(db.ecus):
            chk.count("tie:core-skipped-colliding-short-names")
            continue
        try:
            vw = view_groups([e.name for e in db.ecus], db.value_tables, wf)
            sg_ = stmt_groups(stmts)
            _, so, logs = load_capture(F, b1, enc[2])
            vr = view_groups([e.name for e in db2.ecus], db2.value_tables, rf) + [[-2, so.count("error with line no"), len(logs)]]
        except Exception as e:
            chk.tie_break("core-view", dict(error=repr(e)[:200]), "view", "view construction failed")
            continue
        add("core-write", 520, vw, sg_, dict(frames=[x[0] for x in wf]))
        add("core-read", 521, sg_, vr, dict(frames=[x[0] for x in wf]))
    # hand-made tokens and identifiers where writer output alone would leave branches of the model unvisited
    for tok, exp in [("", [[1, 0, 0]]), ("M", [[1, 1, 0]]), ("m0", [[1, 2, 0]]), ("m12M", [[1, 3, 12]]), ("m", [[0]]), ("mM", [[0]]), ("mx", [[0]]),
                     ("x7", [[1, 2, 7]]), ("m007", [[1, 2, 7]])]:
        add("mux", 506, [codes(tok)], exp, dict(token=tok))
    for c in [0, 1, 0x7FF, 0x800, 0x1FFFFFFF, 0x80000000, 0x80000001, 0x9FFFFFFF, 0xC0000000, 0xFFFFFFFF]:
        try:
            a = C.ArbitrationId.from_compound_integer(c)
            exp = [[1, a.id, int(bool(a.extended))]]
        except Exception:
            exp = [[0]]
        add("id", 504, [[c]], exp, dict(cid=c))
    for z in [0, 7, 10, 99, 100, 4294967295, -1, -40, 12345678901234567890]:
        add("int-text", 513, [[z]], [[1] + codes(str(z))], dict(z=z))
        add("int-text", 514, [codes(str(z))], [[1, z]], dict(z=z))
    for t in ["", "-", "12a", "٣"]:
        add("int-text", 514, [codes(t)], [[0]], dict(text=t))
    from canmatrix.formats.dbc import format_float as impl_format_float
    for t in ["0", "0.0", "-0.0", "1.0", "10.0", "1E+1", "1.50", "0.000001", "1E-7", "1.5E-7", "123456789012345678901234567890", "-1.2300E+5",
              "0E-3", "0E+3", "1E+100", "1E-100", "9.99", "100", "0.10", "12.5E-1", "5E+2"]:
        dv = D(t)
        sign, digits, ex = dv.as_tuple()
        tok = impl_format_float(dv)
        add("number", 518, [[sign, ex], [48 + x for x in digits], codes(tok)], [[1]], dict(value=t, token=tok))
        s2n, d2n, e2n = D(tok).as_tuple()
        add("number", 516, [codes(tok)], [[1, s2n, e2n], [48 + x for x in d2n]], dict(token=tok))
    for t in ["", "-", ".", "E5", "1E", "1E+", "1.2.3", "abc"]:
        try:
            s2n, d2n, e2n = D(t).as_tuple()
            exp = [[1, s2n, e2n], [48 + x for x in d2n]]
        except decimal.InvalidOperation:
            exp = [[0]]
        add("number", 516, [codes(t)], exp, dict(token=t))
    out = core.run_model(lines)
    bad = {}
    for (suite, inf), exp, o, ln in zip(info, expect, out, lines):
        got = core.parse_out(o)
        if got != exp:
            bad[suite] = bad.get(suite, 0) + 1
            if bad[suite] <= 3:
                chk.tie_break(suite, dict(inf, case=ln[:300]), _first_diff(got, exp), "see model field")
    chk.ties["correspondence"] = {"suite": "fmt_dbc (cmd 501-521): tokenized real dump + real reader vs model/FmtDbc.v", "cases": len(lines),
                                  "per_suite": suites, "disagreements": sum(bad.values()), "disagreements_per_suite": bad,
                                  "matrices": min(limit, len(tie_inputs)), "skipped_structure_mismatch": structure_mismatch}
    if structure_mismatch > max(3, len(tie_inputs[:limit]) // 20):
        chk.tie_break("structure", dict(n=structure_mismatch), "frames/signals of dump and matrix align", "too many matrices could not be aligned")
    small = [i for i in range(len(lines)) if len(lines[i]) < 1500]
    idx = rng.sample(small, min(300, len(small)))
    shard = []
    for i in idx:
        c, groups = (lines[i].split(" ", 1) + [""])[:2]
        shard.append((int(c, 16), core.parse_out(groups), expect[i]))
    mm, log = core.coq_shard(shard, "c05")
    chk.ties["vm_compute_shard"] = {"cases": len(shard), "mismatches": mm}
    if mm is None:
        chk.obligation_failures.append("in-Coq shard failed to evaluate")
        chk.build_log = log[-3000:]
    else:
        for i in mm:
            chk.tie_break("fmt_dbc-shard", shard[i][1], "vm_compute differs", shard[i][2])


def _first_diff(got, exp):
    for i, (a, b) in enumerate(zip(got, exp)):
        if a != b:
            return dict(group=i, model=a[:40], impl=b[:40])
    return dict(model_groups=len(got), impl_groups=len(exp), model_tail=got[len(exp):][:3], impl_tail=exp[len(got):][:3])
