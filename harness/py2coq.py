"""Fail-closed translator from a small, typed subset of Python (the bodies of a fixed list of canmatrix
functions) to Gallina.  Run on every check (core.build): it re-reads /repo/src/canmatrix/canmatrix.py with `ast` and
rewrites coq/gen/Gen_*.v when the text changed; coq/gen/Tie_*.v (hand written, static) then prove the regenerated
definitions equal to the hand models for ALL arguments, so the theorems of props/ are re-checked against what the code
says now.  Anything outside the whitelisted subset aborts the translation of that function ("untranslatable"): the
tie is then reported as unavailable and the correspondence run alone carries the property - never guessed.

Semantics kept: Python ints are unbounded (Z); `//` and `%` are floor operations (= Z.div / Z.modulo, divisors here are
positive literals); `>>`, `<<`, `&`, `|` on ints = Z.shiftr / Z.shiftl / Z.land / Z.lor (two's complement for negatives
in both worlds); `and`/`or` short-circuit on booleans; `==`/`!=` between an int-or-None and a bool compare the bool as
0/1 and None as different from everything; `x is True` / `is False` / `is None` are identity tests on the declared type;
`raise` makes the function return None (nothing is stored); a generated function returns Some of the tuple
(return value, tracked self fields after the call)."""
import ast
import os
import sys

INT, BOOL, OPTINT, OPTBOOL, STR, LISTPAIR = "int", "bool", "optint", "optbool", "str", "listpair"
INTPAIR, INTFUN = "intpair", "intfun"      # a returned 2-tuple of ints; the builtin `int` held in a local name
COQTY = {INT: "Z", BOOL: "bool", OPTINT: "option Z", OPTBOOL: "option bool", LISTPAIR: "list (Z * Z)", STR: "string", INTPAIR: "(Z * Z)"}


class Rec:
    """an object seen through a fixed set of typed fields; Gallina: the tuple of the fields in sorted name order
    (a single field: the field itself).  cls = the Python class whose translated methods may be called on it."""

    def __init__(self, cls, fields):
        self.cls, self.fields = cls, dict(fields)

    def names(self):
        return sorted(self.fields)


class ListOf:
    """a Python list of Rec objects"""

    def __init__(self, rec):
        self.rec = rec


def coqty(ty):
    if isinstance(ty, Rec):
        return "(" + " * ".join(coqty(ty.fields[f]) for f in ty.names()) + ")"
    if isinstance(ty, ListOf):
        return "list " + coqty(ty.rec)
    return COQTY[ty]


def tuple_of(parts):
    return "tt" if not parts else (parts[0] if len(parts) == 1 else "(" + ", ".join(parts) + ")")


class Untranslatable(Exception):
    pass


def bad(node, why):
    raise Untranslatable("%s at line %s: %s" % (why, getattr(node, "lineno", "?"), ast.dump(node)[:120]))


class Fn:
    """one target: class name, function name, kind ('method'|'getter'|'setter'|'classmethod'), parameter types,
    self field types, the self fields reported in the result, and whether a return value is reported"""

    def __init__(self, cls, name, kind, params, selff, out_fields, ret, coq_name, file=None, assume=None):
        self.cls, self.name, self.kind, self.params, self.selff = cls, name, kind, params, selff
        # assume: boolean self fields fixed by the envelope of the Tie theorem ({"is_float": False}); they are read as the
        # literal, and an `if` on such a literal is translated on the live arm only (the dead arm may leave the subset)
        self.assume = assume or {}
        self.out_fields, self.ret, self.coq_name, self.file = out_fields, ret, coq_name, file


SIG_SELF = {"is_little_endian": BOOL, "size": INT, "start_bit": INT, "name": STR}
MUX_SELF = {"mux_val_grp": LISTPAIR, "mux_val": OPTINT}
ARB_SELF = {"id": INT, "extended": BOOL}

TARGETS = [
    Fn("Signal", "set_startbit", "method", [("start_bit", INT), ("bitNumbering", OPTINT), ("startLittle", OPTBOOL)],
       SIG_SELF, ["start_bit"], None, "gen_set_startbit"),
    Fn("Signal", "get_startbit", "method", [("bit_numbering", OPTINT), ("start_little", OPTBOOL)],
       SIG_SELF, [], INT, "gen_get_startbit"),
    Fn("Signal", "multiplexer_value_in_range", "method", [("mux_value", OPTINT)], MUX_SELF, [], BOOL, "gen_multiplexer_value_in_range", file="Gen_mux.v"),
    Fn("ArbitrationId", "__attrs_post_init__", "method", [], ARB_SELF, ["id", "extended"], None, "gen_post_init"),
    Fn("ArbitrationId", "j1939_source", "getter", [], ARB_SELF, [], INT, "gen_j1939_source"),
    Fn("ArbitrationId", "j1939_ps", "getter", [], ARB_SELF, [], INT, "gen_j1939_ps"),
    Fn("ArbitrationId", "j1939_pf", "getter", [], ARB_SELF, [], INT, "gen_j1939_pf"),
    Fn("ArbitrationId", "j1939_dp", "getter", [], ARB_SELF, [], INT, "gen_j1939_dp"),
    Fn("ArbitrationId", "j1939_edp", "getter", [], ARB_SELF, [], INT, "gen_j1939_edp"),
    Fn("ArbitrationId", "j1939_priority", "getter", [], ARB_SELF, [], INT, "gen_j1939_priority"),
    Fn("ArbitrationId", "j1939_pdu_format", "getter", [], ARB_SELF, [], INT, "gen_j1939_pdu_format"),
    Fn("ArbitrationId", "pgn", "getter", [], ARB_SELF, [], INT, "gen_pgn"),
    Fn("ArbitrationId", "j1939_destination", "getter", [], ARB_SELF, [], OPTINT, "gen_j1939_destination"),
    Fn("ArbitrationId", "pgn", "setter", [("value", INT)], ARB_SELF, ["id", "extended"], None, "gen_set_pgn"),
    Fn("ArbitrationId", "j1939_source", "setter", [("value", INT)], ARB_SELF, ["id", "extended"], None, "gen_set_source"),
    Fn("ArbitrationId", "j1939_priority", "setter", [("value", INT)], ARB_SELF, ["id", "extended"], None, "gen_set_priority"),
    Fn("ArbitrationId", "to_compound_integer", "method", [], ARB_SELF, [], INT, "gen_to_compound_integer"),
    Fn("ArbitrationId", "from_compound_integer", "classmethod", [("i", INT)], {}, ["id", "extended"], None, "gen_from_compound_integer"),
    Fn("ArbitrationId", "from_pgn", "classmethod", [("pgn", INT)], {}, ["id", "extended"], None, "gen_from_pgn"),
    Fn("Frame", "fit_dlc", "method", [], {"size": INT}, ["size"], None, "gen_fit_dlc"),
    # Gen_layout.v is self-contained: it carries its own copy of get_startbit (called on the signals of a frame)
    Fn("Signal", "get_startbit", "method", [("bit_numbering", OPTINT), ("start_little", OPTBOOL)],
       SIG_SELF, [], INT, "gen_sig_get_startbit", file="Gen_layout.v"),
    Fn("Frame", "calc_dlc", "method", [], None, ["size"], None, "gen_calc_dlc", file="Gen_layout.v"),
    Fn("CanMatrix", "recalc_dlc", "method", [("strategy", STR)], None, ["frames"], None, "gen_recalc_dlc", file="Gen_layout.v"),
]
TARGETS.append(Fn("Signal", "calculate_raw_range", "method", [], {"size": INT, "is_signed": BOOL}, [], INTPAIR,
                  "gen_calculate_raw_range", file="Gen_scaling.v", assume={"is_float": False}))
SIG_REC = Rec("Signal", {"is_little_endian": BOOL, "size": INT, "start_bit": INT})
PDU_REC = Rec("Pdu", {"size": INT})
FRAME_SELF = {"is_pdu_container": BOOL, "pdus": ListOf(PDU_REC), "signals": ListOf(SIG_REC), "size": INT}
FRAME_REC = Rec("Frame", FRAME_SELF)
for _fn in TARGETS:
    if _fn.coq_name == "gen_calc_dlc":
        _fn.selff = FRAME_SELF
    elif _fn.coq_name == "gen_recalc_dlc":
        # `self.pdus` is what the source reads inside the frame loop; it is translated as written
        _fn.selff = {"frames": ListOf(FRAME_REC), "pdus": ListOf(PDU_REC)}
FILES = {"Signal": "Gen_startbit.v", "ArbitrationId": "Gen_arbid.v", "Frame": "Gen_frame.v"}


class Ctx:
    def __init__(self, fn, classes, consts, getters, status=None, funcs=None):
        self.fn, self.classes, self.consts, self.getters = fn, classes, consts, getters
        self.counter = {}
        self.status = status or {}        # coq_name -> 'ok' | 'untranslatable...' of the targets translated so far
        self.funcs = funcs or {}          # (class, name, kind) -> FunctionDef
        self.loop_depth = 0
        self.inline = []                  # frames of helper calls being inlined: {"name":..., "ty": result type}

    def fresh(self, base):
        base = base.replace(".", "_")
        n = self.counter.get(base, 0)
        self.counter[base] = n + 1
        return base if n == 0 else "%s%d" % (base, n)


def zlit(n):
    return "(%d)" % n if n < 0 else "%d" % n


# ---------------- expressions: returns (binds, term, type); binds = list of (var, option-valued term) ----------------
def expr(e, env, cx):
    if isinstance(e, ast.Constant):
        if e.value is True:
            return [], "true", BOOL
        if e.value is False:
            return [], "false", BOOL
        if e.value is None:
            return [], "None", "none"
        if isinstance(e.value, int):
            return [], zlit(e.value), INT
        if isinstance(e.value, str) and all(32 <= ord(c) < 127 and c != '"' for c in e.value):
            return [], '"%s"%%string' % e.value, STR
        bad(e, "constant")
    if isinstance(e, ast.Name):
        if e.id in env:
            return [], env[e.id][0], env[e.id][1]
        if e.id == "int":
            return [], "", INTFUN                             # the builtin, usable only as `f = int` ... `f(<int>)`
        bad(e, "unknown name")
    if isinstance(e, ast.Attribute) and isinstance(e.value, ast.Name) and e.value.id in ("self", "cls"):
        key = "self." + e.attr
        if key in env:
            return [], env[key][0], env[key][1]
        if e.attr in cx.consts:
            return [], zlit(cx.consts[e.attr]), INT
        if e.attr in cx.getters and e.value.id == "self":
            g = cx.getters[e.attr]
            v = cx.fresh("p_" + e.attr)
            args = " ".join(env["self." + f][0] for f in sorted(g.selff))
            return [(v, "%s %s" % (g.coq_name, args))], v, g.ret
        bad(e, "unknown attribute")
    if isinstance(e, ast.Attribute) and isinstance(e.value, ast.Name):
        key = e.value.id + "." + e.attr                       # field of a loop element
        if key in env:
            return [], env[key][0], env[key][1]
        bad(e, "unknown attribute")
    if isinstance(e, ast.Call) and helper_def(e, cx, env) is not None:
        return inline_call(e, env, cx)
    if isinstance(e, ast.Call) and isinstance(e.func, ast.Attribute) and isinstance(e.func.value, ast.Name):
        v, term, callee = method_call(e, env, cx)
        if callee.ret is None or callee.out_fields:
            bad(e, "call of a mutating method inside an expression")
        return [(v, term)], v, callee.ret
    if isinstance(e, ast.Call) and isinstance(e.func, ast.Name) and e.func.id == "max" and len(e.args) == 2 and not e.keywords:
        b1, l, tl = expr(e.args[0], env, cx)
        b2, r, tr = expr(e.args[1], env, cx)
        if tl != INT or tr != INT:
            bad(e, "max() of non-ints")
        return b1 + b2, "(Z.max %s %s)" % (l, r), INT
    if isinstance(e, ast.BinOp) and isinstance(e.op, ast.Pow):
        # <positive literal> ** <int>: an int for a non-negative exponent; a negative exponent gives a Python float,
        # which is outside the subset - the generated function answers None there (fail closed)
        if not (isinstance(e.left, ast.Constant) and isinstance(e.left.value, int) and not isinstance(e.left.value, bool) and e.left.value > 0):
            bad(e, "power of a non-literal base")
        b2, r, tr = expr(e.right, env, cx)
        if tr != INT:
            bad(e, "non-int exponent")
        v = cx.fresh("pw")
        return b2 + [(v, "(if %s <? 0 then None else Some (%d ^ %s))" % (r, e.left.value, r))], v, INT
    if isinstance(e, ast.BinOp):
        b1, l, tl = expr(e.left, env, cx)
        b2, r, tr = expr(e.right, env, cx)
        if tl != INT or tr != INT:
            bad(e, "non-int arithmetic")
        ops = {ast.Add: "(%s + %s)", ast.Sub: "(%s - %s)", ast.Mult: "(%s * %s)", ast.FloorDiv: "(%s / %s)", ast.Mod: "(%s mod %s)",
               ast.LShift: "(Z.shiftl %s %s)", ast.RShift: "(Z.shiftr %s %s)", ast.BitAnd: "(Z.land %s %s)", ast.BitOr: "(Z.lor %s %s)"}
        for k, fmt in ops.items():
            if isinstance(e.op, k):
                if k in (ast.FloorDiv, ast.Mod) and not (isinstance(e.right, ast.Constant) and isinstance(e.right.value, int) and e.right.value > 0):
                    bad(e, "division by a non-literal")
                return b1 + b2, fmt % (l, r), INT
        bad(e, "operator")
    if isinstance(e, ast.UnaryOp) and isinstance(e.op, ast.Not):
        b, t = cond(e.operand, env, cx)
        return b, "(negb %s)" % t, BOOL
    if isinstance(e, ast.UnaryOp) and isinstance(e.op, ast.USub):
        b, t, ty = expr(e.operand, env, cx)
        if ty != INT:
            bad(e, "negation")
        return b, "(- %s)" % t, INT
    if isinstance(e, (ast.Compare, ast.BoolOp)):
        b, t = cond(e, env, cx)
        return b, t, BOOL
    if isinstance(e, ast.IfExp):
        bc, c = cond(e.test, env, cx)
        b1, x, t1 = expr(e.body, env, cx)
        b2, y, t2 = expr(e.orelse, env, cx)
        if b1 or b2:
            bad(e, "conditional expression")
        if t1 != t2 and {t1, t2} <= {INT, "none", OPTINT}:
            # `x if c else None`: an optional int
            opt = {INT: "(Some %s)", "none": "(@None Z)", OPTINT: "%s"}
            x = opt[t1] % x if "%s" in opt[t1] else opt[t1]
            y = opt[t2] % y if "%s" in opt[t2] else opt[t2]
            t1 = t2 = OPTINT
        if t1 != t2:
            bad(e, "conditional expression")
        return bc, "(if %s then %s else %s)" % (c, x, y), t1
    if isinstance(e, ast.Call) and isinstance(e.func, ast.Name) and e.func.id == "len" and len(e.args) == 1:
        b, t, ty = expr(e.args[0], env, cx)
        if ty != LISTPAIR and not isinstance(ty, ListOf):
            bad(e, "len() of a non-list")
        return b, "(Z.of_nat (length %s))" % t, INT
    if isinstance(e, ast.Call) and isinstance(e.func, ast.Name) and env.get(e.func.id, (None, None))[1] == INTFUN \
            and len(e.args) == 1 and not e.keywords:
        b, t, ty = expr(e.args[0], env, cx)
        if ty != INT:
            bad(e, "int() of non-int")
        return b, t, INT
    if isinstance(e, ast.Tuple) and len(e.elts) == 2:
        b1, l, tl = expr(e.elts[0], env, cx)
        b2, r, tr = expr(e.elts[1], env, cx)
        if tl != INT or tr != INT:
            bad(e, "tuple of non-ints")
        return b1 + b2, "(%s, %s)" % (l, r), INTPAIR
    if isinstance(e, ast.Call) and isinstance(e.func, ast.Name) and e.func.id == "int" and len(e.args) == 1:
        b, t, ty = expr(e.args[0], env, cx)
        if ty != INT:
            bad(e, "int() of non-int")
        return b, t, INT
    bad(e, "expression")


def cond(e, env, cx):
    """boolean reading of an expression (truthiness only for bools); returns (binds, term)"""
    if isinstance(e, ast.BoolOp):
        parts = [cond(v, env, cx) for v in e.values]
        if any(b for b, _ in parts[1:]):
            bad(e, "property access after a short-circuit operator")
        op = "&&" if isinstance(e.op, ast.And) else "||"
        return parts[0][0], "(" + (" %s " % op).join(t for _, t in parts) + ")"
    if isinstance(e, ast.Compare) and len(e.ops) > 1:
        # a < b < c is (a < b) and (b < c); the middle operands are evaluated once in Python, so only effect-free
        # names and constants are accepted there
        operands = [e.left] + list(e.comparators)
        if not all(isinstance(m, (ast.Name, ast.Constant)) for m in operands[1:-1]):
            bad(e, "chained comparison over a compound middle operand")
        links = []
        for i, op_i in enumerate(e.ops):
            link = ast.Compare(left=operands[i], ops=[op_i], comparators=[operands[i + 1]])
            ast.copy_location(link, e)
            links.append(link)
        both = ast.BoolOp(op=ast.And(), values=links)
        ast.copy_location(both, e)
        return cond(both, env, cx)
    if isinstance(e, ast.Compare) and len(e.ops) == 1:
        op, a, b = e.ops[0], e.left, e.comparators[0]
        if isinstance(op, (ast.In, ast.NotIn)):
            # x in (c1, c2, ...) over a literal tuple/list of constants, x an effect-free name: x == c1 or x == c2 or ...
            if not isinstance(b, (ast.Tuple, ast.List)) or not b.elts or not all(isinstance(c, ast.Constant) for c in b.elts) \
                    or not isinstance(a, ast.Name):
                bad(e, "membership test other than <name> in <literal tuple of constants>")
            links = []
            for c in b.elts:
                link = ast.Compare(left=a, ops=[ast.Eq()], comparators=[c])
                ast.copy_location(link, e)
                links.append(link)
            anyof = links[0] if len(links) == 1 else ast.BoolOp(op=ast.Or(), values=links)
            ast.copy_location(anyof, e)
            bb, t = cond(anyof, env, cx)
            return bb, ("(negb %s)" % t if isinstance(op, ast.NotIn) else t)
        if isinstance(op, (ast.Is, ast.IsNot)):
            ba, x, tx = expr(a, env, cx)
            if not isinstance(b, ast.Constant) or b.value not in (True, False, None):
                bad(e, "`is` against a non-singleton")
            if b.value is None:
                t = {OPTINT: "(match %s with None => true | Some _ => false end)" % x,
                     OPTBOOL: "(match %s with None => true | Some _ => false end)" % x,
                     BOOL: "false", INT: "false"}.get(tx)
            elif b.value is True:
                t = {OPTBOOL: "(match %s with Some true => true | _ => false end)" % x, BOOL: x, INT: "false", OPTINT: "false"}.get(tx)
            else:
                t = {OPTBOOL: "(match %s with Some false => true | _ => false end)" % x, BOOL: "(negb %s)" % x, INT: "false", OPTINT: "false"}.get(tx)
            if t is None:
                bad(e, "`is` on this type")
            return ba, ("(negb %s)" % t if isinstance(op, ast.IsNot) else t)
        ba, x, tx = expr(a, env, cx)
        bb, y, ty = expr(b, env, cx)
        if isinstance(op, (ast.Lt, ast.LtE, ast.Gt, ast.GtE)):
            if tx != INT or ty != INT:
                bad(e, "ordering of non-ints")
            f = {ast.Lt: "(%s <? %s)", ast.LtE: "(%s <=? %s)", ast.Gt: "(%s >? %s)", ast.GtE: "(%s >=? %s)"}[type(op)]
            return ba + bb, f % (x, y)
        if isinstance(op, (ast.Eq, ast.NotEq)):
            def as_optint(t, ty_):
                if ty_ == INT:
                    return "(Some %s)" % t
                if ty_ == BOOL:
                    return "(Some (if %s then 1 else 0))" % t
                if ty_ == OPTINT:
                    return t
                if ty_ == "none":
                    return "(@None Z)"
                bad(e, "equality on this type")
            if tx == INT and ty == INT:
                t = "(%s =? %s)" % (x, y)
            elif tx == STR and ty == STR:
                t = "(String.eqb %s %s)" % (x, y)
            elif tx == BOOL and ty == BOOL:
                t = "(Bool.eqb %s %s)" % (x, y)
            else:
                t = "(match %s, %s with Some a_, Some b_ => a_ =? b_ | None, None => true | _, _ => false end)" % (as_optint(x, tx), as_optint(y, ty))
            return ba + bb, ("(negb %s)" % t if isinstance(op, ast.NotEq) else t)
        bad(e, "comparison")
    b, t, ty = expr(e, env, cx)
    if ty != BOOL:
        bad(e, "truthiness of a non-bool")
    return b, t


def helper_def(call, cx, env=None):
    """the FunctionDef of a private helper of the same module that a call refers to: self._h(..), cls._h(..), Class._h(..)
    (plain or static method of the class being translated), <loop element>._h(..) (plain method of the element's class)
    or a module-level function _h(..); None for anything else"""
    f = call.func
    if env is not None and isinstance(f, ast.Attribute) and isinstance(f.value, ast.Name) and isinstance(env.get(f.value.id, (None, None))[1], Rec):
        ecls = env[f.value.id][1].cls
        if any(g.cls == ecls and g.name == f.attr for g in TARGETS):
            return None
        return cx.funcs.get((ecls, f.attr, "method"))
    if isinstance(f, ast.Attribute) and isinstance(f.value, ast.Name) and f.value.id in ("self", "cls", cx.fn.cls):
        for kind in ("method", "static"):
            d = cx.funcs.get((cx.fn.cls, f.attr, kind))
            if d is not None and not any(g.cls == cx.fn.cls and g.name == f.attr for g in TARGETS):
                if kind == "method" and f.value.id != "self":
                    return None
                return d
        return None
    if isinstance(f, ast.Name):
        return cx.funcs.get(("", f.id, "function"))
    return None


def inline_call(call, env, cx):
    """A call of a side-effect-free helper is translated in place: the helper's body becomes an option-valued term (raise ->
    None, return e -> Some e) that is bound like a property access.  The helper may read self fields, must not assign
    them, and every return must have the same type."""
    fdef = helper_def(call, cx, env)
    name = fdef.name
    elem = call.func.value.id if isinstance(call.func, ast.Attribute) and isinstance(env.get(call.func.value.id, (None, None))[1], Rec) else None
    if len(cx.inline) >= 3 or any(fr["name"] == name for fr in cx.inline):
        bad(call, "helper calls nested too deeply or recursive")
    for d in fdef.decorator_list:
        if ast.unparse(d) != "staticmethod":
            bad(call, "helper %s carries decorator @%s" % (name, ast.unparse(d)))
    a = fdef.args
    if a.vararg or a.kwarg or a.kwonlyargs or a.posonlyargs:
        bad(call, "helper parameter list")
    is_method = isinstance(call.func, ast.Attribute) and not any(ast.unparse(d) == "staticmethod" for d in fdef.decorator_list)
    params = [x.arg for x in a.args][1 if is_method else 0:]
    defaults = dict(zip(params[len(params) - len(a.defaults):], a.defaults)) if a.defaults else {}
    given = dict(zip(params, call.args))
    if len(call.args) > len(params):
        bad(call, "too many arguments")
    for k in call.keywords:
        if k.arg is None or k.arg not in params or k.arg in given:
            bad(call, "keyword argument")
        given[k.arg] = k.value
    for n in ast.walk(fdef):
        if isinstance(n, (ast.Assign, ast.AugAssign, ast.AnnAssign)):
            for t in (n.targets if isinstance(n, ast.Assign) else [n.target]):
                if not isinstance(t, ast.Name):
                    bad(call, "helper %s assigns to something other than a local" % name)
        if isinstance(n, (ast.Global, ast.Nonlocal, ast.Yield, ast.YieldFrom, ast.Lambda, ast.FunctionDef)) and n is not fdef:
            bad(call, "helper %s uses a construct outside the subset" % name)
    binds, lets = [], []
    if elem is not None:
        # the helper's self is the loop element: its fields are the element's fields
        env_c = {"self." + k[len(elem) + 1:]: v for k, v in env.items() if k.startswith(elem + ".")}
    else:
        env_c = {k: v for k, v in env.items() if k.startswith("self.")} if is_method else {}
    for p_ in params:
        src = given.get(p_, defaults.get(p_))
        if src is None:
            bad(call, "missing argument %s" % p_)
        b, t, ty = expr(src, env if p_ in given else {}, cx)
        if ty == "none":
            bad(call, "a bare None argument has no type here")
        binds += b
        v = cx.fresh(p_)
        lets.append("let %s := %s in " % (v, t))
        env_c[p_] = (v, ty)
    frame = {"name": name, "ty": None, "unit": bool(getattr(cx, "inline_unit", 0)) and not cx.inline}
    cx.inline.append(frame)
    depth, cx.loop_depth = cx.loop_depth, 0

    def fell_off(_env):
        if frame["unit"]:
            frame["ty"] = "unit"
            return "Some tt"
        bad(call, "helper %s can fall off its end" % name)
    try:
        body = stmts(fdef.body, env_c, cx, fell_off, None)
    finally:
        cx.inline.pop()
        cx.loop_depth = depth
    if frame["ty"] is None:
        bad(call, "helper %s never returns a value" % name)
    r = cx.fresh("r_" + name.lstrip("_"))
    return binds + [(r, "(" + "".join(lets) + body + ")")], r, frame["ty"]


def method_call(call, env, cx):
    """<element>.<method>() where the method is a translated target of the same generated file, called without
    arguments (every omitted parameter must default to None in the source).  Returns (result pattern, term, callee)."""
    obj = call.func.value.id
    oty = env.get(obj, (None, None))[1]
    if not isinstance(oty, Rec):
        bad(call, "method call on something that is not a loop element")
    here = cx.fn.file or FILES.get(cx.fn.cls)
    callee = None
    for g in TARGETS:
        if g.cls == oty.cls and g.name == call.func.attr and g.kind == "method" and (g.file or FILES.get(g.cls)) == here:
            callee = g
    if callee is None or callee is cx.fn:
        bad(call, "call of a method that is not a translated target of this file")
    if cx.status.get(callee.coq_name) != "ok":
        bad(call, "callee %s is untranslatable" % callee.coq_name)
    if call.args or call.keywords:
        bad(call, "method call with arguments")
    fdef = cx.funcs.get((callee.cls, callee.name, callee.kind))
    defaults = fdef.args.defaults if fdef is not None else []
    if fdef is None or len(defaults) != len(callee.params) or \
            not all(isinstance(d, ast.Constant) and d.value is None for d in defaults) or \
            not all(ty in (OPTINT, OPTBOOL) for _, ty in callee.params):
        bad(call, "omitted parameters do not all default to None")
    args = []
    for f in sorted(callee.selff):
        if callee.selff[f] == STR:
            continue
        key = obj + "." + f
        if key not in env or not same_type(env[key][1], callee.selff[f]):
            bad(call, "element lacks field %s of the callee" % f)
        args.append(env[key][0])
    args += ["None"] * len(callee.params)
    outs = []
    if callee.ret is not None:
        outs.append(cx.fresh("r_" + callee.name))
    for f in callee.out_fields:
        outs.append(cx.fresh(obj + "_" + f))
    return tuple_of(outs), "%s %s" % (callee.coq_name, " ".join(args)), callee


def same_type(a, b):
    if isinstance(a, Rec) and isinstance(b, Rec):
        return a.cls == b.cls and a.names() == b.names() and all(same_type(a.fields[f], b.fields[f]) for f in a.fields)
    if isinstance(a, ListOf) and isinstance(b, ListOf):
        return same_type(a.rec, b.rec)
    return a == b


def iter_key(node):
    """the env key of a list expression: self.<f> or <element>.<f>"""
    if isinstance(node, ast.Attribute) and isinstance(node.value, ast.Name):
        return node.value.id + "." + node.attr
    return None


def assigned_keys(body, env, cx):
    """env keys (locals, self.<f>, <element>.<f>) a statement list may assign, incl. through mutating calls and
    through inner loops that rebuild their list"""
    out = set()
    for s in body:
        if isinstance(s, (ast.Assign, ast.AugAssign)):
            tgts = s.targets if isinstance(s, ast.Assign) else [s.target]
            for tg in tgts:
                if isinstance(tg, ast.Name):
                    out.add(tg.id)
                elif isinstance(tg, ast.Attribute) and isinstance(tg.value, ast.Name):
                    out.add(tg.value.id + "." + tg.attr)
                else:
                    bad(s, "assignment target")
        elif isinstance(s, ast.Expr) and isinstance(s.value, ast.Call) and isinstance(s.value.func, ast.Attribute) \
                and isinstance(s.value.func.value, ast.Name) and ast.unparse(s.value.func) not in ("warnings.warn", "logger.info", "logger.warning"):
            obj = s.value.func.value.id
            for g in TARGETS:
                if g.name == s.value.func.attr and g.kind == "method":
                    out |= {obj + "." + f for f in g.out_fields}
        elif isinstance(s, ast.If):
            out |= assigned_keys(s.body, env, cx) | assigned_keys(s.orelse, env, cx)
        elif isinstance(s, ast.For):
            inner = assigned_keys(s.body, env, cx) | assigned_keys(s.orelse, env, cx)
            if isinstance(s.target, ast.Name):
                mine = {k for k in inner if k.startswith(s.target.id + ".")}
                inner -= mine
                inner.discard(s.target.id)
                if mine:
                    k = iter_key(s.iter)
                    if k is None:
                        bad(s, "loop that updates the elements of an unnamed list")
                    inner.add(k)
            out |= inner
        elif isinstance(s, (ast.While, ast.With, ast.Try, ast.FunctionDef, ast.Delete, ast.Global, ast.Nonlocal)):
            bad(s, "statement")
    return out


def record_loop(s, env, cx, nxt):
    """for x in <list of records>: body     ->  an option-carrying fold_left whose accumulator is the tuple of the outer
    variables the body assigns (sorted by name), plus the rebuilt list when the body updates fields of x.
    Names first assigned inside the body are temporaries of one round (a read before the assignment, or after the loop,
    is an unknown name and aborts the translation)."""
    if s.orelse:
        bad(s, "for ... else")
    b0, lst, lty = expr(s.iter, env, cx)
    if b0 or not isinstance(lty, ListOf):
        bad(s, "for loop over this iterable")
    x = s.target.id
    if x in env or x in ("self", "cls") or any(k.startswith(x + ".") for k in env):
        bad(s, "loop variable shadows another name")
    rec = lty.rec
    assigned = assigned_keys(s.body, env, cx)
    if x in assigned:
        bad(s, "assignment to the loop variable")
    elem_upd = sorted(k for k in assigned if k.startswith(x + "."))
    for k in elem_upd:
        if k.split(".", 1)[1] not in rec.fields:
            bad(s, "assignment to an untracked field of the loop element")
    outer = sorted(k for k in assigned if not k.startswith(x + ".") and k in env)
    lkey = iter_key(s.iter)
    if elem_upd and (lkey is None or lkey not in env or lkey in outer):
        bad(s, "loop that updates elements of a list it cannot rebuild")
    acc_in = [cx.fresh(k + "_a") for k in outer]
    out_in = cx.fresh("rebuilt") if elem_upd else None
    env_l = dict(env)
    for k, v in zip(outer, acc_in):
        env_l[k] = (v, env[k][1])
    xv = cx.fresh(x + "_e")
    fields = rec.names()
    fvars = [cx.fresh(x + "_" + f) for f in fields]
    env_l[x] = (xv, rec)
    for f, v in zip(fields, fvars):
        env_l[x + "." + f] = (v, rec.fields[f])

    def k_end(e2):
        parts = [e2[k][0] for k in outer]
        if elem_upd:
            parts.append("(%s ++ [%s])" % (out_in, tuple_of([e2[x + "." + f][0] for f in fields])))
        return "Some %s" % tuple_of(parts)

    cx.loop_depth += 1
    body = stmts(s.body, env_l, cx, k_end, None)
    cx.loop_depth -= 1
    accv = cx.fresh("acc")
    pat_in = tuple_of(acc_in + ([out_in] if elem_upd else []))
    init = tuple_of([env[k][0] for k in outer] + (["[]"] if elem_upd else []))
    destr = "let %s := %s in " % (fvars[0], xv) if len(fields) == 1 else "let '(%s) := %s in " % (", ".join(fvars), xv)
    acc_tys = [coqty(env[k][1]) for k in outer] + ([coqty(env[lkey][1])] if elem_upd else [])
    acc_ty = "unit" if not acc_tys else " * ".join("(%s)" % a for a in acc_tys)
    fold = ("fold_left (fun (%s : option (%s)) (%s : %s) => match %s with None => None | Some %s => %s%s end) %s (Some %s)"
            % (accv, acc_ty, xv, coqty(rec), accv, pat_in, destr, body, lst, init))
    env2 = dict(env)
    outs = []
    for k in outer:
        v = cx.fresh(k)
        env2[k] = (v, env[k][1])
        outs.append(v)
    if elem_upd:
        v = cx.fresh(lkey)
        env2[lkey] = (v, env[lkey][1])
        outs.append(v)
    return "match %s with None => None | Some %s => %s end" % (fold, tuple_of(outs), nxt(env2))


def with_binds(binds, body):
    for v, t in reversed(binds):
        body = "match %s with None => None | Some %s => %s end" % (t, v, body)
    return body


# ---------------- statements (continuation passing) ----------------
def result_term(cx, env, retval):
    parts = []
    if cx.fn.ret is not None:
        parts.append(retval if retval is not None else "0")
    for f in cx.fn.out_fields:
        parts.append(env["self." + f][0])
    if not parts:
        return "Some tt"
    return "Some (%s)" % ", ".join(parts)


def stmts(body, env, cx, k_end, k_break=None):
    """k_end(env) -> term for falling off the end of `body`"""
    if not body:
        return k_end(env)
    s, rest = body[0], body[1:]
    nxt = lambda env2: stmts(rest, env2, cx, k_end, k_break)
    if isinstance(s, ast.Expr):
        if isinstance(s.value, ast.Constant) and isinstance(s.value.value, str):
            return nxt(env)                                   # docstring
        if isinstance(s.value, ast.Call) and ast.unparse(s.value.func) in ("warnings.warn", "logger.info", "logger.warning", "logger.debug",
                                                                             "logger.error", "logging.warning", "logging.info", "logging.debug"):
            return nxt(env)                                   # no effect on the modelled state
        if isinstance(s.value, ast.Call) and helper_def(s.value, cx, env) is not None:
            # a helper called for its checks only (it raises or returns nothing): its body runs, the result is dropped
            cx.inline_unit = getattr(cx, "inline_unit", 0) + 1
            try:
                b, _v, _ty = inline_call(s.value, env, cx)
            finally:
                cx.inline_unit -= 1
            return with_binds(b, nxt(env))
        if isinstance(s.value, ast.Call) and isinstance(s.value.func, ast.Attribute) and isinstance(s.value.func.value, ast.Name) \
                and s.value.func.value.id not in ("self", "cls"):
            pat, term, callee = method_call(s.value, env, cx)   # <element>.<method>(): the element's fields are updated
            obj = s.value.func.value.id
            names = pat.strip("()").split(", ") if pat != "tt" else []
            if callee.ret is not None:
                names = names[1:]
            env2 = dict(env)
            for f, v in zip(callee.out_fields, names):
                env2[obj + "." + f] = (v, callee.selff[f])
            return "match %s with None => None | Some %s => %s end" % (term, pat, nxt(env2))
        bad(s, "expression statement")
    if isinstance(s, ast.Pass):
        return nxt(env)
    if isinstance(s, (ast.Return, ast.Assign)) and isinstance(s.value, ast.IfExp) and \
            (isinstance(s, ast.Return) or len(s.targets) == 1):
        # `return a if c else b` / `x = a if c else b` read as the if statement they abbreviate (a property access in
        # one arm is then evaluated only on that arm, as in Python)
        def plain(v):
            try:
                return not expr(v, env, cx)[0]
            except Untranslatable:
                return False
        if plain(s.value.body) and plain(s.value.orelse):
            branchless = True
        else:
            branchless = False

        def arm(v):
            n = ast.Return(value=v) if isinstance(s, ast.Return) else ast.Assign(targets=s.targets, value=v)
            return ast.copy_location(n, s)
        if not branchless:
            branch = ast.copy_location(ast.If(test=s.value.test, body=[arm(s.value.body)], orelse=[arm(s.value.orelse)]), s)
            return stmts([branch] + rest, env, cx, k_end, k_break)
    if isinstance(s, (ast.Assign, ast.AugAssign)):
        if isinstance(s, ast.Assign):
            if len(s.targets) != 1:
                bad(s, "multiple targets")
            tgt, val = s.targets[0], s.value
        else:
            tgt, val = s.target, ast.BinOp(left=s.target, op=s.op, right=s.value)
            ast.copy_location(val, s)
        if isinstance(tgt, ast.Name):
            key = tgt.id
        elif isinstance(tgt, ast.Attribute) and isinstance(tgt.value, ast.Name) and tgt.value.id == "self":
            key = "self." + tgt.attr
            if key not in env:
                bad(s, "assignment to an untracked self field")
        elif isinstance(tgt, ast.Attribute) and isinstance(tgt.value, ast.Name) and isinstance(env.get(tgt.value.id, (None, None))[1], Rec):
            key = tgt.value.id + "." + tgt.attr
            if key not in env:
                bad(s, "assignment to an untracked field of a loop element")
        else:
            bad(s, "assignment target")
        b, t, ty = expr(val, env, cx)
        if isinstance(ty, (Rec, ListOf)):
            bad(s, "assignment of an object or list")
        if key in env and env[key][1] != ty and not (env[key][1] == BOOL and ty == BOOL):
            bad(s, "assignment changes the type")
        if ty == INTFUN:
            if not isinstance(tgt, ast.Name):
                bad(s, "the builtin int stored in a field")
            env2 = dict(env)
            env2[key] = ("", INTFUN)
            return with_binds(b, nxt(env2))
        v = cx.fresh(key)
        if ty == "none":
            t = "(@None Z)"                                  # a bare None has no type of its own in Gallina
        env2 = dict(env)
        env2[key] = (v, ty)
        return with_binds(b, "let %s := %s in\n  %s" % (v, t, nxt(env2)))
    if isinstance(s, ast.If) and isinstance(s.test, ast.BoolOp) and isinstance(s.test.op, ast.And):
        # flow typing: `... and x is not None` refines an optional int to an int inside the then-branch
        for i, cj in enumerate(s.test.values):
            if isinstance(cj, ast.Compare) and len(cj.ops) == 1 and isinstance(cj.ops[0], ast.IsNot) \
                    and isinstance(cj.comparators[0], ast.Constant) and cj.comparators[0].value is None \
                    and isinstance(cj.left, ast.Name) and env.get(cj.left.id, (None, None))[1] == OPTINT:
                others = s.test.values[:i] + s.test.values[i + 1:]
                # the other conjuncts must not mention the refined name before the test (short-circuit order)
                if any(isinstance(n, ast.Name) and n.id == cj.left.id for o in s.test.values[:i] for n in ast.walk(o)):
                    break
                v = cx.fresh(cj.left.id + "_v")
                env_t = dict(env)
                env_t[cj.left.id] = (v, INT)
                t_else = stmts(s.orelse, env, cx, nxt, k_break)
                inner_test = others[0] if len(others) == 1 else ast.BoolOp(op=ast.And(), values=others)
                ast.copy_location(inner_test, s)
                bb, c = cond(inner_test, env_t, cx)
                t_then = stmts(s.body, env_t, cx, lambda e2: nxt({**e2, cj.left.id: env[cj.left.id]}), k_break)
                return "match %s with None => (%s) | Some %s => %s end" % (
                    env[cj.left.id][0], t_else, v, with_binds(bb, "if %s then (%s) else (%s)" % (c, t_then, t_else)))
    if isinstance(s, ast.For) and isinstance(s.iter, ast.Attribute) and isinstance(s.target, ast.Tuple):
        # for a, b in self.<list of pairs>: if <cond>: return <e>      [else: ...]
        b0, lst, lty = expr(s.iter, env, cx)
        if lty != LISTPAIR or b0 or len(s.target.elts) != 2 or not all(isinstance(x, ast.Name) for x in s.target.elts):
            bad(s, "for loop over this iterable")
        if len(s.body) != 1 or not isinstance(s.body[0], ast.If) or s.body[0].orelse or \
                not isinstance(s.body[0].body[-1], ast.Return):
            bad(s, "for loop body (only `if c: ...; return e` is understood)")
        a, bname = s.target.elts[0].id, s.target.elts[1].id
        pv = cx.fresh("pr")
        env_l = dict(env)
        env_l[a] = ("(fst %s)" % pv, INT)
        env_l[bname] = ("(snd %s)" % pv, INT)
        bc, c = cond(s.body[0].test, env_l, cx)
        if bc:
            bad(s, "property access inside a loop condition")
        t_found = stmts(s.body[0].body, env_l, cx, lambda e2: "None")
        t_none = stmts(s.orelse, env, cx, nxt, k_break)
        return "match find (fun %s => %s) %s with Some %s => (%s) | None => (%s) end" % (pv, c, lst, pv, t_found, t_none)
    if isinstance(s, ast.If):
        b, c = cond(s.test, env, cx)
        if not b and c in ("true", "false") and cx.fn.assume:
            # a test fixed by Fn.assume: only the live arm is what runs inside the envelope
            return stmts(s.body if c == "true" else s.orelse, env, cx, nxt, k_break)
        t_then = stmts(s.body, env, cx, nxt, k_break)
        t_else = stmts(s.orelse, env, cx, nxt, k_break)
        return with_binds(b, "if %s then (%s) else (%s)" % (c, t_then, t_else))
    if isinstance(s, ast.Raise):
        return "None"
    if isinstance(s, ast.Return):
        if cx.loop_depth:
            bad(s, "return inside a loop over records")
        if cx.inline:
            if s.value is None or (isinstance(s.value, ast.Constant) and s.value.value is None):
                if cx.inline[-1].get("unit"):
                    cx.inline[-1]["ty"] = "unit"
                    return "Some tt"
                bad(s, "helper returns no value")
            b, t, ty = expr(s.value, env, cx)
            fr = cx.inline[-1]
            if ty == "none" or (fr["ty"] is not None and fr["ty"] != ty):
                bad(s, "helper return types differ")
            fr["ty"] = ty
            return with_binds(b, "Some (%s)" % t)
        if s.value is None:
            return result_term(cx, env, None)
        if isinstance(s.value, ast.Call) and isinstance(s.value.func, ast.Name) and s.value.func.id == "cls":
            return ctor_call(s.value, env, cx)
        b, t, ty = expr(s.value, env, cx)
        if cx.fn.ret is None and not b:
            # the target's return value is not part of the modelled state (only the tracked self fields are): an effect-free
            # returned expression is dropped
            return result_term(cx, env, None)
        if cx.fn.ret == OPTINT and ty == INT:
            t, ty = "(Some %s)" % t, OPTINT                   # an int where an optional int is expected
        elif cx.fn.ret == OPTINT and ty == "none":
            t, ty = "(@None Z)", OPTINT
        if cx.fn.ret is None or ty != cx.fn.ret:
            bad(s, "return type")
        return with_binds(b, result_term(cx, env, t))
    if isinstance(s, ast.Break):
        if k_break is None:
            bad(s, "break outside loop")
        return k_break(env)
    if isinstance(s, ast.For) and isinstance(s.target, ast.Name) and isinstance(s.iter, ast.Attribute):
        return record_loop(s, env, cx, nxt)
    if isinstance(s, ast.For):
        if s.orelse or not isinstance(s.target, ast.Name) or not isinstance(s.iter, (ast.List, ast.Tuple)) \
                or not all(isinstance(x, ast.Constant) and isinstance(x.value, int) for x in s.iter.elts):
            bad(s, "for loop (only literal integer lists are unrolled)")
        items = [x.value for x in s.iter.elts]

        def unroll(i, env_i):
            if i == len(items):
                return nxt(env_i)
            env_b = dict(env_i)
            env_b[s.target.id] = (zlit(items[i]), INT)
            return stmts(s.body, env_b, cx, lambda e2: unroll(i + 1, e2), lambda e2: nxt(e2))
        return unroll(0, env)
    bad(s, "statement")


def ctor_call(call, env, cx):
    """cls(id=..., extended=...) -> run the generated __attrs_post_init__"""
    kw = {k.arg: k.value for k in call.keywords}
    if call.args or set(kw) != {"id", "extended"}:
        bad(call, "constructor call")
    b1, i, t1 = expr(kw["id"], env, cx)
    b2, x, t2 = expr(kw["extended"], env, cx)
    if t1 != INT or t2 != BOOL:
        bad(call, "constructor argument types")
    return with_binds(b1 + b2, "gen_post_init %s %s" % (x, i))   # binder order: sorted self fields (extended, id)


def translate(fn, fdef, classes, consts, getters, status=None, funcs=None):
    cx = Ctx(fn, classes, consts, getters, status, funcs)
    env = {}
    binders = []
    for f in sorted(fn.selff):
        if fn.selff[f] == STR:
            continue
        v = "self_" + f
        env["self." + f] = (v, fn.selff[f])
        binders.append("(%s : %s)" % (v, coqty(fn.selff[f])))
    for f, val in sorted(fn.assume.items()):
        env["self." + f] = ("true" if val else "false", BOOL)
    args = [a.arg for a in fdef.args.args][1:]
    if args != [p for p, _ in fn.params]:
        raise Untranslatable("parameter list of %s.%s is %s, expected %s" % (fn.cls, fn.name, args, [p for p, _ in fn.params]))
    for p, ty in fn.params:
        env[p] = (p, ty)
        binders.append("(%s : %s)" % (p, coqty(ty)))
    # generated local names never shadow a binder
    for f in fn.selff:
        cx.counter["self_" + f] = 1
    for p, _ in fn.params:
        cx.counter[p] = 1
    # getters of the same class must not see themselves
    body = stmts(fdef.body, env, cx, lambda e: result_term(cx, e, None))
    if fn.ret is not None and fn.kind != "getter" and fn.kind != "method":
        pass
    return "Definition %s %s :=\n  %s." % (fn.coq_name, " ".join(binders), body)


def find_functions(tree):
    """{(class, name, kind): FunctionDef} and class-level integer constants"""
    out, consts = {}, {}
    for node in tree.body:
        if isinstance(node, ast.FunctionDef):
            out[("", node.name, "function")] = node
        if not isinstance(node, ast.ClassDef):
            continue
        for item in node.body:
            if isinstance(item, ast.FunctionDef):
                kind = "method"
                for d in item.decorator_list:
                    src = ast.unparse(d)
                    if src == "property":
                        kind = "getter"
                    elif src.endswith(".setter"):
                        kind = "setter"
                    elif src == "classmethod":
                        kind = "classmethod"
                    elif src == "staticmethod":
                        kind = "static"
                out[(node.name, item.name, kind)] = item
            elif isinstance(item, ast.Assign) and len(item.targets) == 1 and isinstance(item.targets[0], ast.Name):
                try:
                    v = eval(compile(ast.Expression(item.value), "<const>", "eval"), {"__builtins__": {}}, {})
                    if isinstance(v, int) and not isinstance(v, bool):
                        consts.setdefault(node.name, {})[item.targets[0].id] = v
                except Exception:
                    pass
    return out, consts


def regenerate(src_dir, gen_dir):
    """returns {coq_name: 'ok' | 'untranslatable: ...'}; writes Gen_*.v only when the text changed"""
    path = os.path.join(src_dir, "canmatrix", "canmatrix.py")
    tree = ast.parse(open(path).read())
    funcs, consts = find_functions(tree)
    status = {}
    per_file = {}
    for fn in TARGETS:
        fdef = funcs.get((fn.cls, fn.name, fn.kind))
        getters = {g.name: g for g in TARGETS if g.cls == fn.cls and g.kind == "getter" and g.coq_name != fn.coq_name}
        try:
            if fdef is None:
                raise Untranslatable("function not found")
            for d in fdef.decorator_list:
                dsrc = ast.unparse(d)
                if not (dsrc in ("property", "classmethod", "staticmethod") or dsrc.endswith(".setter")):
                    # a decorator replaces the function by something else (a memo, a wrapper): the body alone is not
                    # what callers run any more
                    raise Untranslatable("decorator @%s is outside the translated subset" % dsrc)
            txt = translate(fn, fdef, None, consts.get(fn.cls, {}), getters, status, funcs)
            status[fn.coq_name] = "ok"
        except Untranslatable as e:
            # keep the file compiling: an explicit marker definition the Tie file cannot be proved against
            binders = []
            for f in sorted(fn.selff):
                if fn.selff[f] != STR:
                    binders.append("(self_%s : %s)" % (f, coqty(fn.selff[f])))
            for p, ty in fn.params:
                binders.append("(%s : %s)" % (p, coqty(ty)))
            txt = "(* UNTRANSLATABLE %s.%s: %s *)\nDefinition %s %s : option unit := None." % (fn.cls, fn.name, str(e).replace("*)", "* )"), fn.coq_name, " ".join(binders))
            status[fn.coq_name] = "untranslatable: " + str(e)[:200]
        per_file.setdefault(fn.file or FILES[fn.cls], []).append(txt)
    os.makedirs(gen_dir, exist_ok=True)
    for fname, defs in per_file.items():
        strings = any(ty == STR for fn in TARGETS if (fn.file or FILES[fn.cls]) == fname for _, ty in fn.params)
        text = ("(* GENERATED by harness/py2coq.py from src/canmatrix/canmatrix.py - do not edit. *)\n"
                + ("From Coq Require Import String.\n" if strings else "") +
                "From CM Require Import lib.Prelude.\n\n" + "\n\n".join(defs) + "\n")
        p = os.path.join(gen_dir, fname)
        if not os.path.exists(p) or open(p).read() != text:
            open(p, "w").write(text)
    return status


if __name__ == "__main__":
    st = regenerate(sys.argv[1] if len(sys.argv) > 1 else "/repo/src", sys.argv[2] if len(sys.argv) > 2 else "/verif/coq/gen")
    for k, v in st.items():
        print(k, v)
