"""C06: every write+read format preserves frame identity and signal bit layout.
Search: dump -> loads through canmatrix.formats for DBC, DBF, SYM, KCD, JSON (default and jsonExportAll), XLS (three
xlsMotorolaBitFormat notations), ARXML (3.2.3 and 4.1.0); clusters of 1..3 buses for KCD/ARXML; frames matched by
(id, extended), signals by name; occupied payload bits (layouts.positions), width, byte order, Frame.decode raw fields.
Tie: the position/identity fields found in the real output (regex / lxml / xlrd / json extractors in fmt_rt.py) against
model/FmtPos.v `write` (cmd 601/603), and the real reader's result against the model's `read` of those fields (602/604)."""
import copy
import json

import core
import fmt_rt
import matgen

LEVEL_NOTE = ("partial by design: the theorems are about the per-format field codecs of model/FmtPos.v (numbers put into / taken out of "
              "the position and identity fields); the text, XML, JSON and spreadsheet layers that carry those numbers (string formatting, "
              "regexes, lxml, json, xlwt/xlrd) are compared on generated matrices only, not proved. The multiplexer of a SYM frame is "
              "compared under its by-design name <frame>_MUX; JSON is exercised only in the `lsb` notation its reader understands")

QUICK = {"dbc": 45, "dbf": 45, "sym": 45, "kcd": 45, "json": 25, "json-all": 30, "xls-msbreverse": 20, "xls-msb": 20, "xls-lsb": 20,
         "arxml3": 22, "arxml4": 22}
THOROUGH_FACTOR = 40


class Fwd(object):
    """forward at most `cap` violations per key to the Check (its global cap is 50), all of them for known keys"""
    def __init__(self, chk, cap=4):
        self.chk, self.cap, self.n = chk, cap, {}
        self.known = {k.get("key") for k in chk.known}

    def __call__(self, key, what, inp, expected=None, observed=None):
        self.n[key] = self.n.get(key, 0) + 1
        self.chk.count("fail:" + key)
        if key in self.known or self.n[key] <= self.cap:
            self.chk.violation(key, what, inp, expected, observed)


def exc_key(cfg, stage, e, buses):
    name = type(e).__name__
    if cfg.fmt == "dbf" and stage == "reader" and name == "ArbitrationIdOutOfRange" and \
            any(f.arbitration_id.extended and f.arbitration_id.id > 0x7FF for b in buses.values() for f in b.frames):
        return "dbf-extended-id"
    return "%s-%s-raises-%s" % (cfg.key, stage, name)


def round_trip(F, cfg, buses, viol, info):
    """returns (data, back) or None after reporting"""
    import io
    buf = io.BytesIO()
    try:
        if cfg.cluster:
            F.dump(buses, buf, cfg.fmt, **cfg.opts)
        else:
            F.dump(buses[""], buf, cfg.fmt, **cfg.opts)
    except Exception as e:  # noqa
        viol(exc_key(cfg, "writer", e, buses), "writer raises %r" % e, info(), "file written", repr(e))
        return None
    data = buf.getvalue()
    try:
        back = F.loads(data, cfg.fmt, **cfg.opts)
    except Exception as e:  # noqa
        viol(exc_key(cfg, "reader", e, buses), "reader raises %r on the writer's own output" % e, info(), "matrix read back", repr(e))
        return data, None
    return data, back


def check_types(chk, viol, cfg, dbs, which, mk_info):
    """documented field types of a matrix a reader returned (bool / int / list of str ...): identity tests such as
    `is_little_endian is False` in canmatrix and the writers depend on them"""
    for m in dbs.values():
        probs = fmt_rt.field_type_problems(m, which)
        if probs:
            fr, sg, field, val = probs[0]
            viol(cfg.kbase + "-field-type", "the reader stores %s with another type than documented" % field,
                 dict(mk_info(None), frame_name=fr, signal=sg, field=field, all=[list(p) for p in probs[:8]]), "documented type", val)
        chk.count("field-types-checked:" + cfg.fmt)


def chain_stage(chk, viol, C, F, rng, prop, digits, compare, which, tie_cases):
    """conversion chains A -> B: the matrix A's reader produced goes through B's write+read and is compared with B's result"""
    per_pair = 2 if chk.tier != "thorough" else 14
    for akey in fmt_rt.CHAIN_SOURCES:
        a = fmt_rt.cfg_by_key(akey)
        for b in fmt_rt.CONFIGS:
            if prop not in b.props:
                continue
            for it in range(per_pair):
                m, afile = fmt_rt.gen_chain_source(rng, C, F, a, b, digits)
                if m is None:
                    chk.count("chain-source-skipped:" + a.key)
                    continue

                def mk_info(fr=None, sig=None, a=a, b=b, it=it, afile=afile):
                    d = {"format": b.key, "options": b.opts, "via": a.key, "via_options": a.opts, "iteration": it}
                    if a.fmt != "xls":
                        d["via_file"] = afile.decode("utf-8", "replace")[:8000]
                    if fr is not None:
                        d["frame"] = fmt_rt.frame_brief(fr)
                    if sig is not None:
                        d["signal"] = sig
                    return d
                check_types(chk, viol, a, {"": m}, which, mk_info)
                why = fmt_rt.inside_envelope(b, m)
                if why is not None:
                    chk.count("chain-outside-envelope:%s->%s" % (a.fmt, b.fmt))
                    chk.count("chain-outside-envelope-reason:" + why)
                    continue
                buses = {"Chain": m} if b.cluster else {"": m}
                orig = copy.deepcopy(buses)
                chk.count("chain:%s->%s" % (a.fmt, b.fmt))
                r = round_trip(F, b, buses, viol if prop == "C06" else (lambda *x, **k: chk.count("round-trip-raises (C06's subject)")), mk_info)
                if r is None or r[1] is None:
                    continue
                check_types(chk, viol, b, r[1], which, mk_info)
                compare(chk, viol, b, rng, orig, r[1], mk_info)
                tie_cases.append((b, orig, r[0], r[1]))


# ----------------------------------------------------------------------------------------------------------------------
# histories: one matrix object is exported again after in-place edits.  A writer must describe the object's current state:
# the file of the re-used object has to read back like the file of a fresh object of the same definition (deep copy),
# and like the edited matrix itself.
def layout_nf(cfg, dbs):
    """identity + bit layout of what a reader returned, as plain data"""
    out = {}
    for bname, m in dbs.items():
        fr = {}
        for f in m.frames:
            fr.setdefault("%d_%d" % fmt_rt.fkey(f), {"name": f.name, "signals": sorted(
                (s.name, bool(s.is_little_endian), int(s.size), tuple(fmt_rt.sig_positions(s))) for s in f.signals)})
        out[bname] = fr
    return out


def edit_in_place(rng, C, cfg, buses):
    """one in-place edit of the kind tools and scripts apply between exports; stays inside cfg's envelope.
    Returns a short description, or None when nothing applicable was found."""
    frames = [(m, f) for m in buses.values() for f in m.frames]
    used_ids = {fmt_rt.fkey(f) for _, f in frames}
    used_numbers = {int(f.arbitration_id.id) for _, f in frames}
    fnames = {f.name for _, f in frames}
    snames = {s.name for _, f in frames for s in f.signals}
    m, fr = rng.choice(frames)
    kind = rng.choice(["id-object", "id-attribute", "id-format", "frame-name", "signal-move", "signal-name", "signal-delete", "signal-add", "frame-length"])

    def new_id(ext):
        for _ in range(200):
            i = rng.randrange(1, 2 ** 29 if ext else 2 ** 11)
            if (i, ext) not in used_ids and i not in used_numbers:
                return i
        return None
    ext = bool(fr.arbitration_id.extended)
    if kind == "id-object":
        i = new_id(ext)
        if i is None:
            return None
        fr.arbitration_id = C.ArbitrationId(i, ext)
    elif kind == "id-attribute":
        i = new_id(ext)
        if i is None:
            return None
        fr.arbitration_id.id = i
    elif kind == "id-format":
        i = new_id(not ext)
        if i is None:
            return None
        fr.arbitration_id = C.ArbitrationId(i, not ext)
    elif kind == "frame-name":
        n = fr.name + "_r%d" % rng.randrange(100)
        if n in fnames:
            return None
        fr.name = n
    elif kind == "frame-length":
        legal = [x for x in (1, 2, 3, 4, 5, 6, 7, 8, 12, 16, 20, 24, 32, 48, 64) if x > int(fr.size)]
        if not legal:
            return None
        fr.size = rng.choice(legal[:3])
        if fr.size > 8:
            fr.is_fd = True
    else:
        muxed = any(s.is_multiplexer for s in fr.signals)
        occupied = {}
        for s in fr.signals:
            for p in fmt_rt.sig_positions(s):
                occupied[p] = occupied.get(p, 0) + 1
        nbits = 8 * int(fr.size)
        if kind == "signal-name":
            s = rng.choice(fr.signals)
            if cfg.fmt == "sym" and s.is_multiplexer:
                return None
            n = s.name + "_e%d" % rng.randrange(100)
            if n in snames:
                return None
            for o in fr.signals:
                if o.muxer_for_signal == s.name:
                    o.muxer_for_signal = n
            s.name = n
        elif kind == "signal-delete":
            cand = [s for s in fr.signals if not s.is_multiplexer and (s.mux_val is None or sum(1 for o in fr.signals if o.mux_val is not None) > 1)]
            if len(fr.signals) < 2 or not cand:
                return None
            fr.signals.remove(rng.choice(cand))
        elif kind == "signal-add":
            if muxed:
                return None
            free = [p for p in range(nbits) if p not in occupied]
            if not free:
                return None
            n = "SAdded%d" % rng.randrange(10000)
            if n in snames:
                return None
            s = C.Signal(n, start_bit=rng.choice(free), size=1, is_little_endian=True, is_signed=False)
            s.min, s.max = 0, 1
            fr.add_signal(s)
        else:   # signal-move: another placement and possibly byte order, on bits that are free or its own
            s = rng.choice(fr.signals)
            own = set(fmt_rt.sig_positions(s))
            keep_le = s.is_multiplexer and cfg.feats.get("mux_intel_unsigned", False)     # KCD: the multiplexer stays Intel
            for _ in range(60):
                le = bool(s.is_little_endian) if (keep_le or rng.random() < 0.5) else not s.is_little_endian
                st = rng.randrange(0, nbits - int(s.size) + 1)
                pos = fmt_rt.layouts.positions(le, st, int(s.size))
                if (le, st) != (bool(s.is_little_endian), int(s.start_bit)) and all(p in own or p not in occupied for p in pos):
                    s.is_little_endian = le
                    s.start_bit = st
                    break
            else:
                return None
    return kind


def history_stage(chk, viol, C, F, rng, tie_cases):
    per_cfg = 5 if chk.tier != "thorough" else 40
    for cfg in fmt_rt.CONFIGS:
        if "C06" not in cfg.props:
            continue
        for it in range(per_cfg):
            nb = rng.choice([1, 2]) if cfg.cluster else 1
            buses = fmt_rt.gen_case(rng, C, cfg, digits=4, nbuses=nb)
            trail = []

            def mk_info(fr=None, sig=None, cfg=cfg, it=it, trail=trail, buses=buses):
                d = {"format": cfg.key, "options": cfg.opts, "history": "export, then in-place edits each followed by an export of the SAME objects",
                     "edits": list(trail), "iteration": it,
                     "current_frames": {n: [[f.name, f.arbitration_id.id, bool(f.arbitration_id.extended)] for f in m.frames] for n, m in buses.items()}}
                if fr is not None:
                    d["frame"] = fmt_rt.frame_brief(fr)
                if sig is not None:
                    d["signal"] = sig
                return d
            if round_trip(F, cfg, buses, viol, mk_info) is None:     # first export: warms whatever the writer may remember
                continue
            for step in range(3):
                what = edit_in_place(rng, C, cfg, buses)
                if what is None:
                    chk.count("history-edit-not-applicable")
                    continue
                trail.append(what)
                chk.count("history-edit:" + what)
                fresh = copy.deepcopy(buses)            # same definition, new objects
                state = copy.deepcopy(buses)            # the state the export has to describe (writers may touch their argument)
                r_fresh = round_trip(F, cfg, fresh, viol, mk_info)
                r_used = round_trip(F, cfg, buses, viol, mk_info)
                if r_fresh is None or r_used is None or r_fresh[1] is None or r_used[1] is None:
                    break
                chk.count("history-exports:" + cfg.fmt)
                a, b = layout_nf(cfg, r_used[1]), layout_nf(cfg, r_fresh[1])
                if a != b:
                    diff = matgen.diff(b, a)[:6]
                    viol(cfg.kbase + "-reused-object-differs-from-fresh", "after an in-place edit (%s) the export of the same objects reads back "
                         "differently from the export of a fresh copy of the same matrix" % what, mk_info(),
                         [list(map(str, x)) for x in diff], "paths: fresh value vs re-used value")
                # and against the edited state itself, under keys of this stage
                compare_layout(chk, lambda key, *rest: viol("after-edit:" + key, *rest), cfg, rng, state, r_used[1], mk_info)
                chk.case((cfg.key, "history", it, step, what), True)


def frame_kind(fo, oframes):
    """rarely used frame kinds get failure keys of their own: a J1939-flagged frame; a frame whose identifier number also
    exists in the other frame format"""
    k = fmt_rt.fkey(fo)
    if (k[0], not k[1]) in oframes:
        return "id-twin"
    if fo.is_j1939:
        return "j1939"
    return ""


def compare_layout(chk, viol, cfg, rng, orig, back, mk_info):
    """orig/back: dict bus -> CanMatrix.  Returns number of frames compared."""
    nfr = 0
    want_buses = {fmt_rt.bus_key_after(cfg, n): m for n, m in orig.items()}
    if cfg.cluster and set(back.keys()) != set(want_buses.keys()):
        viol(cfg.kbase + "-bus-set", "set of buses changed", mk_info(None), sorted(want_buses), sorted(back.keys()))
    for bname, odb in want_buses.items():
        bdb = back.get(bname) if cfg.cluster else list(back.values())[0]
        if bdb is None:
            continue
        oframes = {fmt_rt.fkey(f): f for f in odb.frames if fmt_rt.frame_written(cfg, f)}
        bkeys = [fmt_rt.fkey(f) for f in bdb.frames]
        bframes = {}
        for f in bdb.frames:
            bframes.setdefault(fmt_rt.fkey(f), f)
        if len(bkeys) != len(set(bkeys)):
            viol(cfg.kbase + "-frame-duplicated", "a frame identity occurs twice after the round trip", mk_info(None), sorted(oframes), sorted(bkeys))
        for k in sorted(oframes):
            if k not in bframes:
                sub = "-bus-partition" if any(k in [fmt_rt.fkey(f) for f in m.frames] for n2, m in back.items() if n2 != bname) else ""
                viol(cfg.kbase + "-frame-lost" + sub + ("@" + frame_kind(oframes[k], oframes) if frame_kind(oframes[k], oframes) else ""), "frame (id, extended) not found after the round trip" + (" on its own bus" if sub else ""),
                     mk_info(oframes[k]), list(k), sorted(bframes))
        for k in sorted(bframes):
            if k not in oframes:
                viol(cfg.kbase + "-frame-extra", "frame (id, extended) appears that was not written to this bus", mk_info(None), sorted(oframes), list(k))
        for k in sorted(oframes):
            if k not in bframes:
                continue
            fo, fb = oframes[k], bframes[k]
            kind = frame_kind(fo, oframes)
            fv = viol if not kind else (lambda key, *rest, kind=kind: viol(key + "@" + kind, *rest))
            nfr += 1
            info = lambda s=None: mk_info(fo, s)
            exp = {fmt_rt.expected_signal_name(cfg, fo, s): s for s in fo.signals}
            got_names = [s.name for s in fb.signals]
            got = {}
            for s in fb.signals:
                got.setdefault(s.name, []).append(s)
            for n in exp:
                if n not in got:
                    fv(cfg.kbase + "-signal-lost", "signal not found by name after the round trip", info(n), n, got_names)
            for n in got:
                if n not in exp:
                    fv(cfg.kbase + "-signal-extra", "signal appears that was not written", info(n), sorted(exp), n)
                elif len(got[n]) > 1:
                    same = all(fmt_rt.sig_positions(x) == fmt_rt.sig_positions(got[n][0]) for x in got[n])
                    fv(cfg.kbase + "-signal-duplicated" + ("" if same else "-different-bits"),
                         "signal occurs %d times in the re-read frame" % len(got[n]), info(n), 1, len(got[n]))
            nontriv = k[1] or fo.size > 8
            for n, so in exp.items():
                if n not in got:
                    continue
                sb = got[n][0]
                po, pb = fmt_rt.sig_positions(so), fmt_rt.sig_positions(sb)
                chk.count("%s:%s" % (cfg.fmt, "intel" if so.is_little_endian else "motorola"))
                if not so.is_little_endian and fmt_rt.crosses_byte(so):
                    nontriv = True
                    chk.count(cfg.fmt + ":motorola-crossing-bytes")
                if int(so.size) != int(sb.size):
                    fv(cfg.kbase + "-width", "signal width changed", info(n), int(so.size), int(sb.size))
                elif bool(so.is_little_endian) != bool(sb.is_little_endian):
                    fv(cfg.key + "-byteorder" + ("-mux" if so.is_multiplexer else ""), "byte order changed", info(n),
                         "intel" if so.is_little_endian else "motorola", "intel" if sb.is_little_endian else "motorola")
                elif po != pb:
                    fv(cfg.key + "-bits" + ("-mux" if so.is_multiplexer else ""), "signal occupies other payload bits", info(n), po, pb)
            # raw fields of payloads
            fdec = fb
            if int(fb.size) != int(fo.size):
                # the frame length is a C07 feature (plain JSON and XLS do not carry it): decode with the original length
                chk.count(cfg.key + ":length-not-carried")
                fdec = copy.copy(fb)
                fdec.size = int(fo.size)
            for data in fmt_rt.payloads(rng, fo, 8):
                do, dbk = fmt_rt.decode(fo, data), fmt_rt.decode(fdec, data)
                if isinstance(do, Exception):
                    chk.count("decode-original-raises")
                    continue
                if isinstance(dbk, Exception):
                    fv(cfg.kbase + "-decode-raises", "Frame.decode of the re-read frame raises", info(None) | {"payload": data.hex()}, "decoded", repr(dbk))
                    break
                bad = False
                for so_name, ds in do.items():
                    n = fmt_rt.expected_signal_name(cfg, fo, ds.signal)
                    if n not in dbk:
                        if n in got:   # present but not decoded: the re-read frame selects other signals
                            fv(cfg.kbase + "-decode-selection", "signal decoded from the original frame is not decoded from the re-read frame",
                                 info(n) | {"payload": data.hex()}, sorted(do), sorted(dbk))
                            bad = True
                        continue
                    a, b = fmt_rt.raw_bits(ds), fmt_rt.raw_bits(dbk[n])
                    if a is None or b is None:
                        chk.count("nan-skipped")
                        continue
                    if int(ds.signal.size) == int(dbk[n].signal.size) and a != b:
                        fv(cfg.key + "-raw-field", "payload yields another raw bit field", info(n) | {"payload": data.hex()}, a, b)
                        bad = True
                if bad:
                    break
            canon = json.dumps(fmt_rt.frame_brief(fo), sort_keys=True, default=str)
            chk.case((cfg.key, canon), nontriv)
            chk.count("len:%s" % ("1-8" if fo.size <= 8 else "9-64"))
            if fo.is_j1939:
                chk.count("frame-kind:j1939")
            if (k[0], not k[1]) in oframes:
                chk.count("frame-kind:id-twin (same number, other format)")
            chk.count("id:%s" % ("ext>7FF" if k[1] and k[0] > 0x7FF else ("ext" if k[1] else "std")))
    return nfr


def run(chk):
    chk.rule = ("per format configuration (dbc, dbf, sym, kcd, json, json-all, xls x {msbreverse, msb, lsb}, arxml 3.2.3 / 4.1.0) seeded matrices "
                "inside the format's envelope: 1..5 frames (clusters: 1..3 buses), lengths 1..8 and CAN-FD lengths up to 64, standard and extended ids "
                "(half of the extended ones above 0x7FF), Intel/Motorola signals of widths 1..64 at random non-overlapping placements, simple (all) and "
                "extended (dbc, json) multiplexing; 8 payloads per frame; conversion chains A->B over all ordered format pairs; histories: the same matrix objects "
                "exported again after in-place edits (id object/attribute/format, frame name/length, signal move/rename/delete/add), compared with a fresh deep copy's export and with the edited state. one evaluation = one frame compared after the round trip; non-trivial = extended id, "
                "length > 8 or a Motorola signal crossing a byte boundary; distinct by (configuration, frame normal form)")
    chk.notes.append("envelope decisions (DESIGN.md Appendix A): SYM has no place for a non-multiplexed signal in a multiplexed frame (the writer repeats it "
                     "in every Mux= block, the reader returns one copy per block with that block's selector) - generated SYM multiplexed frames hold the "
                     "multiplexer and group signals only; KCD multiplexers are Intel, unsigned, unscaled; extended multiplexing only for DBC and JSON; "
                     "cluster files are generated with file-wide unique frame names (and signal names for ARXML); frames flagged for extended multiplexing "
                     "without any multiplexed signal are treated as plain frames")
    ok = chk.build_and_audit()
    cm = core.import_impl()
    C = cm.canmatrix
    import canmatrix.formats as F
    rng = chk.rng
    viol = Fwd(chk)
    factor = THOROUGH_FACTOR if chk.tier == "thorough" else 1
    tie_cases = []      # (cfg, orig buses, data, back)
    for cfg in fmt_rt.CONFIGS:
        if "C06" not in cfg.props:
            continue
        for it in range(QUICK[cfg.key] * factor):
            nb = rng.choice([1, 1, 2, 3]) if cfg.cluster else 1
            buses = fmt_rt.gen_case(rng, C, cfg, digits=4, nbuses=nb, comments=(it % 3 == 2))
            orig = copy.deepcopy(buses)
            chk.count("matrices:" + cfg.key)
            if cfg.cluster:
                chk.count("buses:%d" % nb)

            def mk_info(fr=None, sig=None, cfg=cfg, orig=orig, it=it):
                d = {"format": cfg.key, "options": cfg.opts, "iteration": it}
                if fr is not None:
                    d["frame"] = fmt_rt.frame_brief(fr)
                else:
                    d["frames"] = {n: [[f.name, f.arbitration_id.id, bool(f.arbitration_id.extended)] for f in m.frames] for n, m in orig.items()}
                if sig is not None:
                    d["signal"] = sig
                return d
            r = round_trip(F, cfg, buses, viol, mk_info)
            if r is None or r[1] is None:
                chk.case((cfg.key, "raise", it), True)
                if r is not None and len(tie_cases) < 4000:
                    tie_cases.append((cfg, orig, r[0], None))
                continue
            data, back = r
            check_types(chk, viol, cfg, back, "layout", mk_info)
            compare_layout(chk, viol, cfg, rng, orig, back, mk_info)
            tie_cases.append((cfg, orig, data, back))
    # ---- directed matrices (one per hazard) ----
    for label, fmts, db in fmt_rt.directed(C):
        for cfg in fmt_rt.CONFIGS:
            if "C06" not in cfg.props or (fmts is not None and cfg.fmt not in fmts):
                continue
            buses = {"Directed": copy.deepcopy(db)} if cfg.cluster else {"": copy.deepcopy(db)}
            orig = copy.deepcopy(buses)
            chk.count("directed:" + label)

            def mk_info(fr=None, sig=None, cfg=cfg, label=label):
                d = {"format": cfg.key, "options": cfg.opts, "directed": label}
                if fr is not None:
                    d["frame"] = fmt_rt.frame_brief(fr)
                if sig is not None:
                    d["signal"] = sig
                return d
            r = round_trip(F, cfg, buses, viol, mk_info)
            if r is None or r[1] is None:
                if r is not None:
                    tie_cases.append((cfg, orig, r[0], None))
                continue
            check_types(chk, viol, cfg, r[1], "layout", mk_info)
            compare_layout(chk, viol, cfg, rng, orig, r[1], mk_info)
            tie_cases.append((cfg, orig, r[0], r[1]))
    # ---- conversion chains ----
    chain_stage(chk, viol, C, F, rng, "C06", 4, compare_layout, "layout", tie_cases)
    # ---- histories: the same objects exported again after in-place edits ----
    history_stage(chk, viol, C, F, rng, tie_cases)
    # ---- placement sweep: one signal per frame, every (byte order, start, width) of an 8 byte frame ----
    placements = [(le, st, w) for le in (True, False) for w in range(1, 65) for st in range(0, 65 - w)]
    if chk.tier != "thorough":
        placements = [p for p in placements if p[1] % 8 in (0, 7) or p[2] in (1, 8, 9, 12, 16, 17, 32, 33, 64) and rng.random() < 0.4 or rng.random() < 0.05]
    else:
        chk.notes.append("placement sweep: all %d (byte order, start, width) placements of an 8 byte frame per configuration" % len(placements))
    for cfg in fmt_rt.CONFIGS:
        if "C06" not in cfg.props:
            continue
        for base in range(0, len(placements), 48):
            chunk = placements[base:base + 48]
            db = C.CanMatrix()
            db.add_ecu(C.Ecu("ETx"))
            db.add_ecu(C.Ecu("ERx"))
            for j, (le, st, w) in enumerate(chunk):
                n = base + j
                ext = n % 3 == 0
                fid = (0x1000000 + 977 * n) if ext else (1 + n % 0x7FE)
                fr = C.Frame("P%d" % n, arbitration_id=C.ArbitrationId(fid, ext), size=8)
                fr.add_transmitter("ETx")
                s = C.Signal("Q%d" % n, start_bit=st, size=w, is_little_endian=le, is_signed=False)
                s.min, s.max = 0, (1 << w) - 1
                s.add_receiver("ERx")
                fr.add_signal(s)
                fr.update_receiver()
                db.add_frame(fr)
            buses = {"Sweep": db} if cfg.cluster else {"": db}
            orig = copy.deepcopy(buses)
            chk.count("sweep-matrices:" + cfg.key)

            def mk_info(fr=None, sig=None, cfg=cfg, base=base):
                d = {"format": cfg.key, "options": cfg.opts, "sweep-chunk": base}
                if fr is not None:
                    d["frame"] = fmt_rt.frame_brief(fr)
                if sig is not None:
                    d["signal"] = sig
                return d
            r = round_trip(F, cfg, buses, viol, mk_info)
            if r is None or r[1] is None:
                continue
            compare_layout(chk, viol, cfg, rng, orig, r[1], mk_info)
            if base % 480 == 0:
                tie_cases.append((cfg, orig, r[0], r[1]))
    chk.sample({"format": "dbf", "frame": "id 0x18FEF100 extended, 8 bytes", "signal": "Motorola 12 bits, internal start 13 -> LSB in byte 3 bit 7: byte column 4, bit column 7"})
    chk.sample({"format": "arxml4", "buses": 3, "each bus": "exactly its own frames by (id, extended)"})
    if tie_cases:
        cfg, orig, data, back = tie_cases[0]
        fr = list(orig.values())[0].frames[0]
        chk.sample({"format": cfg.key, "frame": fmt_rt.frame_brief(fr)})
    if not ok:
        chk.ties["correspondence"] = "not run (build failed)"
        return
    tie(chk, tie_cases)


# ----------------------------------------------------------------------------------------------------------------------
def _reread_frame(cfg, bdb, fo):
    for f in bdb.frames:
        if f.name in (fo.name, "FRAME_" + fo.name):
            return f
    return None


def tie(chk, tie_cases):
    """W: fields in the real output == model write;  R: real reader's result == model read of the fields in the file."""
    lines, expect, info = [], [], []

    def add(cmd, groups, exp, inf):
        lines.append(core.fmt_case(cmd, groups))
        expect.append(exp)
        info.append(inf)
    nread_raise = 0
    for cfg, orig, data, back in tie_cases:
        try:
            ex = fmt_rt.extract(cfg, data)
        except Exception as e:  # noqa
            chk.tie_break("extractor", {"format": cfg.key}, "extractor failed: %r" % e, None)
            continue
        code, nota = cfg.code, fmt_rt.NOTATION_CODE[cfg.notation]
        names = {n: i for i, n in enumerate([""] + sorted(x for x in orig if x) + ["CAN"])}
        for bname, odb in orig.items():
            xb = ex.get(fmt_rt.bus_key_after(cfg, bname) if cfg.cluster else "", {})
            bdb = None
            if back is not None:
                bdb = back.get(fmt_rt.bus_key_after(cfg, bname)) if cfg.cluster else list(back.values())[0]
            if cfg.cluster and back is not None:
                # bus partition: model = dict the reader builds from the buses in the file
                groups = [[names["CAN"] if cfg.fmt == "arxml" else 0, names[bname]]]
                for n2, m2 in orig.items():
                    g = [names[n2]]
                    for f in m2.frames:
                        if fmt_rt.frame_written(cfg, f):
                            g += [f.arbitration_id.id, int(bool(f.arbitration_id.extended))]
                    groups.append(g)
                got = [[1]] + sorted([f.arbitration_id.id, int(bool(f.arbitration_id.extended))] for f in bdb.frames) if bdb is not None else [[0]]
                add(606, groups, ("sorted", got), {"format": cfg.key, "bus": bname})
            for fo in odb.frames:
                if not fmt_rt.frame_written(cfg, fo):
                    continue
                xf = xb.get(fo.name)
                inf = {"format": cfg.key, "frame": fo.name, "id": [fo.arbitration_id.id, bool(fo.arbitration_id.extended)]}
                if xf is None:
                    chk.tie_break("extract-frame", inf, "frame not found in the file by the extractor", None)
                    continue
                add(603, [[code, fo.arbitration_id.id, int(bool(fo.arbitration_id.extended))]], [xf["id"]], dict(inf, what="id fields in file"))
                fb = _reread_frame(cfg, bdb, fo) if bdb is not None else None
                if back is None:
                    nread_raise += 1
                    add(604, [[code], xf["id"]], ("not-raise",), dict(inf, what="reader raised on this file; model must raise on some frame"))
                elif fb is not None:
                    add(604, [[code], xf["id"]], [[1, fb.arbitration_id.id, int(bool(fb.arbitration_id.extended))]], dict(inf, what="id read"))
                for so in fo.signals:
                    sinf = dict(inf, signal=so.name, pos=[bool(so.is_little_endian), int(so.size), int(so.start_bit)])
                    args = [int(bool(so.is_little_endian)), int(so.size), int(so.start_bit)]
                    xs_list = []
                    c = code
                    if cfg.fmt == "sym" and so.is_multiplexer:
                        xs_list = [m["pos"] for m in xf.get("muxlines", [])]
                    elif cfg.fmt == "kcd" and so.is_multiplexer:
                        c = 8
                        xs_list = [xf["signals"][so.name]["pos"]] if so.name in xf["signals"] else []
                    elif so.name in xf["signals"]:
                        xs_list = [xf["signals"][so.name]["pos"]]
                    if not xs_list:
                        chk.tie_break("extract-signal", sinf, "signal not found in the file by the extractor", None)
                        continue
                    for xs in xs_list:
                        # KCD: an absent length attribute and length="1" are the same file content to every reader (schema default,
                        # theorem C06_kcd_length_default_equivalent); which of the two a writer picks is not the property's business
                        add(601, [[c, nota] + args], ("kcd-length-canonical", [xs]) if c == 4 else [xs], dict(sinf, what="position fields in file"))
                    if fb is not None:
                        sb = next((s for s in fb.signals if s.name == fmt_rt.expected_signal_name(cfg, fo, so)), None)
                        if sb is not None:
                            add(602, [[c, nota], xs_list[0]], [[1, int(bool(sb.is_little_endian)), int(sb.size), int(sb.start_bit)]],
                                dict(sinf, what="position read"))
    out = core.run_model(lines)
    bad = 0
    raise_ok = False
    for inf, exp, o in zip(info, expect, out):
        got = core.parse_out(o)
        if isinstance(exp, tuple) and exp[0] == "sorted":
            got = [got[0]] + sorted(got[1:])
            exp = exp[1]
        if isinstance(exp, tuple) and exp[0] == "not-raise":
            continue
        if isinstance(exp, tuple) and exp[0] == "kcd-length-canonical":
            canon = lambda gs: [[g[0], 1 if g[1] == -1 else g[1]] + list(g[2:]) if len(g) >= 3 else g for g in gs]
            got, exp = canon(got), canon(exp[1])
        if got != exp:
            bad += 1
            chk.tie_break("fmtpos", inf, got, exp)
    # files on which the real reader raised: the model must raise on at least one of their frames
    if nread_raise:
        by_file = {}
        for inf, exp, o in zip(info, expect, out):
            if isinstance(exp, tuple) and exp[0] == "not-raise":
                by_file.setdefault(inf["format"], []).append(core.parse_out(o) == [[0]])
        for k, v in by_file.items():
            if not any(v):
                bad += 1
                chk.tie_break("fmtpos-reader-raise", {"format": k}, "model reads every identity", "implementation's reader raised")
    chk.ties["correspondence"] = {"suite": "fmtpos W+R (cmd 601-604, 606)", "cases": len(lines), "disagreements": bad,
                                  "files": len(tie_cases)}
    idx = chk.rng.sample(range(len(lines)), min(300, len(lines)))
    shard = []
    for i in idx:
        if isinstance(expect[i], tuple):
            continue
        c, groups = lines[i].split(" ", 1)
        shard.append((int(c, 16), core.parse_out(groups), expect[i]))
    mm, log = core.coq_shard(shard, "c06")
    chk.ties["vm_compute_shard"] = {"cases": len(shard), "mismatches": mm}
    if mm is None:
        chk.obligation_failures.append("in-Coq shard failed to evaluate")
        chk.build_log = log[-3000:]
    else:
        for i in mm:
            chk.tie_break("fmtpos-shard", shard[i][1], "vm_compute differs", shard[i][2])
