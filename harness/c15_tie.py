"""C15 tie: the implementation's decode layer vs model/Readers.v (commands 1501-1507 of model/Run_C15.v).
  numbers   decimal.Decimal(text) and utils.decode_number(text, Decimal) on generated number texts (all rendering styles, blanks around,
            hex/binary literals, infinities, malformed texts)                                   cmd 1501, 1502
  rend      the model's abstract renderings: what the model prints is fed to decimal.Decimal     cmd 1506
  compu     arxml.decode_compu_method on generated COMPU-METHOD elements (text tables, rational coefficients with denominators,
            zero denominators, missing parts)                                                    cmd 1503
  basetype  arxml.eval_type_of_signal                                                            cmd 1504
  kcd       kcd.parse_signal on generated <Signal> elements with optional attributes left out    cmd 1505
  stmts     dbc.load on CM_/BA_ statements of one section in shuffled order vs the statement fold cmd 1507
"""
import decimal
import io
from fractions import Fraction

import core
import netdesc

D = decimal.Decimal


def chars(s):
    return [ord(c) for c in s]


def dec_tuple(d):
    t = d.as_tuple()
    m = int("".join(map(str, t.digits))) if t.digits else 0
    return [int(t.sign), m, t.exponent]


def rand_dec(rng):
    return netdesc.rand_decimal(rng, rng.choice([1, 2, 4, 9, 19]), neg=True)


def number_texts(rng, n):
    out = []
    bad = ["", ".", "+", "-", "e5", "1e", "1e+", "--1", "+-1", "1.2.3", "1 2", "1,5", "0x", "0b", "0b102", "0xG1", "1e1.5", "1E--3", "abc", "1f",
           "0XFF", "0B11", "i", "in", "infinity2", "1e5e", "..5", "5..", "+.e1", "0x1.8", "-", "1e 5"]
    for _ in range(n):
        k = rng.random()
        if k < 0.55:
            x = rand_dec(rng)
            t = netdesc.render_number(x, rng.choice(netdesc.NUM_STYLES))
            if rng.random() < 0.15:
                t = t.replace("E", "e") if rng.random() < 0.5 else t.replace("e", "E")
            if rng.random() < 0.1:
                t = "0" * rng.randrange(1, 3) + t if t[0].isdigit() else t[0] + "0" * rng.randrange(1, 3) + t[1:]
            if rng.random() < 0.1 and "e" not in t.lower():
                t += rng.choice(["E0", "e+00", "E-0", "e0"])
            if rng.random() < 0.05:
                t = t.replace("0.", ".", 1) if t.startswith("0.") else t
        elif k < 0.7:
            v = rng.randrange(0, 1 << rng.choice([4, 8, 16, 33]))
            t = rng.choice(["0x%x", "0x%X", "0b{0:b}", "%d", "-%d", "+%d", "0x%x"]).replace("{0:b}", "{0:b}")
            t = t.format(v) if "{" in t else t % v
        elif k < 0.78:
            t = rng.choice(["inf", "+inf", "-inf", "INF", "-Inf", "+INF", "Inf"])
        elif k < 0.9:
            t = rng.choice(bad)
        else:
            x = rand_dec(rng)
            t = netdesc.render_number(x, rng.choice(netdesc.NUM_STYLES))
            i = rng.randrange(len(t) + 1)
            t = t[:i] + rng.choice(["e", "E", ".", "+", "-", "x", "b", " ", "7", "0"]) + t[i:]
        if rng.random() < 0.15:
            t = rng.choice([" ", "\t", "  ", "\n"]) + t + rng.choice(["", " ", "\r\n"])
        out.append(t)
    return out


def impl_decimal(t):
    try:
        d = D(t)
    except decimal.InvalidOperation:
        return [[0]]
    if not d.is_finite():
        return None
    return [[1] + dec_tuple(d)]


def impl_decode_number(cm, t):
    try:
        v = cm.utils.decode_number(t, D)
    except (ValueError, decimal.InvalidOperation):
        return [[0]]
    except Exception as e:
        return [[0, 0, type(e).__name__]]
    if isinstance(v, D):
        if v.is_infinite():
            return [[3, int(v < 0)]]
        if not v.is_finite():
            return None
        return [[2] + dec_tuple(v)]
    return [[1, int(v)]]


# ------------------------------------------------------------------------------------------------
AR_HEAD = ('<?xml version="1.0" encoding="UTF-8"?><AUTOSAR xmlns="http://autosar.org/schema/r4.0"><AR-PACKAGES><AR-PACKAGE>'
           '<SHORT-NAME>P</SHORT-NAME><ELEMENTS>')
AR_TAIL = '</ELEMENTS></AR-PACKAGE></AR-PACKAGES></AUTOSAR>'


def gen_compu(rng):
    """returns (xml text of the COMPU-METHOD, groups for cmd 1503, label table, inside)
    inside = the element is a COMPU-METHOD "according to the format's own rules" (the property's quantifier): every linear scale has
    two numerator values and one NON-ZERO denominator value, all of them numbers, and a scale with LOWER-LIMIT has its UPPER-LIMIT.
    What a reader does with anything else (zero denominator, missing coefficients, text instead of numbers) is outside the property:
    such elements are still generated and run (the machinery must survive them) but neither judged nor tied."""
    labels = {"": 0}
    inside = True

    def lab_id(s):
        if s is None:
            return -1
        if s not in labels:
            labels[s] = len(labels)
        return labels[s]
    parts = ["<COMPU-METHOD><SHORT-NAME>cm</SHORT-NAME><CATEGORY>SCALE_LINEAR_AND_TEXTTABLE</CATEGORY><COMPU-INTERNAL-TO-PHYS><COMPU-SCALES>"]
    groups = []
    kinds = []
    for _ in range(rng.randrange(0, 5)):
        kind = rng.choice(["text", "text", "text", "lin", "lin", "const", "empty"])
        kinds.append(kind)
        sc = ["<COMPU-SCALE>"]
        ll = ul = None
        label = ""
        nums, dens = [], []
        has_rat = False
        has_const = False
        if kind in ("text", "const") or rng.random() < 0.3:
            k = rng.randrange(0, 12)
            ll = rng.choice(["%d", "%d.0", "+%d", "0x%x", "%d", "%dE0", " %d "]) % k
            same = rng.random() < 0.8
            ul = (rng.choice(["%d", "%d.0", "%d", "0x%x"]) % (k if same else k + 1)) if rng.random() < 0.93 else None
            if rng.random() < 0.05:
                ll = None
            if ll is not None and ul is None:
                inside = False
        if kind == "text":
            how = rng.choice(["vt", "vt", "vt", "sl", "desc", "sl+vt", "none", "emptyvt"])
            txt = rng.choice(["Off", "On", "Not available", "Error", "x y", "Störung"])
            if how in ("sl", "sl+vt"):
                sc.append("<SHORT-LABEL>%s</SHORT-LABEL>" % txt.replace(" ", "_"))
                label = txt.replace(" ", "_")
            if ll is not None:
                sc.append("<LOWER-LIMIT>%s</LOWER-LIMIT>" % ll)
            if ul is not None:
                sc.append("<UPPER-LIMIT>%s</UPPER-LIMIT>" % ul)
            if how == "desc":
                sc.insert(1, '<DESC><L-2 L="EN">%s</L-2></DESC>' % txt)
                label = txt
            if how in ("vt", "sl+vt"):
                sc.append("<COMPU-CONST><VT>%s</VT></COMPU-CONST>" % (txt + ("_vt" if how == "sl+vt" else "")))
                has_const = True
                if how == "vt":
                    label = txt
            if how == "emptyvt":
                sc.append("<COMPU-CONST><VT></VT></COMPU-CONST>")
                has_const = True
                label = None
        else:
            if ll is not None:
                sc.append("<LOWER-LIMIT>%s</LOWER-LIMIT>" % ll)
            if ul is not None:
                sc.append("<UPPER-LIMIT>%s</UPPER-LIMIT>" % ul)
            if kind == "lin":
                has_rat = True
                d = rng.choice([1, 1, 2, 4, 5, 8, 10, 16, 25, 100, 1000, 0, 3, 7])
                f, o = netdesc.rand_decimal(rng, 4, neg=True), netdesc.rand_decimal(rng, 4, neg=True)
                st = rng.choice(netdesc.NUM_STYLES)
                nn = rng.choice([2] * 10 + [1, 3, 0])
                vals = [o * d if d else o, f * d if d else f, D(0)][:nn]
                nums = [netdesc.render_number(v, st) for v in vals]
                if rng.random() < 0.02 and nums:
                    nums[-1] = "x1"
                    inside = False
                nd = rng.choice([1] * 10 + [2, 0])
                if nn != 2 or nd != 1 or d == 0:
                    inside = False
                dens = [netdesc.render_number(D(d), rng.choice(["plain", "plain", "tz", "expE"]))] + ["1"] * (nd - 1) if nd else []
                sc.append("<COMPU-RATIONAL-COEFFS><COMPU-NUMERATOR>%s</COMPU-NUMERATOR><COMPU-DENOMINATOR>%s</COMPU-DENOMINATOR></COMPU-RATIONAL-COEFFS>"
                          % ("".join("<V>%s</V>" % v for v in nums), "".join("<V>%s</V>" % v for v in dens)))
            elif kind == "const":
                sc.append("<COMPU-CONST><V>5</V></COMPU-CONST>")
                has_const = True
        sc.append("</COMPU-SCALE>")
        parts += sc
        groups.append([int(ll is not None), int(ul is not None), lab_id(label), int(has_rat), len(nums), len(dens), int(has_const)])
        if ll is not None:
            groups.append(chars(ll))
        if ul is not None:
            groups.append(chars(ul))
        groups += [chars(v) for v in nums] + [chars(v) for v in dens]
    parts.append("</COMPU-SCALES></COMPU-INTERNAL-TO-PHYS></COMPU-METHOD>")
    return "".join(parts), groups, labels, inside


def impl_compu(cm, xml, labels):
    ar = cm.formats.arxml
    ea = ar.Earxml()
    ea.open(io.BytesIO((AR_HEAD + xml + AR_TAIL).encode("utf-8")))
    compu = ea.find("COMPU-METHOD")
    try:
        values, factor, offset, unit, const = ar.decode_compu_method(compu, ea, D)
    except Exception as e:
        return ("err", type(e).__name__)
    vals = []
    for k, v in values.items():
        vals.append([labels.get(v, -5) if v is not None else -1] + chars(k))
    return ("ok", int(const is not None), factor, offset, vals)


def frac_of(g):
    """[neg; m; e; neg; m; e] -> Fraction"""
    def one(n, m, e):
        v = Fraction(m) * (Fraction(10) ** e)
        return -v if n else v
    den = one(*g[3:6])
    return None if den == 0 else one(*g[0:3]) / den


# ------------------------------------------------------------------------------------------------
KCD_NS = "http://kayak.2codeornot2code.org/1.0"


def gen_kcd_signal(rng):
    units = {"": 0}
    sa = [("offset", rng.randrange(0, 64))]
    if rng.random() < 0.6:
        sa.append(("length", rng.randrange(1, 33)))
    if rng.random() < 0.5:
        sa.append(("endianess", rng.choice(["little", "big", "big", "middle"])))
    rng.shuffle(sa)
    has_value = rng.random() < 0.75
    vi, vn = [], []
    if has_value:
        if rng.random() < 0.6:
            vi.append(("type", rng.choice(["unsigned", "signed", "single", "double", "float"])))
        if rng.random() < 0.5:
            u = rng.choice(["V", "rpm", "°C", "km/h"])
            units.setdefault(u, len(units))
            vi.append(("unit", u))
        for k in ("slope", "intercept", "min", "max"):
            if rng.random() < 0.5:
                vn.append((k, netdesc.rand_decimal(rng, 4, neg=(k != "slope"), nonzero=(k == "slope"))))
    attrs = "".join(' %s="%s"' % (k, v) for k, v in sa)
    allv = vi + [(k, netdesc.render_number(v, rng.choice(netdesc.NUM_STYLES))) for k, v in vn]
    rng.shuffle(allv)
    vxml = "<Value%s/>" % "".join(' %s="%s"' % (k, v) for k, v in allv) if has_value else ""
    xml = '<Signal xmlns="%s" name="S"%s>%s</Signal>' % (KCD_NS, attrs, vxml)
    A = {"offset": 1, "length": 2, "endianess": 3, "type": 11, "slope": 12, "intercept": 13, "unit": 14, "min": 15, "max": 16}
    END = {"little": 0, "big": 1, "middle": 2}
    TY = {"unsigned": 0, "signed": 1, "single": 2, "double": 3, "float": 4}
    g_sa = []
    for k, v in sa:
        g_sa += [A[k], END[v] if k == "endianess" else v]
    g_vi = []
    for k, v in vi:
        g_vi += [A[k], TY[v] if k == "type" else units[v]]
    g_vn = []
    for k, v in vn:
        g_vn += [A[k]] + dec_tuple(v)
    return xml, [g_sa, [int(has_value)], g_vi, g_vn], units, dict(vn)


def impl_kcd(cm, xml, units):
    import lxml.etree
    el = lxml.etree.fromstring(xml.encode("utf-8"))
    s = cm.formats.kcd.parse_signal(el, None, "{" + KCD_NS + "}", {}, D)
    return s, [int(s.start_bit), int(s.size), int(bool(s.is_little_endian)), int(bool(s.is_signed)), int(bool(s.is_float)), units.get(s.unit, -7)]


# ------------------------------------------------------------------------------------------------
def run(chk, ok, cm):
    rng = chk.rng
    thorough = chk.tier == "thorough"
    lines, expect, info = [], [], []

    def add(cmd, groups, exp, inf):
        lines.append(core.fmt_case(cmd, groups))
        expect.append(exp)
        info.append(inf)
    # ---- numbers ----
    n_num = 12000 if thorough else 2500
    skipped = 0
    for t in number_texts(rng, n_num):
        e1 = impl_decimal(t)
        if e1 is not None:
            add(1501, [chars(t)], e1, dict(decimal=t))
            chk.count("tie:decimal-" + ("ok" if e1 != [[0]] else "rejected"))
        e2 = impl_decode_number(cm, t)
        if e2 is None:
            skipped += 1
            continue
        add(1502, [chars(t)], e2, dict(decode_number=t))
        chk.count("tie:decode_number-" + {0: "error", 1: "int", 2: "decimal", 3: "inf"}[e2[0][0]])
    # ---- abstract renderings ----
    for _ in range(4000 if thorough else 800):
        sign = rng.choice([0, 0, 1, 2])
        ip = [rng.randrange(10) for _ in range(rng.randrange(0, 6))]
        dot = rng.random() < 0.6
        fp = [rng.randrange(10) for _ in range(rng.randrange(0, 6))] if dot else []
        if not ip and not fp:
            ip = [rng.randrange(10)]
        hase = rng.random() < 0.5
        ed = [rng.randrange(10) for _ in range(rng.randrange(1, 4))] if hase else []
        h = [sign, int(dot), int(hase), rng.randrange(2), rng.choice([0, 1, 2])]
        text = {0: "", 1: "+", 2: "-"}[sign] + "".join(map(str, ip)) + ("." if dot else "") + "".join(map(str, fp))
        if hase:
            text += ("E" if h[3] else "e") + {0: "", 1: "+", 2: "-"}[h[4]] + "".join(map(str, ed))
        d = D(text)
        add(1506, [h, ip, fp, ed], [chars(text), dec_tuple(d)], dict(rendering=text))
        chk.count("tie:rendering")
    # ---- COMPU-METHOD ----
    n_cm = 6000 if thorough else 1200
    cm_cases = []
    for _ in range(n_cm):
        xml, groups, labels, inside = gen_compu(rng)
        cm_cases.append((len(lines), xml, impl_compu(cm, xml, labels), inside))
        add(1503, [[sum(1 for g in [0] for _ in range(xml.count("<COMPU-SCALE>")))]] + groups, None, dict(compu=xml))
    # ---- base types ----
    encs = ["NONE", "2C", "IEEE754", "SINGLE", "DOUBLE", "BOOLEAN", "1C", "UTF-8", "None", "none", "SM"]

    class EA(object):
        def __init__(self, name):
            self.name = name

        def get_element_name(self, bt):
            return self.name
    for enc in encs:
        for bt in (None, "uint8", "sint8", "UInt8", "u", "float32", "A_UINT8"):
            r = cm.formats.arxml.eval_type_of_signal(enc, None if bt is None else object(), EA(bt))
            code = encs.index(enc) if encs.index(enc) < 6 else 6
            add(1504, [[code, -1 if bt is None else int(bt[0] == "u")]], [[int(r[0]), int(r[1])]], dict(encoding=enc, base_type=bt))
            chk.count("tie:basetype")
    # ---- KCD signals ----
    kcd_cases = []
    for _ in range(5000 if thorough else 1000):
        xml, groups, units, vn = gen_kcd_signal(rng)
        s, head = impl_kcd(cm, xml, units)
        kcd_cases.append((len(lines), xml, s, head, vn))
        add(1505, groups, None, dict(kcd=xml))
        chk.count("tie:kcd-signal")
    # ---- statements of one DBC section ----
    stmt_cases = []
    for _ in range(600 if thorough else 150):
        nfr = rng.randrange(1, 4)
        stmts = [(rng.randrange(nfr), rng.randrange(3), rng.randrange(1, 50)) for _ in range(rng.randrange(0, 8))]
        rng.shuffle(stmts)
        ls = ['VERSION ""', "NS_ :", "BS_:", "BU_: E1"] + ["BO_ %d F%d: 8 E1" % (100 + i, i) for i in range(nfr)]
        ls += ['BA_DEF_ BO_ "AttrA" INT 0 100;', 'BA_DEF_ BO_ "AttrB" INT 0 100;']
        # comments precede attribute values in a DBC file; within each kind the order is the generated one
        for o, sl, v in [x for x in stmts if x[1] == 0]:
            ls.append('CM_ BO_ %d "c%d";' % (100 + o, v))
        for o, sl, v in [x for x in stmts if x[1] != 0]:
            ls.append('BA_ "%s" BO_ %d %d;' % ("AttrA" if sl == 1 else "AttrB", 100 + o, v))
        db = cm.formats.loads("\n".join(ls) + "\n", "dbc")[""]
        probes, exp = [], []
        for i in range(nfr):
            fr = db.frame_by_name("F%d" % i)
            for sl in range(3):
                probes += [i, sl]
                if sl == 0:
                    exp.append(int(fr.comment[1:]) if fr.comment else -1)
                else:
                    a = fr.attributes.get("AttrA" if sl == 1 else "AttrB")
                    exp.append(int(a) if a is not None else -1)
        ordered = [x for x in stmts if x[1] == 0] + [x for x in stmts if x[1] != 0]
        add(1507, [list(x) for x in ordered] + [probes], [exp], dict(statements=ordered))
        chk.count("tie:dbc-statements")

    if not ok:
        chk.ties["correspondence"] = "not run (build failed)"
        return
    out = [core.parse_out(o) for o in core.run_model(lines)]
    bad = 0
    expo_defect = 0
    defect_idx = set()
    for i, (inf, exp, o) in enumerate(zip(info, expect, out)):
        if exp is None:
            continue
        if o != exp:
            t = inf.get("decode_number")
            if t is not None and exp == [[0]] and o and o[0][0] == 2 and "." not in t and "e" in t.lower():
                # the implementation refuses exponent notation without a dot: that is the property failing, not the tie
                expo_defect += 1
                defect_idx.add(i)
                if expo_defect <= 2:
                    chk.violation("decode-number-exponent-without-dot", "utils.decode_number raises on a number text in exponent notation without '.'",
                                  dict(text=t), "value %s" % o, "ValueError")
                continue
            bad += 1
            chk.tie_break("readers-decode", inf, o, exp)
    # COMPU-METHOD: compare by value (exact rationals)
    for idx, xml, imp, inside in cm_cases:
        o = out[idx]
        if not inside:
            # outside the quantifier (see gen_compu): run on both sides, not compared
            chk.count("tie:compu-outside-quantifier-not-compared")
            continue
        chk.count("tie:compu-" + ("error" if imp[0] == "err" else "ok"))
        if imp[0] == "err":
            if o != [[0]]:
                if imp[1] == "ValueError" and ("E0</LOWER-LIMIT>" in xml or "E0</UPPER-LIMIT>" in xml):
                    expo_defect += 1      # same root cause as above: decode_number on 3E0
                    continue
                bad += 1
                chk.tie_break("compu-method", dict(xml=xml), o, imp)
            continue
        agree = (o and o[0] and o[0][0] == 1 and o[0][1] == imp[1])
        if agree:
            for g, val in ((o[1], imp[2]), (o[2], imp[3])):
                fr = frac_of(g)
                iv = Fraction(val)
                if fr is None or not (fr == iv or (fr != 0 and abs(fr - iv) <= abs(fr) * Fraction(1, 10 ** 26))):
                    agree = False
            if o[3:] != imp[4]:
                agree = False
        if not agree:
            bad += 1
            chk.tie_break("compu-method", dict(xml=xml), o, [str(x) for x in imp])
    for idx, xml, s, head, vn in kcd_cases:
        o = out[idx]
        good = o[0] == head
        if good:
            for g, val in ((o[1], s.factor), (o[2], s.offset)):
                n, m, e = g
                if Fraction(val) != (-1 if n else 1) * Fraction(m) * Fraction(10) ** e:
                    good = False
            for g, key, val in ((o[3], "min", s.min), (o[4], "max", s.max)):
                if (g[0] == 1) != (key in vn):
                    good = False
                elif g[0] == 1 and Fraction(val) != (-1 if g[1] else 1) * Fraction(g[2]) * Fraction(10) ** g[3]:
                    good = False
        if not good:
            bad += 1
            chk.tie_break("kcd-signal", dict(xml=xml), o, head + [str(s.factor), str(s.offset), str(s.min), str(s.max)])
    chk.ties["correspondence"] = {"suite": "readers decode layer (cmd 1501-1507)", "cases": len(lines), "disagreements": bad,
                                  "non_finite_skipped": skipped, "exponent_defect_cases": expo_defect}
    cand = [i for i, e in enumerate(expect) if e is not None and i not in defect_idx]
    idxs = rng.sample(cand, min(300, len(cand)))
    shard = []
    for i in idxs:
        c, groups = lines[i].split(" ", 1) if " " in lines[i] else (lines[i], "")
        shard.append((int(c, 16), core.parse_out(groups), expect[i]))
    mm, log = core.coq_shard(shard, "c15")
    chk.ties["vm_compute_shard"] = {"cases": len(shard), "mismatches": mm}
    if mm is None:
        chk.obligation_failures.append("in-Coq shard failed to evaluate")
        chk.build_log = log[-3000:]
    else:
        for i in mm:
            chk.tie_break("readers-decode-shard", shard[i][1], "vm_compute differs", shard[i][2])
