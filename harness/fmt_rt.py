"""Round-trip machinery shared by C06 (identity + bit layout) and C07 (value interpretation):
format configurations with their envelopes (DESIGN.md Appendix A), dump/load through canmatrix.formats,
bus clusters, frame/signal matching, payload generation, and per-format extractors that pull the position
and identity fields out of the REAL output (used for the tie with coq/model/FmtPos.v / FmtNum.v).

Nothing here looks at the code under test except through canmatrix.formats.dump / loads."""
import copy
import decimal
import io
import json
import re
import struct

import layouts
import matgen

D = decimal.Decimal

ALL = frozenset(["length", "type", "scaling", "values", "unit", "mux", "xmux", "senders", "receivers"])

# model codes (coq/model/FmtPos.v)
FMT_CODE = {"dbc": 1, "dbf": 2, "sym": 3, "kcd": 4, "json": 5, "xls": 6, "arxml": 7}
NOTATION_CODE = {"lsb": 0, "msb": 1, "msbreverse": 2}


class Cfg(object):
    def __init__(self, key, fmt, opts=None, cluster=False, carries=ALL, feats=None, notation="lsb", props=("C06", "C07")):
        self.key, self.fmt, self.opts, self.cluster = key, fmt, dict(opts or {}), cluster
        self.carries, self.feats, self.notation, self.props = frozenset(carries), dict(feats or {}), notation, props
        # key prefix for failure classes that do not depend on the start-bit notation option
        self.kbase = "xls" if fmt == "xls" else key

    @property
    def code(self):
        return FMT_CODE[self.fmt]


SIMPLE_MIX = ["none", "none", "simple", "simple"]
COMMON = dict(ext_ids=True, floats=True, value_tables=True, units=True, receivers=True, explicit_limits=True,
              fd=True, max_len=64, multi_senders=True, global_value_tables=True, tables_named_like_signals=0.12,
              j1939=True, fd_j1939_exclusive=True, id_twins=0.25,
              mux_value_tables=0.5, mux_declared_01=0.35, bare_signals=0.15)

CONFIGS = [
    Cfg("dbc", "dbc", feats=dict(mux="mixed")),
    Cfg("dbf", "dbf", carries=["length", "type", "scaling", "values", "unit", "mux", "first_sender", "receivers"],
        feats=dict(mux="mixed", mux_choices=SIMPLE_MIX)),
    Cfg("sym", "sym", carries=["length", "type", "scaling", "values", "unit", "mux"],
        feats=dict(mux="mixed", mux_choices=SIMPLE_MIX, unit_max=16, float_signed_default=0.5, static_in_mux=False)),
    Cfg("kcd", "kcd", cluster=True, carries=["length", "type", "scaling", "values", "unit", "mux", "senders", "receivers"],
        feats=dict(mux="mixed", mux_choices=SIMPLE_MIX, mux_intel_unsigned=True)),
    Cfg("json", "json", carries=[], feats=dict(mux="mixed"), props=("C06",)),
    Cfg("json-all", "json", opts=dict(jsonExportAll=True), feats=dict(mux="mixed")),
    Cfg("xls-msbreverse", "xls", opts=dict(xlsMotorolaBitFormat="msbreverse"), notation="msbreverse",
        carries=["mux", "senders", "receivers", "values"], feats=dict(mux="mixed", mux_choices=SIMPLE_MIX, unique_id_numbers=True)),
    Cfg("xls-msb", "xls", opts=dict(xlsMotorolaBitFormat="msb"), notation="msb",
        carries=["mux", "senders", "receivers", "values"], feats=dict(mux="mixed", mux_choices=SIMPLE_MIX, unique_id_numbers=True)),
    Cfg("xls-lsb", "xls", opts=dict(xlsMotorolaBitFormat="lsb"), notation="lsb",
        carries=["mux", "senders", "receivers", "values"], feats=dict(mux="mixed", mux_choices=SIMPLE_MIX, unique_id_numbers=True)),
    Cfg("arxml3", "arxml", opts=dict(arVersion="3.2.3"), cluster=True,
        carries=["length", "type", "scaling", "values", "unit", "senders", "receivers"],
        feats=dict(mux="mixed", mux_choices=SIMPLE_MIX, unique_signal_names=True)),
    Cfg("arxml4", "arxml", opts=dict(arVersion="4.1.0"), cluster=True,
        carries=["length", "type", "scaling", "values", "unit", "senders", "receivers"],
        feats=dict(mux="mixed", mux_choices=SIMPLE_MIX, unique_signal_names=True)),
]

BUS_NAMES = ["Powertrain", "Body", "Chassis"]


def gen_case(rng, C, cfg, digits, nbuses=1, n_frames=None, comments=None):
    """One matrix inside cfg's envelope, as a dict bus name -> CanMatrix (non-cluster formats: the single key '')."""
    ft = dict(COMMON)
    ft.update(cfg.feats)
    ft["digits"] = digits
    if comments is not None:
        ft["comments"] = comments
    if cfg.cluster:
        # a cluster is generated as one matrix (cluster-wide unique frame ids and names, and signal names where the
        # format needs them) whose frames are dealt out to the buses
        ft["n_frames"] = n_frames or (nbuses, nbuses + 3)
    elif n_frames:
        ft["n_frames"] = n_frames
    db = matgen.gen_matrix(rng, C, **ft)
    normalise(db, ft)
    if not cfg.cluster:
        return {"": db}
    names = BUS_NAMES[:nbuses]
    if nbuses == 1 and cfg.fmt == "arxml" and rng.random() < 0.3:
        names = [""]        # the key canconvert uses for a single matrix; ARXML names that bus "CAN"
    buses = {}
    for n in names:
        b = C.CanMatrix()
        for e in db.ecus:
            b.add_ecu(C.Ecu(e.name))
        buses[n] = b
    frames = list(db.frames)
    rng.shuffle(frames)
    for i, fr in enumerate(frames):
        buses[names[i % len(names)] if i < len(names) else rng.choice(names)].add_frame(fr)
    return buses


# ------------------------------------------------------------------------------------------------------------------
# conversion chains: a matrix produced by the READER of format A is a matrix too; it is handed to format B's writer
CHAIN_SOURCES = ["dbc", "dbf", "sym", "kcd", "json-all", "xls-msbreverse", "arxml4", "arxml3"]


def cfg_by_key(key):
    return next(c for c in CONFIGS if c.key == key)


def merged_feats(a, b):
    """generator features inside the envelopes of both configurations"""
    ft = dict(COMMON)
    for c in (a, b):
        for k, v in c.feats.items():
            if k == "mux_choices":
                ft[k] = v                                  # the only restriction in use: no extended multiplexing
            elif k == "unit_max":
                ft[k] = min(v, ft.get(k, v))
            elif k == "static_in_mux":
                ft[k] = ft.get(k, True) and v
            elif isinstance(v, bool):
                ft[k] = ft.get(k, False) or v
            else:
                ft.setdefault(k, v)
    ft["mux"] = "mixed"
    return ft


def normalise(db, ft):
    """degenerate shapes the generator can produce when a frame has no room left"""
    for fr in db.frames:
        lone = not any(s.mux_val is not None for s in fr.signals)
        # flagged as extended multiplexing but no multiplexed signal
        if fr.is_complex_multiplexed and lone:
            fr.is_complex_multiplexed = False
        # SYM describes a multiplexer only through its Mux= groups: a multiplexer without any group is a plain signal there
        if ft.get("static_in_mux") is False and lone:
            for s in fr.signals:
                if s.is_multiplexer:
                    s.multiplex = s.multiplex_setter(None)


def gen_chain_source(rng, C, F, a, b, digits):
    """generate inside both envelopes, take it through A (dump + loads); returns (matrix read by A, A's file) or (None, why)"""
    ft = merged_feats(a, b)
    ft["digits"] = digits
    ft["n_frames"] = (1, 3)
    db = matgen.gen_matrix(rng, C, **ft)
    normalise(db, ft)
    buf = io.BytesIO()
    try:
        if a.cluster:
            F.dump({"Chain": db}, buf, a.fmt, **a.opts)
        else:
            F.dump(db, buf, a.fmt, **a.opts)
        back = F.loads(buf.getvalue(), a.fmt, **a.opts)
    except Exception as e:  # noqa  (A's own round trip is the subject of the ordinary stage)
        return None, "source format raises %r" % e
    m = back.get("Chain") if a.cluster else list(back.values())[0]
    if m is None or not m.frames:
        return None, "source format returned no frames"
    return m, buf.getvalue()


def inside_envelope(b, m):
    """is the matrix the reader of A produced still inside B's envelope?  returns None or the reason it is not"""
    ecus = {e.name for e in m.ecus}
    names = set()
    for fr in m.frames:
        if fr.is_complex_multiplexed and b.feats.get("mux_choices") == SIMPLE_MIX:
            return "extended multiplexing"
        if not (1 <= int(fr.size) <= 8 or int(fr.size) in (12, 16, 20, 24, 32, 48, 64)):
            return "frame length not a CAN / CAN FD length"      # the XLS reader recomputes lengths such as 42
        nm = [s.name for s in fr.signals]
        if len(nm) != len(set(nm)):
            return "duplicate signal names in a frame"
        for s in fr.signals:
            if any(p >= 8 * int(fr.size) for p in sig_positions(s)):
                return "signal outside its frame"
            if b.feats.get("unique_signal_names"):
                if s.name in names:
                    return "signal names not unique"
                names.add(s.name)
            if b.feats.get("mux_intel_unsigned") and s.is_multiplexer and (not s.is_little_endian or s.is_signed or D(s.factor) != 1 or D(s.offset) != 0
                                                                             or s.unit or s.receivers):
                return "multiplexer not a plain Intel unsigned signal"
            if b.feats.get("static_in_mux") is False and s.mux_val is None and not s.is_multiplexer and any(x.is_multiplexer for x in fr.signals):
                return "static signal in a multiplexed frame"
            if b.feats.get("static_in_mux") is False and s.is_multiplexer and not any(x.mux_val is not None for x in fr.signals):
                return "multiplexer without multiplexed signal"
            if "unit_max" in b.feats and s.unit is not None and len(s.unit) > b.feats["unit_max"]:
                return "unit too long"
            if any(r not in ecus for r in s.receivers):
                return "receiver not a listed ecu"
        if any(t not in ecus for t in fr.transmitters):
            return "sender not a listed ecu"
    if b.feats.get("unique_id_numbers"):
        ids = [int(f.arbitration_id.id) for f in m.frames]
        if len(ids) != len(set(ids)):
            return "id numbers not unique"
    return None


def field_type_problems(m, which):
    """fields whose documented type the matrix does not have.  which: 'layout' (C06) or 'value' (C07).
    Returns list of (frame name, signal name or None, field, repr of the value)"""
    out = []

    def chk(ok, fr, sg, field, v):
        if not ok:
            out.append((fr.name, sg.name if sg is not None else None, field, "%r (%s)" % (v, type(v).__name__)))
    for fr in m.frames:
        if which == "layout":
            chk(type(fr.arbitration_id.id) is int, fr, None, "arbitration_id.id", fr.arbitration_id.id)
            chk(type(fr.arbitration_id.extended) is bool, fr, None, "arbitration_id.extended", fr.arbitration_id.extended)
            chk(type(fr.size) is int, fr, None, "size", fr.size)
        else:
            chk(isinstance(fr.transmitters, list) and all(isinstance(t, str) for t in fr.transmitters), fr, None, "transmitters", fr.transmitters)
        for s in fr.signals:
            if which == "layout":
                chk(type(s.is_little_endian) is bool, fr, s, "is_little_endian", s.is_little_endian)
                chk(type(s.start_bit) is int, fr, s, "start_bit", s.start_bit)
                chk(type(s.size) is int, fr, s, "size", s.size)
            else:
                chk(type(s.is_signed) is bool, fr, s, "is_signed", s.is_signed)
                chk(type(s.is_float) is bool, fr, s, "is_float", s.is_float)
                chk(isinstance(s.receivers, list) and all(isinstance(r, str) for r in s.receivers), fr, s, "receivers", s.receivers)
                chk(s.mux_val is None or type(s.mux_val) is int, fr, s, "mux_val", s.mux_val)
                chk(type(s.is_multiplexer) is bool, fr, s, "is_multiplexer", s.is_multiplexer)
                chk(all(type(k) is int and isinstance(v, str) for k, v in s.values.items()), fr, s, "values", dict(s.values))
                chk(isinstance(s.unit, str), fr, s, "unit", s.unit)
    return out


def write_read(F, cfg, buses):
    """dump -> bytes -> loads.  Returns (data, dict bus->CanMatrix).  Exceptions propagate to the caller."""
    buf = io.BytesIO()
    if cfg.cluster:
        F.dump(buses, buf, cfg.fmt, **cfg.opts)
    else:
        F.dump(buses[""], buf, cfg.fmt, **cfg.opts)
    data = buf.getvalue()
    back = F.loads(data, cfg.fmt, **cfg.opts)
    return data, back


def bus_key_after(cfg, name):
    if cfg.fmt == "arxml" and name == "":
        return "CAN"
    return name


def fkey(fr):
    return (int(fr.arbitration_id.id), bool(fr.arbitration_id.extended))


def expected_signal_name(cfg, frame, sig):
    if cfg.fmt == "sym" and sig.is_multiplexer:
        return frame.name + "_MUX"
    return sig.name


def frame_written(cfg, fr):
    """exporters that document skipping extended-multiplexed frames are never given one (envelope); kept as a guard"""
    return not (fr.is_complex_multiplexed and cfg.fmt in ("dbf", "xls", "arxml"))


def sig_positions(s):
    return layouts.positions(bool(s.is_little_endian), int(s.start_bit), int(s.size))


def crosses_byte(s):
    p = sig_positions(s)
    return len({x // 8 for x in p}) > 1


def raw_bits(ds):
    """raw value of a DecodedSignal as the unsigned bit pattern of its field (None: NaN, pattern not recoverable)"""
    s = ds.signal
    v = ds.raw_value
    if s.is_float:
        v = float(v)
        if v != v:
            return None
        return struct.unpack(">I" if s.size == 32 else ">Q", struct.pack(">f" if s.size == 32 else ">d", v))[0]
    return int(v) % (1 << int(s.size))


def payloads(rng, fr, n=8):
    """n payloads for the frame: zeros, ones, random; for multiplexed frames most payloads carry a selector value of one
    of the frame's groups (so that every group, including group 0, is decoded)"""
    L = int(fr.size)
    out = [bytes(L), bytes([255] * L)]
    mux = [s for s in fr.signals if s.is_multiplexer]
    vals = sorted({s.mux_val for s in fr.signals if s.mux_val is not None})
    while len(out) < n:
        b = bytearray(rng.getrandbits(8) for _ in range(L))
        if mux and vals and rng.random() < 0.8:
            m = mux[0]
            v = rng.choice(vals)
            pos = sig_positions(m)           # Intel: LSB first; Motorola: MSB first
            order = pos if m.is_little_endian else list(reversed(pos))
            for k, p in enumerate(order):
                bit = (v >> k) & 1
                b[p // 8] = (b[p // 8] & ~(1 << (p % 8))) | (bit << (p % 8))
        out.append(bytes(b))
    return out


def fit_payload(data, size):
    return data[:size].ljust(size, b"\0")


def decode(fr, data):
    """Frame.decode; returns dict name -> DecodedSignal or the exception"""
    try:
        return fr.decode(fit_payload(data, int(fr.size)))
    except Exception as e:   # noqa
        return e


def frame_brief(fr):
    d = matgen.frame_nf(fr, with_attrs=False)
    for s in d["signals"].values():
        for k in ("comment", "initial_value", "cycle_time", "min", "max"):
            s.pop(k, None)
    for k in ("comment", "cycle_time", "attributes", "signal_groups", "is_j1939"):
        d.pop(k, None)
    return d


def dec_digits(x):
    """number of significant digits of a Decimal's value"""
    x = D(x)
    if x == 0:
        return 1
    return len(x.normalize().as_tuple().digits)


# ------------------------------------------------------------------------------------------------------------------
# extractors: position / identity / type / multiplex fields as they stand in the real output.
# Result: {bus: {frame name: dict(id=[..model id fields..], size=int, signals={name: dict(pos=[...], type=..., mux=...)})}}
# The field lists are exactly the integer groups coq/model/FmtPos.v talks about.

def _i(b):
    return 1 if b else 0


def extract(cfg, data):
    return globals()["_extract_" + cfg.fmt](cfg, data)


def _extract_dbc(cfg, data):
    frames = {}
    cur = None
    for line in data.decode("iso-8859-1").split("\n"):
        m = re.match(r"^BO_ (\d+) (\S+?) ?: (\d+) (\S+)", line)
        if m:
            cur = dict(id=[int(m.group(1))], size=int(m.group(3)), signals={})
            frames[m.group(2)] = cur
            continue
        m = re.match(r"^ SG_ (\S+) (?:(m\d+M|m\d+|M) )?: (\d+)\|(\d+)@([01])([+-]) \(([^,]+),([^)]+)\)", line)
        if m and cur is not None:
            tok = m.group(2)
            mux = [0, 0]
            if tok == "M":
                mux = [1, 0]
            elif tok and tok.endswith("M"):
                mux = [3, int(tok[1:-1])]
            elif tok:
                mux = [2, int(tok[1:])]
            cur["signals"][m.group(1)] = dict(pos=[int(m.group(3)), int(m.group(4)), int(m.group(5))],
                                              type=[_i(m.group(6) == "-")], mux=mux, factor=m.group(7), offset=m.group(8))
    # float flags live in SIG_VALTYPE_ lines
    byid = {f["id"][0]: f for f in frames.values()}
    for m in re.finditer(r"(?m)^SIG_VALTYPE_ (\d+) (\S+) ?: ?(\d);", data.decode("iso-8859-1")):
        fr = byid.get(int(m.group(1)))
        if fr and m.group(2) in fr["signals"]:
            fr["signals"][m.group(2)]["type"].append(int(m.group(3)))
    for f in frames.values():
        for s in f["signals"].values():
            if len(s["type"]) == 1:
                s["type"].append(0)
    return {"": frames}


def _extract_dbf(cfg, data):
    frames = {}
    cur = None
    for line in data.decode("iso-8859-1").split("\n"):
        if line.startswith("[START_MSG]"):
            a = line[11:].strip().split(",")
            cur = dict(id=[int(a[1]), _i(a[5] == "X")], size=int(a[2]), signals={})
            frames[a[0]] = cur
        elif line.startswith("[START_SIGNALS]") and cur is not None:
            a = line[15:].strip().split(",")
            tok = a[11]
            mux = [0, 0] if tok == "" else ([1, 0] if tok == "M" else [2, int(tok[1:])])
            cur["signals"][a[0]] = dict(pos=[int(a[2]), int(a[3]), int(a[1]), int(a[7])],
                                        type=[{"U": 0, "I": 1, "F": 2, "D": 3}.get(a[4], 9)], mux=mux, offset=a[8], factor=a[9])
    return {"": frames}


def _extract_sym(cfg, data):
    frames = {}
    cur = None
    curname = None
    for line in data.decode("iso-8859-1").split("\n"):
        line = line.strip()
        m = re.match(r"^\[(.+)\]$", line)
        if m:
            curname = m.group(1)
            cur = frames.setdefault(curname, dict(id=[None, 0], size=None, signals={}, muxvals=[]))
            continue
        if cur is None:
            continue
        m = re.match(r"^ID=([0-9A-Fa-f]+)h", line)
        if m:
            cur["id"][0] = int(m.group(1), 16)
            continue
        if line.startswith("Type="):
            cur["id"][1] = _i(line[5:13] == "Extended")
            continue
        if line.startswith("DLC="):
            cur["size"] = int(line[4:])
            continue
        m = re.match(r"^Var=(\S+) (\S+) (\d+),(\d+)( -m)?", line)
        if m:
            typ = {"unsigned": 0, "signed": 1, "float": 2, "double": 3}.get(m.group(2), 9)
            f = re.search(r"/f:(\S+)", line)
            o = re.search(r"/o:(\S+)", line)
            cur["signals"].setdefault(m.group(1), dict(pos=[int(m.group(3)), int(m.group(4)), _i(m.group(5))], type=[typ],
                                                       factor=f.group(1) if f else None, offset=o.group(1) if o else None, mux=None))
            continue
        m = re.match(r"^Mux=(\S+) (\d+),(\d+) ([0-9A-Fa-f]+h|\d+)( -m)?", line)
        if m:
            tok = m.group(4)
            v = int(tok[:-1], 16) if tok.endswith("h") else int(tok)
            cur["muxvals"].append(v)
            cur.setdefault("muxlines", []).append(dict(pos=[int(m.group(2)), int(m.group(3)), _i(m.group(5))], value=v, name=m.group(1), token=tok))
    return {"": frames}


def _kcd_ns(root):
    return "{" + root.xpath("namespace-uri(.)") + "}"


def _extract_kcd(cfg, data):
    import lxml.etree
    root = lxml.etree.fromstring(data)
    ns = _kcd_ns(root)
    out = {}
    for bus in root.findall(ns + "Bus"):
        frames = {}
        for msg in bus.findall(ns + "Message"):
            f = dict(id=[int(msg.get("id"), 16), _i(msg.get("format") == "extended")], size=int(msg.get("length")), signals={})
            def sig(el, mux):
                v = el.find(ns + "Value")
                t = v.get("type") if v is not None else None
                f["signals"][el.get("name")] = dict(
                    pos=[int(el.get("offset")), int(el.get("length", "-1")), _i(el.get("endianess") == "big")],
                    type=[{None: 0, "unsigned": 4, "signed": 1, "single": 2, "double": 3}.get(t, 9)], mux=mux,
                    factor=v.get("slope") if v is not None else None, offset=v.get("intercept") if v is not None else None)
            mx = msg.find(ns + "Multiplex")
            if mx is not None:
                f["signals"][mx.get("name")] = dict(pos=[int(mx.get("offset")), int(mx.get("length", "1"))], type=None, mux=[1, 0], is_multiplex_element=True)
                for grp in mx.findall(ns + "MuxGroup"):
                    for el in grp.findall(ns + "Signal"):
                        sig(el, [2, int(grp.get("count"))])
            for el in msg.findall(ns + "Signal"):
                sig(el, [0, 0])
            frames[msg.get("name")] = f
        out[bus.get("name")] = frames
    return out


def _extract_json(cfg, data):
    j = json.loads(data.decode("utf-8"))
    frames = {}
    for m in j["messages"]:
        f = dict(id=[int(m["id"]), _i(m.get("is_extended_frame"))], size=m.get("length"), signals={})
        for s in m["signals"]:
            mux = None
            if "is_multiplexer" in s:
                mux = [1, 0] if s.get("multiplex") == "Multiplexor" else ([2, int(s["multiplex"])] if s.get("multiplex") is not None else [0, 0])
            f["signals"][s["name"]] = dict(pos=[int(s["start_bit"]), int(s["bit_length"]), _i(s["is_big_endian"])],
                                           type=[_i(s["is_signed"]), _i(s["is_float"])], mux=mux,
                                           factor=s["factor"], offset=s["offset"])
        frames[m["name"]] = f
    return {"": frames}


def _extract_xls(cfg, data):
    import xlrd
    wb = xlrd.open_workbook(file_contents=data)
    sh = wb.sheet_by_index(0)
    head = [sh.cell(0, c).value for c in range(sh.ncols)]
    col = {h.strip(): i for i, h in enumerate(head)}
    frames = {}
    for r in range(1, sh.nrows):
        idtxt = sh.cell(r, col["ID"]).value
        if not idtxt:
            break
        name = sh.cell(r, col["Frame Name"]).value
        t = idtxt.strip()
        fid = [int(t[:-2], 16), 1] if t.endswith("xh") else [int(t[:-1], 16), 0]
        f = frames.setdefault(name, dict(id=fid, size=None, signals={}))
        sname = sh.cell(r, col["Signal Name"]).value
        if sname and sname not in f["signals"]:
            cm = sh.cell(r, col["Signal Function"]).value
            mux = [0, 0]
            if cm.startswith("Mode Signal:"):
                mux = [1, 0]
            elif cm.startswith("Mode "):
                mux = [2, int(cm[4:].split(":", 1)[0])]
            f["signals"][sname] = dict(pos=[int(sh.cell(r, col["Signal Byte No."]).value), int(sh.cell(r, col["Signal Bit No."]).value),
                                            int(sh.cell(r, col["Signal Length [Bit]"]).value),
                                            _i(sh.cell(r, col["Byteorder"]).value == "i")], mux=mux, type=None)
    return {"": frames}


def _extract_arxml(cfg, data):
    import lxml.etree
    root = lxml.etree.fromstring(data)
    ns = {"a": root.nsmap[None]}
    def txt(el, path):
        r = el.xpath(path, namespaces=ns)
        return r[0].text if r else None
    # signal lengths / base types
    length, btype = {}, {}
    for e in root.xpath("//a:I-SIGNAL", namespaces=ns):
        n = txt(e, "a:SHORT-NAME")
        if txt(e, "a:LENGTH") is not None:
            length[n] = int(txt(e, "a:LENGTH"))
        b = txt(e, ".//a:BASE-TYPE-REF")
        if b:
            btype[n] = b.rsplit("/", 1)[1]
    for e in root.xpath("//a:SYSTEM-SIGNAL", namespaces=ns):
        n = txt(e, "a:SHORT-NAME")
        if txt(e, "a:LENGTH") is not None:
            length.setdefault(n, int(txt(e, "a:LENGTH")))
    ar3type = {}
    for e in root.xpath("//a:INTEGER-TYPE", namespaces=ns):
        ar3type[txt(e, "a:SHORT-NAME")] = [0]
    for e in root.xpath("//a:REAL-TYPE", namespaces=ns):
        ar3type[txt(e, "a:SHORT-NAME")] = [1, 64 if txt(e, "a:ENCODING") == "DOUBLE" else 32]

    def tfields(n):
        if n in btype:
            b = btype[n]
            if b in ("single", "double"):
                return [2, 32 if b == "single" else 64]
            return [0 if b[0] == "u" else 1, int(b[4:])]
        return ar3type.get(n)
    coeffs = {}
    for e in root.xpath("//a:COMPU-METHOD", namespaces=ns):
        v = e.xpath(".//a:COMPU-NUMERATOR/a:V", namespaces=ns)
        if len(v) == 2:
            coeffs[txt(e, "a:SHORT-NAME")] = (v[0].text, v[1].text)
    pdus = {}
    for e in root.xpath("//a:SIGNAL-I-PDU | //a:I-SIGNAL-I-PDU", namespaces=ns):
        sigs = {}
        for m in e.xpath(".//a:I-SIGNAL-TO-I-PDU-MAPPING", namespaces=ns):
            n = txt(m, "a:SHORT-NAME")
            if txt(m, "a:START-POSITION") is None:
                continue
            sigs[n] = dict(pos=[int(txt(m, "a:START-POSITION")), length.get(n), _i(txt(m, "a:PACKING-BYTE-ORDER") == "MOST-SIGNIFICANT-BYTE-LAST")],
                           type=tfields(n), mux=None,
                           offset=coeffs.get(n, (None, None))[0], factor=coeffs.get(n, (None, None))[1])
        pdus[txt(e, "a:SHORT-NAME")] = sigs
    flen = {}
    for e in root.xpath("//a:FRAME | //a:CAN-FRAME", namespaces=ns):
        flen[txt(e, "a:SHORT-NAME")] = int(txt(e, "a:FRAME-LENGTH"))
    out = {}
    for cl in root.xpath("//a:CAN-CLUSTER", namespaces=ns):
        frames = {}
        for t in cl.xpath(".//a:CAN-FRAME-TRIGGERING", namespaces=ns):
            n = txt(t, "a:SHORT-NAME")
            frames[n] = dict(id=[int(txt(t, "a:IDENTIFIER")), _i(txt(t, "a:CAN-ADDRESSING-MODE") == "EXTENDED")],
                             size=flen.get("FRAME_" + n), signals=pdus.get("PDU_" + n, {}))
        out[txt(cl, "a:SHORT-NAME")] = frames
    return out


# ------------------------------------------------------------------------------------------------------------------
# directed matrices: one per hazard seen while reading the writers/readers, so that every run meets them
def directed(C):
    """list of (label, formats or None (= all), CanMatrix).  All inside every listed format's envelope."""
    out = []

    def base(ecus=("EAlpha", "EBeta", "EGamma", "EDelta")):
        db = C.CanMatrix()
        for e in ecus:
            db.add_ecu(C.Ecu(e))
        return db

    def sig(name, start, size, le=True, signed=False, **kw):
        s = C.Signal(name, start_bit=start, size=size, is_little_endian=le, is_signed=signed, **kw)
        if not s.is_float:
            lo, hi = s.calculate_raw_range()
            a, b = s.offset + lo * s.factor, s.offset + hi * s.factor
            s.min, s.max = min(a, b), max(a, b)
        return s

    # 1. J1939-style extended id above 0x7FF, Motorola signal crossing bytes (F-C06)
    db = base()
    fr = C.Frame("EngineData", arbitration_id=C.ArbitrationId(0x18FEF100, True), size=8)
    fr.add_transmitter("EAlpha")
    s = sig("EngSpeed", 13, 12, le=False, factor="0.125", unit="rpm")
    s.add_receiver("EBeta")
    fr.add_signal(s)
    s = sig("EngTemp", 32, 8, signed=True, offset="-40", unit="degC")
    s.add_receiver("EBeta")
    s.add_receiver("EGamma")
    s.add_receiver("EDelta")          # three receivers (F-C07d)
    fr.add_signal(s)
    fr.add_signal(sig("NoReceiver", 48, 4))
    fr.update_receiver()
    db.add_frame(fr)
    out.append(("ext-id-motorola-3-receivers", None, db))

    # 2. many digits, exponent forms (F-C07a)
    db = base()
    fr = C.Frame("Scaling", arbitration_id=C.ArbitrationId(0x321, False), size=8)
    fr.add_transmitter("EAlpha")
    for i, (f, o) in enumerate([("0.123456789", "1.00000001"), ("1E+2", "-0.000001"), ("123456789012", "-987654.321098"),
                                ("1.0", "0"), ("2.50", "1E-7"), ("0.000244140625", "12E+3")]):
        s = sig("Sc%d" % i, 8 * i, 8, factor=f, offset=o, unit="V")
        s.add_receiver("EBeta")
        fr.add_signal(s)
    fr.update_receiver()
    db.add_frame(fr)
    out.append(("scaling-digits", None, db))

    # 3. multiplexer (Intel, unsigned) with groups 0 and 5, Motorola and Intel group signals (F-C07b; SYM -m of the group)
    for mle, lab in ((True, "mux-intel"), (False, "mux-motorola")):
        db = base()
        fr = C.Frame("MuxFrame", arbitration_id=C.ArbitrationId(0x1ABCDE, True), size=8)
        fr.add_transmitter("EAlpha")
        fr.add_signal(sig("Selector", 0 if mle else 5, 3, le=mle, multiplex="Multiplexor"))
        a = sig("GroupZero", 20, 8, le=False, multiplex=0, unit="A")
        a.add_receiver("EBeta")
        b = sig("GroupFive", 16, 8, le=True, multiplex=5, factor="0.5")
        b.add_receiver("EGamma")
        b.add_values(1, "On")
        b.add_values(0, "Off")
        fr.add_signal(a)
        fr.add_signal(b)
        fr.multiplex_signals()
        fr.update_receiver()
        db.add_frame(fr)
        out.append((lab, None if mle else ["dbc", "dbf", "sym", "json", "xls", "arxml"], db))

    # 4. float signals as Signal() creates them (is_signed left at its default True) (F-C07c), signed width classes
    db = base()
    fr = C.Frame("Types", arbitration_id=C.ArbitrationId(0x2A0, False), size=24, is_fd=True)
    fr.add_transmitter("EBeta")
    f32 = C.Signal("F32", start_bit=0, size=32, is_little_endian=True, is_float=True)
    f64 = C.Signal("F64", start_bit=32, size=64, is_little_endian=True, is_float=True)
    for s in (f32, f64):
        s.min, s.max = -1000, 1000
        fr.add_signal(s)
    for i, w in enumerate((8, 9, 16, 17)):
        s = sig("I%d" % w, 96 + 20 * i, w, signed=True)
        s.add_values(-1, "Error")
        s.add_receiver("EAlpha")
        fr.add_signal(s)
    fr.update_receiver()
    db.add_frame(fr)
    out.append(("types", None, db))

    # 5. equally named signals in consecutive frames (XLS first-signal loss; SYM enum names; KCD receiver merge)
    db = base()
    for k, (fid, recv, labels) in enumerate(((0x100, "EBeta", {0: "Off", 1: "On"}), (0x101, "EGamma", {0: "Idle", 1: "Active"}))):
        fr = C.Frame("Twin%d" % k, arbitration_id=C.ArbitrationId(fid, False), size=2)
        fr.add_transmitter("EAlpha")
        s = sig("Status", 0 if k else 3, 2)     # last row of the first frame, first row of the second (XLS sorts by start bit)
        s.add_receiver(recv)
        for a, b in labels.items():
            s.add_values(a, b)
        fr.add_signal(s)
        s2 = sig("Aux%d" % k, 8 if k else 0, 3)
        s2.add_receiver(recv)
        fr.add_signal(s2)
        fr.update_receiver()
        db.add_frame(fr)
    out.append(("same-signal-name-two-frames", ["dbc", "dbf", "sym", "kcd", "json", "xls"], db))

    # 7. value tables on multiplexers whose range is 0..1 (one bit; wider with declared limits) and a wider one with its
    #    natural range; a one-bit signal with nothing but a value table
    db = base()
    for k, (size, declared) in enumerate(((1, False), (4, True), (4, False))):
        fr = C.Frame("Paged%d" % k, arbitration_id=C.ArbitrationId(0x400 + k, False), size=4)
        fr.add_transmitter("EAlpha")
        m = C.Signal("Page%d" % k, start_bit=0, size=size, is_little_endian=True, is_signed=False, multiplex="Multiplexor")
        if declared:
            m.min, m.max = 0, 1
        m.add_values(0, "PageA")
        m.add_values(1, "PageB")
        fr.add_signal(m)
        for v in (0, 1):
            s = sig("P%d_Data%d" % (k, v), 8, 8, multiplex=v, unit="V")
            s.add_receiver("EBeta")
            s.add_values(3, "Three")
            fr.add_signal(s)
        flag = C.Signal("P%d_Flag" % k, start_bit=24, size=1, is_little_endian=True, is_signed=False)
        flag.add_values(0, "No")
        flag.add_values(1, "Yes")
        fr.add_signal(flag)
        fr.multiplex_signals()
        fr.update_receiver()
        db.add_frame(fr)
    out.append(("multiplexer-value-table-range-0-1", ["dbc", "dbf", "kcd", "json", "xls", "arxml"], db))

    # 6. a sender that also receives one of the frame's signals
    db = base()
    fr = C.Frame("Loopback", arbitration_id=C.ArbitrationId(0x77, False), size=1)
    fr.add_transmitter("EAlpha")
    s = sig("Echo", 0, 8)
    s.add_receiver("EAlpha")
    s.add_receiver("EBeta")
    fr.add_signal(s)
    fr.update_receiver()
    db.add_frame(fr)
    out.append(("sender-also-receiver", None, db))
    return out
