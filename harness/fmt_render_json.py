"""C15: independent writer of canmatrix's JSON format, following tests/files/json/test.json and the key set of the `jsonExportAll`
layout (messages[name,id,is_extended_frame,length,comment,attributes,transmitters,signals[...]], ecus{name: comment}, attributes,
*_defines[{name,define,default,type}]).  Uses only the json module of the standard library, never canmatrix.

Motorola signals: start_bit is the least significant bit in LSB0 numbering (the `lsb` notation, the only one the reader knows).
Lexical choices: indent (None|2|4), sort (keys sorted | insertion order shuffled), ascii (non-ASCII as \\uXXXX | raw UTF-8),
  num.kind 'string' ("0.1", what the writer emits by default) | 'native' (0.1, what test.json shows / jsonNativeTypes),
  num.scale, num.limit (rendering style; native numbers cannot carry a leading +), attr.kind 'string' | 'native' for numeric attribute
  values, defaults 'explicit' | 'omit' (keys whose value is what the reader assumes when the key is absent - as test.json omits `length`
  of 8-byte frames, limits, receivers, values), omit_full (limits omitted when they span the raw range), eol
"""
import json
import random

from netdesc import render_number, motorola_lsb, plain, D

CANON = {"indent": 4, "sort": True, "ascii": True, "num.kind": "string", "num.scale": "plain", "num.limit": "plain", "attr.kind": "string",
         "defaults": "explicit", "omit_full": False, "eol": "\n"}
ENCODINGS = ["utf-8"]


def random_lex(rng):
    lex = {}
    def maybe(k, choices, p=0.35):
        if rng.random() < p:
            lex[k] = rng.choice(choices)
    maybe("indent", [None, 2])
    maybe("sort", [False])
    maybe("ascii", [False])
    maybe("num.kind", ["native"], 0.4)
    maybe("num.scale", ["expE", "expe", "plus", "tz", "nz"], 0.5)
    maybe("num.limit", ["expE", "expe", "plus", "tz", "nz"], 0.5)
    maybe("attr.kind", ["native"])
    maybe("defaults", ["omit"], 0.4)
    maybe("omit_full", [True])
    maybe("eol", ["\r\n"], 0.2)
    lex["order_seed"] = rng.randrange(1 << 30)
    return lex


def render(desc, lex=None, encoding="utf-8"):
    lx = dict(CANON)
    lx.update(lex or {})
    orng = random.Random(lx.get("order_seed", 0))
    omit = lx["defaults"] == "omit"
    subst = {}

    def num(x, style):
        if lx["num.kind"] == "string":
            return render_number(x, style)
        tok = "@@NUM%d@@" % len(subst)
        subst['"%s"' % tok] = render_number(x, style, allow_plus=False)
        return tok
    defs = {d["name"]: d for d in desc["attr_defs"]}

    def aval(name, v):
        d = defs[name]
        if d["type"] in ("INT", "HEX", "FLOAT"):
            if lx["attr.kind"] == "native":
                tok = "@@NUM%d@@" % len(subst)
                subst['"%s"' % tok] = plain(v)
                return tok
            return plain(v)
        return v

    def shuffled(dct):
        if lx["sort"]:
            return dct
        items = list(dct.items())
        orng.shuffle(items)
        return dict(items)
    top = {}
    top["ecus"] = {e["name"]: e.get("comment") for e in desc["ecus"]}
    for obj, key in (("net", "global_defines"), ("ecu", "ecu_defines"), ("frame", "frame_defines"), ("signal", "signal_defines")):
        lst = []
        for d in desc["attr_defs"]:
            if d["object"] != obj:
                continue
            if d["type"] in ("INT", "HEX"):
                define = "%s %d %d" % (d["type"], d["min"], d["max"])
            elif d["type"] == "FLOAT":
                define = "FLOAT %s %s" % (plain(d["min"]), plain(d["max"]))
            elif d["type"] == "STRING":
                define = "STRING"
            else:
                define = "ENUM " + ",".join('"%s"' % v for v in d["values"])
            dv = d.get("default")
            lst.append(shuffled({"name": d["name"], "define": define, "type": d["type"],
                                 "default": None if dv is None else (plain(dv) if d["type"] in ("INT", "HEX", "FLOAT") else dv)}))
        if lst or not omit:
            top[key] = lst
    if desc["net_attributes"] or not omit:
        top["attributes"] = {k: aval(k, v) for k, v in desc["net_attributes"].items()}
    msgs = []
    for fr in desc["frames"]:
        m = {"name": fr["name"], "id": fr["id"]}
        if fr["extended"] or not omit:
            m["is_extended_frame"] = bool(fr["extended"])
        if fr["length"] != 8 or not omit:
            m["length"] = fr["length"]
        if fr.get("comment") or not omit:
            m["comment"] = fr.get("comment")
        if fr["attributes"] or not omit:
            m["attributes"] = {k: aval(k, v) for k, v in fr["attributes"].items()}
        if fr["senders"] or not omit:
            m["transmitters"] = list(fr["senders"])
        sigs = []
        for sg in fr["signals"]:
            s = {"name": sg["name"], "start_bit": sg["start"] if sg["byte_order"] == "intel" else motorola_lsb(sg), "bit_length": sg["width"]}
            if sg["factor"] != 1 or not omit:
                s["factor"] = num(sg["factor"], lx["num.scale"])
            if sg["offset"] != 0 or not omit:
                s["offset"] = num(sg["offset"], lx["num.scale"])
            full = False
            if sg["type"] != "float":
                w = sg["width"]
                lo, hi = (-(1 << (w - 1)), (1 << (w - 1)) - 1) if sg["type"] == "signed" else (0, (1 << w) - 1)
                full = sg["min"] == sg["offset"] + lo * sg["factor"] and sg["max"] == sg["offset"] + hi * sg["factor"]
            if not (full and lx["omit_full"]):
                s["min"] = num(sg["min"], lx["num.limit"])
                s["max"] = num(sg["max"], lx["num.limit"])
            if sg["byte_order"] == "motorola" or not omit:
                s["is_big_endian"] = sg["byte_order"] == "motorola"
            if sg["type"] == "signed" or not omit:
                s["is_signed"] = sg["type"] == "signed"
            if sg["type"] == "float" or not omit:
                s["is_float"] = sg["type"] == "float"
            if sg["unit"] or not omit:
                s["unit"] = sg["unit"]
            if sg.get("comment") or not omit:
                s["comment"] = sg.get("comment")
            if sg["attributes"] or not omit:
                s["attributes"] = {k: aval(k, v) for k, v in sg["attributes"].items()}
            if sg["values"] or not omit:
                s["values"] = {str(k): v for k, v in sg["values"].items()}
            if sg["receivers"] or not omit:
                s["receivers"] = list(sg["receivers"])
            if "start_value" in sg:
                s["initial_value"] = num(sg["start_value"], lx["num.limit"])
            if sg["mux"]:
                if sg["mux"]["role"] == "multiplexer":
                    s["multiplex"] = "Multiplexor"
                    if not omit:
                        s["is_multiplexer"] = True
                else:
                    s["multiplex"] = sg["mux"]["selector"]
                    if not omit:
                        s["mux_value"] = sg["mux"]["selector"]
            sigs.append(shuffled(s))
        m["signals"] = sigs
        msgs.append(shuffled(m))
    top["messages"] = msgs
    top = shuffled(top)
    txt = json.dumps(top, indent=lx["indent"], sort_keys=lx["sort"], ensure_ascii=lx["ascii"],
                     separators=(",", ": ") if lx["indent"] else (", ", ": "))
    for k, v in subst.items():
        txt = txt.replace(k, v)
    if lx["eol"] != "\n":
        txt = txt.replace("\n", lx["eol"])
    return (txt + lx["eol"]).encode("utf-8")


def render_with_opts(desc, lex, encoding):
    return render(desc, lex, encoding), {}
