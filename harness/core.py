"""Shared machinery of the checks: build + proof-obligation audit, model execution (extracted OCaml
driver and in-Coq vm_compute shard), verdict, evidence, known findings.  See DESIGN.md section 2."""
import fcntl
import hashlib
import json
import os, shutil
import random
import re
import subprocess
import sys
import time

VERIF = os.path.dirname(os.path.dirname(os.path.abspath(__file__)))
COQ = os.path.join(VERIF, "coq")
BUILD = os.path.join(VERIF, "build")
REPO = os.environ.get("VERIF_REPO", "/repo")
SRC = os.path.join(REPO, "src")
SEED = int(os.environ.get("VERIF_SEED", "20261001"))
NPROC = os.cpu_count() or 4

ALLOWED_AXIOMS = {
    # stdlib axioms that may appear (named in DESIGN.md section 3); the development aims at none
    "FunctionalExtensionality.functional_extensionality_dep",
    "functional_extensionality_dep",
    "Classical_Prop.classic",
    "ClassicalDedekindReals.sig_forall_dec",
    "ClassicalDedekindReals.sig_not_dec",
    "Eqdep.Eq_rect_eq.eq_rect_eq",
    "ProofIrrelevance.proof_irrelevance",
    "JMeq.JMeq_eq",
}

FORBIDDEN = re.compile(
    r"\b(Admitted|admit|Axiom|Axioms|Parameter|Parameters|Conjecture|Hypothesis|Variable|Variables|"
    r"Hypotheses|Abort All|Unset Guard Checking|Unset Positivity Checking|Unset Universe Checking|"
    r"bypass_check|Admit Obligations|type-in-type|impredicative-set|native_compute)\b")


def sh(cmd, timeout=1200, cwd=None, env=None, input=None):
    p = subprocess.run(cmd, shell=isinstance(cmd, str), cwd=cwd, env=env, input=input,
                       stdout=subprocess.PIPE, stderr=subprocess.STDOUT, timeout=timeout, text=True)
    return p.returncode, p.stdout


def import_impl():
    """Import canmatrix from the working tree under test (never the installed copy)."""
    if SRC not in sys.path:
        sys.path.insert(0, SRC)
    import logging
    logging.disable(logging.CRITICAL)
    import warnings
    warnings.simplefilter("ignore")
    import canmatrix
    assert os.path.realpath(canmatrix.__file__).startswith(os.path.realpath(SRC)), canmatrix.__file__
    import decimal
    ctx = decimal.getcontext()
    assert ctx.prec == 28 and ctx.rounding == decimal.ROUND_HALF_EVEN
    return canmatrix


class Lock:
    def __init__(self, name="build.lock"):
        os.makedirs(BUILD, exist_ok=True)
        self.path = os.path.join(BUILD, name)

    def __enter__(self):
        self.f = open(self.path, "w")
        fcntl.flock(self.f, fcntl.LOCK_EX)
        return self

    def __exit__(self, *a):
        fcntl.flock(self.f, fcntl.LOCK_UN)
        self.f.close()


def source_hygiene():
    """No Admitted/admit/Axiom/... anywhere in the development (comments are stripped first)."""
    bad = []
    for root, _, files in os.walk(COQ):
        for fn in files:
            if not fn.endswith(".v"):
                continue
            p = os.path.join(root, fn)
            try:
                txt = open(p).read()
            except OSError:
                continue      # a scratch file that vanished between os.walk and open
            txt = strip_coq_comments(txt)
            for m in FORBIDDEN.finditer(txt):
                # `Variable`/`Hypothesis` are fine inside a Section; we simply do not use them at all
                bad.append("%s: %s" % (os.path.relpath(p, COQ), m.group(0)))
    return bad


def strip_coq_comments(txt):
    out = []
    depth = 0
    i = 0
    n = len(txt)
    while i < n:
        if txt.startswith("(*", i):
            depth += 1
            i += 2
        elif txt.startswith("*)", i) and depth > 0:
            depth -= 1
            i += 2
        else:
            if depth == 0:
                out.append(txt[i])
            i += 1
    return "".join(out)


def build(timeout=1500):
    """Regenerate the translator output from the current tree, then a full .vo build of everything and
    the extracted driver.  Returns (ok, log, translator_status dict)."""
    with Lock():
        tstat = {}
        try:
            sys.path.insert(0, os.path.join(VERIF, "harness"))
            import py2coq
            gd = gen_dir()
            tstat = py2coq.regenerate(SRC, gd)
            if gd != os.path.join(COQ, "gen"):
                # private directories of scratch trees: remember the tree, drop those whose tree is gone
                with open(os.path.join(gd, ".tree"), "w") as f:
                    f.write(os.path.realpath(REPO))
                for d in os.listdir(BUILD):
                    dd = os.path.join(BUILD, d)
                    if d.startswith("gen_") and os.path.isdir(dd) and dd != gd:
                        try:
                            tree = open(os.path.join(dd, ".tree")).read().strip()
                        except OSError:
                            tree = ""
                        if not tree or not os.path.isdir(tree):
                            shutil.rmtree(dd, ignore_errors=True)
        except ImportError:
            tstat = {"status": "translator not built yet"}
        log = []
        if not os.path.exists(os.path.join(COQ, "Makefile")):
            rc, out = sh("coq_makefile -f _CoqProject -o Makefile", cwd=COQ)
            log.append(out)
        rc, out = sh("timeout %d make -j%d 2>&1" % (timeout, NPROC), cwd=COQ, timeout=timeout + 30)
        log.append(out)
        if rc != 0:
            return False, "\n".join(log), tstat
        ext = os.path.join(COQ, "extract")
        exe = os.path.join(ext, "cmrun")
        runvo = os.path.join(COQ, "model", "Run.vo")
        stale = (not os.path.exists(exe)) or os.path.getmtime(exe) < os.path.getmtime(runvo) \
            or os.path.getmtime(exe) < os.path.getmtime(os.path.join(ext, "main.ml")) \
            or os.path.getmtime(exe) < os.path.getmtime(os.path.join(ext, "Extract.v"))
        if stale:
            rc, out = sh("timeout 600 coqc -Q .. CM Extract.v && "
                         "ocamlfind ocamlopt -w -a cm_model.mli cm_model.ml main.ml -o cmrun.new && mv cmrun.new cmrun",
                         cwd=ext, timeout=700)
            log.append(out)
            if rc != 0:
                return False, "\n".join(log), tstat
        return True, "\n".join(log), tstat


def gen_dir():
    """coq/gen for /repo itself; a private directory for runs against another tree (seeded changes, parent commits), so
    that such runs never disturb the regenerated files of the registered checks."""
    if os.path.realpath(REPO) == "/repo":
        return os.path.join(COQ, "gen")
    return os.path.join(BUILD, "gen_" + hashlib.sha1(os.path.realpath(REPO).encode()).hexdigest()[:10])


def translator_tie(chk, tie_files, gen_files):
    """Second tie: compile the regenerated Gen_*.v and the static Tie_*.v (gen = hand model for all arguments).
    Not part of `make`: a source change the translator does not understand must not break the build - that Tie file is
    then reported as unavailable and the correspondence run alone carries the property.  Each Tie file is judged on its
    own: unavailable when one of the functions it speaks about was not translated, broken when all were translated but
    its theorems no longer prove, ok otherwise."""
    import py2coq
    st = {k: v for k, v in (chk.translator or {}).items()}
    wanted = {os.path.basename(g) for g in gen_files}
    file_of = {fn.coq_name: (fn.file or py2coq.FILES[fn.cls]) for fn in py2coq.TARGETS}
    relevant = {n for n, f in file_of.items() if f in wanted}
    res = {"status": "ok", "files": list(tie_files), "per_file": {},
           "untranslatable": {k: v for k, v in st.items() if v != "ok" and k in relevant}}
    gd = gen_dir()
    private = gd != os.path.join(COQ, "gen")

    def compile_one(rel, is_tie):
        base = os.path.basename(rel)
        if private:
            # Gen_*.v were regenerated into the private directory by build(); Tie_*.v are copied there with their
            # import of CM.gen.Gen_x redirected to the private logical root CMGEN
            src = os.path.join(gd, base)
            if is_tie:
                txt = open(os.path.join(COQ, rel)).read()
                gens = re.findall(r"\bgen\.(Gen_[A-Za-z0-9_]+)", txt)
                txt = re.sub(r"\s*\bgen\.Gen_[A-Za-z0-9_]+", "", txt)
                txt = txt.replace("(* Tie", "(* [private copy] Tie", 1)
                first = txt.index("From CM Require Import")
                eol = txt.index(".\n", first) + 2
                txt = txt[:eol] + "".join("From CMGEN Require Import %s.\n" % g for g in gens) + txt[eol:]
                open(src, "w").write(txt)
            cmd = "timeout 300 coqc -Q %s CM -Q %s CMGEN %s" % (COQ, gd, base)
            cwd = gd
        else:
            src = os.path.join(COQ, rel)
            vo = src + "o"
            if os.path.exists(vo) and os.path.getmtime(vo) >= os.path.getmtime(src) and not is_tie:
                return 0, "", src
            cmd = "timeout 300 coqc -Q . CM %s" % rel
            cwd = COQ
        rc, out = sh(cmd, cwd=cwd, timeout=330)
        return rc, out, src

    with Lock("gen.lock"):
        gen_ok = {}
        for rel in gen_files:
            rc, out, _ = compile_one(rel, False)
            gen_ok[os.path.basename(rel)] = (rc == 0)
            if rc != 0:
                res["log"] = out[-1500:]
        for rel in tie_files:
            txt = open(os.path.join(COQ, rel)).read()
            its_gens = {g + ".v" for g in re.findall(r"\bgen\.(Gen_[A-Za-z0-9_]+)", txt)}
            missing = sorted(n for n, f in file_of.items() if f in its_gens and st.get(n, "ok") != "ok")
            if missing or not all(gen_ok.get(g, True) for g in its_gens):
                res["per_file"][rel] = {"status": "unavailable", "untranslatable": missing}
                continue
            rc, out, src = compile_one(rel, True)
            n_thm = len(re.findall(r"(?m)^Theorem ", open(src).read()))
            n_closed = out.count("Closed under the global context")
            if rc != 0 or n_closed != n_thm:
                res["per_file"][rel] = {"status": "broken", "log": out[-1500:]}
                res.setdefault("failed_file", rel)
                res["log"] = out[-1500:]
            else:
                res["per_file"][rel] = {"status": "ok", "theorems": n_thm}
                res["theorems"] = res.get("theorems", 0) + n_thm
    states = {v["status"] for v in res["per_file"].values()}
    if "broken" in states:
        # the source was translated, but the regenerated definitions are no longer proved equal to the hand model:
        # the model is not shown to describe the code for all arguments any more.  If the search and the correspondence
        # run find no failing input this still is reported (VIOLATION ... no-failing-input-found).
        res["status"] = "broken"
        chk.obligation_failures.append("translator tie: %s no longer proves the regenerated definitions equal to the hand model"
                                       % res.get("failed_file", ",".join(tie_files)))
        chk.build_log = res.get("log", "")
    elif states == {"ok"}:
        res["status"] = "ok"
    elif "ok" in states:
        res["status"] = "partly unavailable"
    else:
        res["status"] = "unavailable"
    chk.ties["translator"] = res
    return res["status"] == "ok"


THEOREM_RE = re.compile(r"^\s*(Theorem|Example)\s+([A-Za-z0-9_']+)", re.M)


def audit_props(pid, extra_files=()):
    """Compile props/<pid>.v (always, so the Print Assumptions output is fresh) and parse it.
    Returns dict(obligations, discharged, failed: [names], axioms: {name: [axioms]}, log)."""
    os.makedirs(BUILD, exist_ok=True)
    res = {"obligations": 0, "discharged": 0, "failed": [], "axioms": {}, "log": "", "theorems": []}
    files = ["props/%s.v" % pid] + list(extra_files)
    for rel in files:
        src = os.path.join(COQ, rel)
        if not os.path.exists(src):
            res["failed"].append("missing file " + rel)
            continue
        txt = strip_coq_comments(open(src).read())
        names = [m.group(2) for m in THEOREM_RE.finditer(txt) if m.group(1) == "Theorem"]
        printed = re.findall(r"Print Assumptions\s+([A-Za-z0-9_']+)\s*\.", txt)
        res["obligations"] += len(names)
        res["theorems"] += names
        import shutil
        d = os.path.join(BUILD, "audit_%s_%d" % (pid, os.getpid()))
        os.makedirs(d, exist_ok=True)
        outvo = os.path.join(d, os.path.basename(rel) + "o")
        rc, out = sh("timeout 600 coqc -Q . CM -o %s %s" % (outvo, rel), cwd=COQ, timeout=630)
        shutil.rmtree(d, ignore_errors=True)
        res["log"] += out
        if rc != 0:
            # compile failure: every theorem of the file is undischarged
            res["failed"] += ["%s (file does not compile)" % n for n in names]
            continue
        # split output into Print Assumptions answers, in order
        blocks = re.split(r"(?m)^(?=Closed under the global context|Axioms:)", out)
        blocks = [b for b in blocks if b.startswith("Closed under") or b.startswith("Axioms:")]
        if len(blocks) != len(printed):
            res["failed"] += ["%s (Print Assumptions output not understood)" % n for n in names]
            continue
        status = {}
        for name, b in zip(printed, blocks):
            if b.startswith("Closed under"):
                status[name] = []
            else:
                ax = re.findall(r"(?m)^([A-Za-z_][A-Za-z0-9_.']*)\s*:", b[len("Axioms:"):])
                status[name] = ax
        for n in names:
            if n not in status:
                res["failed"].append("%s (no Print Assumptions)" % n)
            else:
                res["axioms"][n] = status[n]
                bad = [a for a in status[n] if a not in ALLOWED_AXIOMS]
                if bad:
                    res["failed"].append("%s (depends on %s)" % (n, ", ".join(bad)))
                else:
                    res["discharged"] += 1
    return res


def run_model(lines, timeout=1800):
    """lines: iterable of already formatted case lines.  Returns list of output lines."""
    exe = os.environ.get("VERIF_CMRUN") or os.path.join(COQ, "extract", "cmrun")
    data = "\n".join(lines) + "\n"
    p = subprocess.run([exe], input=data, stdout=subprocess.PIPE, stderr=subprocess.PIPE, text=True,
                       timeout=timeout)
    if p.returncode != 0:
        raise RuntimeError("cmrun failed: " + p.stderr[-2000:])
    out = p.stdout.split("\n")
    if out and out[-1] == "":
        out.pop()
    return out


def hx(z):
    z = int(z)
    return ("-%x" % -z) if z < 0 else ("%x" % z)


def fmt_case(cmd, groups):
    return "%x " % cmd + " | ".join(" ".join(hx(z) for z in g) for g in groups)


def parse_out(line):
    return [[int(t, 16) for t in g.split()] for g in line.split("|")]


def coq_shard(cases, tag, timeout=600):
    """cases: list of (cmd, groups, expected_groups).  Evaluates the model inside Coq (vm_compute) and
    returns the list of indices whose answer differs from `expected` (empty list = all agree), or
    None when coqc failed."""
    def zl(z):
        return "(%d)" % z
    def gl(g):
        return "[" + "; ".join(zl(z) for z in g) + "]"
    def ggl(gs):
        return "[" + "; ".join(gl(g) for g in gs) + "]"
    body = ";\n ".join("(%d, %s, %s)" % (c, ggl(a), ggl(e)) for c, a, e in cases)
    runmod, runfn = (os.environ.get("VERIF_RUNMOD") or "Run:run").split(":")
    src = ("From CM Require Import lib.Prelude model.RunBase model.%s.\n"
           "Definition cases : list (Z * io * io) := [\n %s\n].\n"
           "Eval vm_compute in (mismatches_with %s cases).\n" % (runmod, body, runfn))
    d = os.path.join(BUILD, "shard_%s_%d" % (tag, os.getpid()))
    os.makedirs(d, exist_ok=True)
    p = os.path.join(d, "cases.v")
    open(p, "w").write(src)
    rc, out = sh("timeout %d coqc -Q %s CM cases.v" % (timeout, COQ), cwd=d, timeout=timeout + 30)
    import shutil
    shutil.rmtree(d, ignore_errors=True)
    if rc != 0:
        return None, out
    m = re.search(r"=\s*\[(.*?)\]\s*:\s*list Z", out, re.S)
    if not m:
        return None, out
    body = m.group(1).strip()
    if not body:
        return [], out
    return [int(x.strip().replace("%Z", "").strip("()")) for x in body.split(";")], out


def load_known():
    p = os.path.join(VERIF, "known_findings.json")
    if not os.path.exists(p):
        return {"findings": [], "fixed": []}
    return json.load(open(p))


class Check:
    """Collects what one run of one property's check found and renders verdict + evidence."""

    def __init__(self, pid, tier):
        self.pid = pid
        self.tier = tier
        self.t0 = time.time()
        self.rng = random.Random(SEED * 1000003 + int(hashlib.sha1(pid.encode()).hexdigest()[:8], 16))
        self.viol_counts = {}
        self.violations = []      # dicts: {key, what, input, expected, observed}
        self.tie_breaks = []      # dicts: {suite, case, model, impl}
        self.obligation_failures = []
        self.known_hits = {}
        self.evaluations = 0
        self.nontrivial = set()
        self.samples = []
        self.hist = {}
        self.notes = []
        self.assumptions = []
        self.audit = None
        self.translator = {}
        self.ties = {}
        self.exhaustive = False
        self.rule = ""
        self.extra = {}
        self.known = [k for k in load_known().get("findings", []) if k.get("property") == pid]

    # ---- bookkeeping ----
    def count(self, key, n=1):
        self.hist[key] = self.hist.get(key, 0) + n

    def case(self, canon, nontrivial):
        """register one explored case (canon: hashable canonical form)"""
        self.evaluations += 1
        if nontrivial:
            self.nontrivial.add(hash(canon))

    def sample(self, s, limit=6):
        if len(self.samples) < limit:
            self.samples.append(s)

    def violation(self, key, what, input, expected=None, observed=None):
        """A concrete input on which the property fails on the implementation."""
        for k in self.known:
            if k.get("key") == key:
                self.known_hits.setdefault(key, {"what": k.get("what", what), "n": 0, "example": input})
                self.known_hits[key]["n"] += 1
                return
        # keep a few examples per failure class so that one flooding class cannot hide another
        self.viol_counts[key] = self.viol_counts.get(key, 0) + 1
        if self.viol_counts[key] <= 5 and len(self.viol_counts) <= 60:
            self.violations.append({"key": key, "what": what, "input": input, "expected": expected,
                                    "observed": observed})

    def tie_break(self, suite, case, model, impl):
        if len(self.tie_breaks) < 50:
            self.tie_breaks.append({"suite": suite, "case": case, "model": model, "impl": impl})

    # ---- build + audit ----
    def build_and_audit(self, extra_files=()):
        ok, log, tstat = build()
        self.translator = tstat
        if not ok:
            self.obligation_failures.append("build failed")
            self.build_log = log[-6000:]
            self.audit = {"obligations": 1, "discharged": 0, "failed": ["build"], "axioms": {}, "theorems": []}
            return False
        bad = source_hygiene()
        a = audit_props(self.pid, extra_files)
        self.audit = a
        if bad:
            self.obligation_failures += ["forbidden construct: " + b for b in bad]
        self.obligation_failures += a["failed"]
        self.build_log = a["log"][-6000:]
        return not self.obligation_failures

    # ---- verdict ----
    def finish(self, level_note=""):
        wall = time.time() - self.t0
        OUT = os.environ.get("VERIF_OUT") or VERIF     # seed/mutation runs write their evidence and replays elsewhere
        os.makedirs(os.path.join(OUT, "replays"), exist_ok=True)
        os.makedirs(os.path.join(OUT, "evidence"), exist_ok=True)
        lines = []
        rc = 0
        for key, k in sorted(self.known_hits.items()):
            lines.append("KNOWN-FINDING: property=%s %s [%s; %d case(s) this run]" % (self.pid, k["what"], key, k["n"]))
        nviol = 0
        if self.violations:
            rc = 1
            seen = set()
            for v in self.violations:
                if v["key"] in seen:
                    continue
                seen.add(v["key"])
                nviol += 1
                path = os.path.join(OUT, "replays", "%s_%s.json" % (self.pid, re.sub(r"[^A-Za-z0-9_.-]", "_", v["key"])[:60]))
                json.dump({"property": self.pid, "kind": "input", "seed": SEED, "tier": self.tier, **v,
                           "all_with_key": [w for w in self.violations if w["key"] == v["key"]][:10]},
                          open(path, "w"), indent=1, default=str)
                lines.append("VIOLATION property=%s replay=%s" % (self.pid, path))
        elif self.obligation_failures or self.tie_breaks:
            # no failing input found, but the property is no longer shown to hold
            rc = 1
            nviol = 1
            path = os.path.join(OUT, "replays", "%s_unproved.json" % self.pid)
            json.dump({"property": self.pid, "kind": "theorem" if self.obligation_failures else "correspondence",
                       "seed": SEED, "tier": self.tier,
                       "no_longer_checks": self.obligation_failures + ["correspondence suite " + t["suite"] for t in self.tie_breaks[:5]],
                       "tie_breaks": self.tie_breaks[:10],
                       "build_log_tail": getattr(self, "build_log", "")},
                      open(path, "w"), indent=1, default=str)
            lines.append("VIOLATION property=%s replay=%s no-failing-input-found" % (self.pid, path))
        a = self.audit or {"obligations": 0, "discharged": 0, "axioms": {}, "theorems": []}
        axioms = sorted({x for l in a.get("axioms", {}).values() for x in l})
        cov = {
            "obligations": a["obligations"],
            "discharged": a["discharged"],
            "checker_cmd": "cd /verif/coq && make (full .vo build, coqc 8.16.1) && coqc -Q . CM props/%s.v (Print Assumptions under every theorem)" % self.pid,
            "trusted_base": [
                "Coq 8.16.1 kernel (coqc, full .vo build; vm_compute only for finite sweeps/witnesses; no native_compute)",
                "axioms reported by Print Assumptions for this property's theorems: %s" % (", ".join(axioms) if axioms else "none (closed under the global context)"),
                "correspondence harness (harness/*.py): generators, canonicalisation, comparison",
                "extraction (ExtrOcamlBasic only; Z/positive/nat kept as extracted inductives) + OCaml driver coq/extract/main.ml; cross-checked by an in-Coq vm_compute shard",
                "translator harness/py2coq.py where listed under ties",
            ] + self.assumptions,
            "theorems": a.get("theorems", []),
            "evaluations": self.evaluations,
            "distinct_nontrivial": len(self.nontrivial),
            "rule": self.rule,
            "samples": self.samples if self.samples else ["(no cases run: build or audit failed first)"],
            "input_distribution": self.hist,
            "ties": self.ties,
            "translator": self.translator,
            "exhaustive": bool(self.exhaustive),
            "known_findings_hit": {k: v["n"] for k, v in self.known_hits.items()},
            "violation_counts": self.viol_counts,
            "notes": self.notes,
        }
        if isinstance(self.exhaustive, str):
            cov["exhaustive_scope"] = self.exhaustive        # the schema wants a boolean; what was enumerated completely goes here
        cov.update(self.extra)
        ev = {
            "property_id": self.pid,
            "tier": self.tier,
            "seed": SEED,
            "level": "proof",
            "coverage": cov,
            "assumptions": self.assumptions + ([level_note] if level_note else []),
            "wall_s": round(wall, 2),
            "violations": nviol,
        }
        json.dump(ev, open(os.path.join(OUT, "evidence", "%s.json" % self.pid), "w"), indent=1, default=str)
        for l in lines:
            print(l)
        print("%s %s: obligations %d/%d, evaluations %d, distinct non-trivial %d, tie-breaks %d, violations %d, %.1fs"
              % (self.pid, self.tier, a["discharged"], a["obligations"], self.evaluations, len(self.nontrivial),
                 len(self.tie_breaks), nviol, wall))
        return rc
