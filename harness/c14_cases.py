"""C14 case construction, export plumbing and snapshots - shared by harness/p_c14.py (search + tie) and
harness/c14_runner.py (the separate-process determinism runner).  Everything here is a pure function of
(VERIF_SEED-derived base seed, case index): no set/dict-of-str iteration takes part in building a matrix, so the same
case is rebuilt bit-identically under any PYTHONHASHSEED (the runner reports a hash of the snapshot to prove it)."""
import contextlib
import copy
import decimal
import enum
import hashlib
import io
import json
import os
import random

import matgen

# (key, module, options).  json: the three modes of json.py dump (symbolic default, jsonExportAll, jsonNativeTypes).
# jsonExportCanard is not listed: it hands Decimal factors to json.dump and raises TypeError on every matrix whose
# factors are Decimals (all matrices built through the API) - it accepts nothing that could be checked.
WRITERS = [
    ("arxml", "arxml", {}),
    ("csv", "csv", {}),
    ("dbc", "dbc", {}),
    ("dbf", "dbf", {}),
    ("fibex", "fibex", {}),
    ("json", "json", {}),
    ("json_all", "json", {"jsonExportAll": True}),
    ("json_native", "json", {"jsonNativeTypes": True}),
    ("kcd", "kcd", {}),
    ("scapy", "scapy", {}),
    ("sym", "sym", {}),
    ("wireshark", "wireshark", {}),
    ("xls", "xls", {}),
]
WRITER_KEYS = [w[0] for w in WRITERS]
CLUSTER_WRITERS = ("arxml", "kcd")     # take a mapping bus name -> matrix
BUS = "CAN"


class NamedBytesIO(io.BytesIO):
    """fibex.dump reads f.name (base name goes into the cluster name); real files have it"""
    name = "export.out"


def export(F, db, wkey, tmpdir=None):
    """bytes written by canmatrix.formats.dump for writer `wkey` on THIS object (no copy is made here).
    xls goes through a real file below tmpdir (as canmatrix.formats.dumpp does), everything else through memory."""
    _, mod, opt = WRITERS[WRITER_KEYS.index(wkey)]
    arg = {BUS: db} if mod in CLUSTER_WRITERS else db
    with contextlib.redirect_stdout(io.StringIO()):      # fibex prints warnings
        if mod == "xls" and tmpdir is not None:
            p = os.path.join(tmpdir, "export_%d.xls" % os.getpid())
            try:
                with open(p, "wb") as f:
                    F.dump(arg, f, mod, **opt)
                with open(p, "rb") as f:
                    return f.read()
            finally:
                if os.path.exists(p):
                    os.unlink(p)
        f = NamedBytesIO()
        F.dump(arg, f, mod, **opt)
        return f.getvalue()


def try_export(F, db, wkey, tmpdir=None):
    """('ok', bytes) | ('rejected', 'ExcName: text')"""
    try:
        return ("ok", export(F, db, wkey, tmpdir))
    except Exception as e:      # the writer does not accept this matrix
        return ("rejected", "%s: %s" % (type(e).__name__, str(e)[:120]))


# ------------------------------------------------------------------------------------------------
PROFILES = ["plain", "rich", "dup", "unprop", "dup+unprop", "bigmux", "all"]


N_CORPUS = 5


def corpus_case(k, C):
    """hand-made minimal matrices = the witnesses of props/C14.v (wit_unpropagated, wit_dup_frames, wit_dup_signals) and
    the 13-group multiplexed frame of finding F-C14d; run first in every tier (idx -1 .. -N_CORPUS)"""
    db = C.CanMatrix()
    for n in ("EA", "EB", "EC", "ED"):
        db.add_ecu(C.Ecu(n))

    def frame(name, fid, tx, sigs):
        fr = C.Frame(name, arbitration_id=C.ArbitrationId(fid, False), size=8)
        for t in tx:
            fr.add_transmitter(t)
        for i, (sn, rec) in enumerate(sigs):
            s = C.Signal(sn, start_bit=8 * i, size=8, is_little_endian=True, is_signed=False, receivers=list(rec))
            s.min, s.max = decimal.Decimal(0), decimal.Decimal(255)
            fr.add_signal(s)
        return fr
    if k == 1:      # receiver lists not propagated
        db.add_frame(frame("F", 0x10, ["EA"], [("S5", ["EB", "EC"])]))
        what = "wit_unpropagated"
    elif k == 2:    # two frames called Dup
        for fid, tx, sn, rc in ((0x10, "EA", "S5", "EB"), (0x11, "EC", "S6", "ED")):
            fr = frame("Dup", fid, [tx], [(sn, [rc])])
            fr.update_receiver()
            db.add_frame(fr)
        what = "wit_dup_frames"
    elif k == 3:    # the same signal name in two frames
        for name, fid, rc in (("FA", 0x10, "EB"), ("FB", 0x11, "EC")):
            fr = frame(name, fid, ["EA"], [("Counter", [rc])])
            fr.update_receiver()
            db.add_frame(fr)
        what = "wit_dup_signals"
    elif k == 5:    # simple multiplexer that is NOT the first signal of its frame (a writer 'declaring the multiplexer first' in place)
        fr = C.Frame("MuxFrame", arbitration_id=C.ArbitrationId(0x123, False), size=8)
        fr.add_signal(C.Signal("Static", start_bit=8, size=8, is_signed=False))
        fr.add_signal(C.Signal("Mode", start_bit=0, size=4, is_signed=False, multiplex="Multiplexor"))
        fr.add_signal(C.Signal("ValA", start_bit=16, size=8, is_signed=False, multiplex=0))
        fr.add_signal(C.Signal("ValB", start_bit=16, size=8, is_signed=False, multiplex=1))
        for s in fr.signals:
            s.min, s.max = decimal.Decimal(0), decimal.Decimal(2 ** s.size - 1)
        fr.add_transmitter("EA")
        fr.multiplex_signals()
        db.add_frame(fr)
        what = "mux_not_first"
    else:           # 13 multiplexer groups
        fr = C.Frame("FMux13", arbitration_id=C.ArbitrationId(0x20, False), size=8)
        fr.add_signal(C.Signal("Sel", start_bit=0, size=8, is_little_endian=True, is_signed=False, multiplex="Multiplexor"))
        fr.add_signal(C.Signal("Common", start_bit=8, size=8, is_little_endian=True, is_signed=False))
        for v in range(13):
            fr.add_signal(C.Signal("G%d" % v, start_bit=16, size=8, is_little_endian=True, is_signed=False, multiplex=v * 5))
        for s in fr.signals:
            s.min, s.max = decimal.Decimal(0), decimal.Decimal(255)
        fr.add_transmitter("EA")
        fr.multiplex_signals()
        db.add_frame(fr)
        what = "sym_13_groups"
    return db, dict(profile="corpus", idx=-k, corpus=what, features={})


def _shuffled_dict(d, rng):
    items = list(d.items())
    rng.shuffle(items)
    return dict(items)


def shuffle_orders(db, rng):
    """permute every ordered container of the matrix in place (content unchanged): frames, ecus, signals of a frame (the
    multiplexer lands anywhere), free signals, transmitters, receivers, attribute / define / value-table insertion order,
    signal groups and their members.  Returns what was done (for the evidence)."""
    done = dict(mux_not_first=0)
    rng.shuffle(db.frames)
    rng.shuffle(db.ecus)
    rng.shuffle(db.signals)
    db.attributes = _shuffled_dict(db.attributes, rng)
    for cat in ("global_defines", "ecu_defines", "frame_defines", "signal_defines", "env_defines"):
        setattr(db, cat, _shuffled_dict(getattr(db, cat), rng))
    db.value_tables = _shuffled_dict({k: _shuffled_dict(v, rng) for k, v in db.value_tables.items()}, rng)
    for e in db.ecus:
        e.attributes = _shuffled_dict(e.attributes, rng)
    for f in db.frames:
        rng.shuffle(f.signals)
        rng.shuffle(f.transmitters)
        rng.shuffle(f.receivers)
        rng.shuffle(f.signalGroups)
        for g in f.signalGroups:
            rng.shuffle(g.signals)
        f.attributes = _shuffled_dict(f.attributes, rng)
        f.mux_names = _shuffled_dict(f.mux_names, rng)
        for s in f.signals:
            rng.shuffle(s.receivers)
            s.attributes = _shuffled_dict(s.attributes, rng)
            s.values = _shuffled_dict(s.values, rng)
        if any(s.is_multiplexer for s in f.signals) and not f.signals[0].is_multiplexer:
            done["mux_not_first"] += 1
    return done


def add_edge_frames(db, rng, C):
    """one or two extra frames whose signals sit at the edges of their types"""
    used = {f.arbitration_id.id for f in db.frames}
    added = []
    Dd = decimal.Decimal

    def new_frame(name):
        fid = next(i for i in range(0x300 + rng.randrange(0x100), 0x800) if i not in used)
        used.add(fid)
        fr = C.Frame(name, arbitration_id=C.ArbitrationId(fid, False), size=8)
        if db.ecus:
            fr.add_transmitter(rng.choice(db.ecus).name)
        return fr

    def finish(fr):
        for s in fr.signals:
            if db.ecus and rng.random() < 0.5:
                s.add_receiver(rng.choice(db.ecus).name)
        fr.update_receiver()
        db.add_frame(fr)
        added.append(fr.name)
    kinds = rng.sample(["u64", "s64", "floats", "digits"], rng.randrange(1, 3))
    for k in kinds:
        le = rng.random() < 0.5
        if k == "u64":
            fr = new_frame("FEdgeU64_%d" % rng.randrange(100))
            s = C.Signal("BigUnsigned", start_bit=0, size=64, is_little_endian=le, is_signed=False)
            s.min, s.max = Dd(0), Dd(2 ** 64 - 1)
            s.initial_value = Dd(rng.choice([2 ** 64 - 1, 12345678901234567890, 10 ** 18 + 1, 999999999999999999]))
            fr.add_signal(s)
        elif k == "s64":
            fr = new_frame("FEdgeS64_%d" % rng.randrange(100))
            s = C.Signal("BigSigned", start_bit=0, size=64, is_little_endian=le, is_signed=True)
            s.min, s.max = Dd(-2 ** 63), Dd(2 ** 63 - 1)
            s.initial_value = Dd(rng.choice([-2 ** 63, 2 ** 63 - 1, -1234567890123456789, 0]))
            fr.add_signal(s)
        elif k == "floats":
            fr = new_frame("FEdgeFloat_%d" % rng.randrange(100))
            if rng.random() < 0.5:
                a = C.Signal("F32", start_bit=0, size=32, is_little_endian=le, is_signed=False, is_float=True,
                             factor=Dd(rng.choice(["1", "3", "0.7"])), offset=Dd(rng.choice(["0", "0.1"])))
                a.min, a.max = Dd(-10 ** 6), Dd(10 ** 6)
                a.initial_value = Dd(rng.choice(["1.5", "1", "0.3", "-2.25", "0"]))
                b = C.Signal("I32", start_bit=32, size=32, is_little_endian=le, is_signed=True)
                b.min, b.max = Dd(-2 ** 31), Dd(2 ** 31 - 1)
                b.initial_value = Dd(rng.choice([-2 ** 31, 2 ** 31 - 1, 0]))
                fr.add_signal(a)
                fr.add_signal(b)
            else:
                a = C.Signal("F64", start_bit=0, size=64, is_little_endian=le, is_signed=False, is_float=True,
                             factor=Dd(rng.choice(["1", "3", "0.001"])))
                a.min, a.max = Dd(-10 ** 12), Dd(10 ** 12)
                a.initial_value = Dd(rng.choice(["1", "0.1", "123456.789", "-7"]))
                fr.add_signal(a)
        else:
            fr = new_frame("FEdgeDigits_%d" % rng.randrange(100))
            s = C.Signal("ManyDigits", start_bit=0, size=48, is_little_endian=le, is_signed=False,
                         factor=Dd(rng.choice(["0.000123456789012345", "1.00000000000000001", "3"])),
                         offset=Dd(rng.choice(["-1234567.000000001", "0", "0.333333333333333333"])))
            lo, hi = s.calculate_raw_range()
            x, y = s.offset + lo * s.factor, s.offset + hi * s.factor
            s.min, s.max = min(x, y), max(x, y)
            s.initial_value = s.offset + rng.choice([1, 2 ** 47, 2 ** 48 - 1]) * s.factor
            fr.add_signal(s)
        finish(fr)
    return added


# attribute definitions of kinds the DBC format does not know / that are oddly written (Define() leaves .type None for them):
# what every SYM import registers (BOOL, STR), an empty definition, lower-case type words, ENUMs with odd quoting
ODD_DEFINES = ["BOOL False True", "STR", "", "int 0 10", "string", "BOOL", 'ENUM  "a b","c,d", "e"', "ENUM a,b", 'ENUM "x"',
               "FLOAT -1.5 1e3", "HEX 0 255", "STRING "]


def db_define_values(db, name):
    for cat in ("global_defines", "ecu_defines", "frame_defines", "signal_defines"):
        if name in getattr(db, cat):
            return getattr(db, cat)[name].values
    raise KeyError(name)


def add_odd_defines(db, rng):
    """defines of odd kinds in all four categories, some with defaults, some used by an object"""
    added = []
    cats = [("global", db.add_global_defines, [db]), ("ecu", db.add_ecu_defines, list(db.ecus)),
            ("frame", db.add_frame_defines, list(db.frames)), ("signal", db.add_signal_defines, [s_ for f in db.frames for s_ in f.signals])]
    for cat, adder, objs in cats:
        for k in range(rng.randrange(1, 3)):
            d = rng.choice(ODD_DEFINES)
            name = "Odd%s%d" % (cat.capitalize(), k)
            adder(name, d)
            if rng.random() < 0.5:
                db.add_define_default(name, rng.choice(["True", "False", "0", "x", '"quoted"']))
            if objs and rng.random() < 0.6:
                val = "True" if d.startswith("BOOL") else ("1" if d.upper().startswith(("INT", "HEX", "FLOAT")) else "txt")
                if d.startswith("ENUM"):
                    val = db_define_values(db, name)[0]      # a label of the enumeration (dbc/dbf map labels to keys)
                rng.choice(objs).add_attribute(name, val)
            added.append([cat, name, d])
    return added


# ---- matrices produced by the READERS ----
SAMPLE_DIRS = ("dbc", "dbf", "sym", "kcd", "json", "arxml", "xlsx")
FILE_BASE = -1000          # idx = FILE_BASE - (4 * file number + bus number)
BUSES_PER_FILE = 4
REREAD_BASE = 1000000      # idx = REREAD_BASE + 8 * generated case + format number
REREAD_FORMATS = [("dbc", "dbc", {}), ("dbf", "dbf", {}), ("sym", "sym", {}), ("kcd", "kcd", {}), ("json", "json", {"jsonExportAll": True}),
                  ("arxml", "arxml", {}), ("xls", "xls", {})]      # (what fibex writes its own reader does not read back: KeyError)


def sample_files(repo):
    out = []
    for d in SAMPLE_DIRS:
        p = os.path.join(repo, "tests", "files", d)
        if os.path.isdir(p):
            out += [os.path.join(p, f) for f in sorted(os.listdir(p))]
    return out


def _pick_bus(dbs, bus):
    """the bus-th matrix (by sorted key) that has frames"""
    if not dbs:
        return None
    keys = sorted(k for k in dbs if dbs[k] is not None and len(dbs[k].frames) > 0)
    return (keys[bus], dbs[keys[bus]]) if bus < len(keys) else None


def file_case(idx, C):
    import canmatrix.formats as F
    import core
    n = FILE_BASE - idx
    fi, bus = divmod(n, BUSES_PER_FILE)
    files = sample_files(core.REPO)
    info = dict(profile="sample-file", idx=idx, features={})
    if fi >= len(files):
        return None, dict(info, skipped="no such file")
    info["file"] = os.path.relpath(files[fi], core.REPO)
    info["bus_number"] = bus
    try:
        with contextlib.redirect_stdout(io.StringIO()):
            dbs = F.loadp(files[fi])
    except Exception as e:
        return None, dict(info, skipped="reader raised %s" % type(e).__name__)
    got = _pick_bus(dbs, bus)
    if got is None:
        return None, dict(info, skipped="no such bus")
    info["bus"] = got[0]
    return got[1], info


def reread_case(base_seed, idx, C):
    import canmatrix.formats as F
    j, fn = divmod(idx - REREAD_BASE, 8)
    if fn >= len(REREAD_FORMATS):
        return None, dict(profile="reread", idx=idx, features={}, skipped="no such format")
    key, mod, opt = REREAD_FORMATS[fn]
    db0, info0 = build_case(base_seed, j, C)
    info = dict(profile="reread-" + key, idx=idx, base_seed=base_seed, features={}, generated_case=j, via=key)
    tmp = None
    try:
        with contextlib.redirect_stdout(io.StringIO()):
            f = NamedBytesIO()
            F.dump({BUS: db0} if mod in CLUSTER_WRITERS else db0, f, mod, **opt)
            data = f.getvalue()
            dbs = F.loads(data, mod, key="")
    except Exception as e:
        return None, dict(info, skipped="write/read raised %s" % type(e).__name__)
    got = _pick_bus(dbs, 0)
    if got is None:
        return None, dict(info, skipped="nothing read back")
    return got[1], info


def build_case(base_seed, idx, C):
    """see _build_case; building a case may itself run writers and readers (read-back cases): whatever they do to the thread's decimal
    context is undone here, so that a case is always judged from the same starting point"""
    saved = decimal.getcontext().copy()
    try:
        return _build_case(base_seed, idx, C)
    finally:
        decimal.setcontext(saved)


def _build_case(base_seed, idx, C):
    """-> (matrix or None, feature dict).  idx in -1..-N_CORPUS: the fixed corpus; idx <= FILE_BASE: a shipped sample file read by
    its reader; idx >= REREAD_BASE: a generated matrix written and read back through one format; else generated, profiles cycle
    with idx so every tier sees all of them."""
    if idx <= FILE_BASE:
        return file_case(idx, C)
    if idx >= REREAD_BASE:
        return reread_case(base_seed, idx, C)
    if idx < 0:
        return corpus_case(-idx, C)
    rng = random.Random(base_seed * 7919 + idx)
    prof = PROFILES[idx % len(PROFILES)]
    ft = dict(n_frames=(2, 5), n_ecus=(3, 6), cycle_times=True, receivers=True, multi_senders=True,
              long_names=rng.random() < 0.5, mux="mixed")
    if prof in ("rich", "all") or rng.random() < 0.3:
        ft.update(value_tables=True, comments=rng.random() < 0.7, attributes=rng.random() < 0.6, free_signals=rng.random() < 0.6,
                  signal_groups=rng.random() < 0.4, initial_values=rng.random() < 0.5)
    if prof == "plain":
        ft.update(ext_ids=rng.random() < 0.5, long_names=False, mux="none" if rng.random() < 0.5 else "simple")
    if rng.random() < 0.25:
        ft.update(fd=True, max_len=64)
    if rng.random() < 0.3:
        ft.update(free_signals=True)
    db = matgen.gen_matrix(rng, C, **ft)
    info = dict(profile=prof, idx=idx, base_seed=base_seed, features={k: v for k, v in sorted(ft.items())})
    # ---- multiplexed frame with many selector values (the SYM writer iterates the SET of them) ----
    if prof in ("bigmux", "all") or rng.random() < 0.35:
        w = rng.choice([4, 5, 6, 8])
        nvals = rng.randrange(5, min(1 << w, 40) + 1)
        vals = rng.sample(range(1 << w), nvals)
        le = rng.random() < 0.5
        used = {f.arbitration_id.id for f in db.frames}
        fid = next(i for i in range(0x100, 0x800) if i not in used)
        fr = C.Frame("FBigMux%d" % rng.randrange(100), arbitration_id=C.ArbitrationId(fid, False), size=8)
        # Intel everywhere or Motorola everywhere (internal start of a Motorola signal = MSB0 sequential number of its MSB)
        mx = C.Signal("MxSel", start_bit=0, size=w, is_little_endian=le, is_signed=False, multiplex="Multiplexor")
        fr.add_signal(mx)
        fr.add_signal(C.Signal("SStatic", start_bit=8, size=8, is_little_endian=le, is_signed=False,
                               receivers=[db.ecus[0].name]))
        for v in vals:
            for k in range(rng.randrange(1, 3)):
                s = C.Signal("G%d_v%d" % (v, k), start_bit=16 + 16 * k, size=rng.choice([8, 12, 16]), is_little_endian=le,
                             is_signed=rng.random() < 0.4, multiplex=v, factor=decimal.Decimal(rng.choice(["1", "0.5", "2"])))
                lo, hi = s.calculate_raw_range()
                a, b = s.offset + lo * s.factor, s.offset + hi * s.factor
                s.min, s.max = min(a, b), max(a, b)
                s.add_receiver(rng.choice(db.ecus).name)
                fr.add_signal(s)
        fr.add_transmitter(db.ecus[-1].name)
        if rng.random() < 0.5:
            fr.cycle_time = 100
        fr.multiplex_signals()
        fr.update_receiver()
        db.add_frame(fr)
        info["bigmux"] = dict(width=w, values=vals)
    # ---- values at the edge of what the types carry: 64 bit integers with 18-20 digit start values and limits, float signals with
    #      non-zero / non-terminating start values, many-digit factors (whatever a writer computes with them must not leave a trace) ----
    if idx % 3 != 2:
        info["edge_values"] = add_edge_frames(db, random.Random(base_seed * 389 + idx), C)
    # ---- attribute definitions of kinds a writer may want to 'repair' ----
    if idx % 2 == 1:
        info["odd_defines"] = add_odd_defines(db, random.Random(base_seed * 977 + idx))
    # ---- no list or dict of the matrix is in a 'canonical' order: whatever a writer might normalise in place (multiplexer
    #      first, frames by id or name, sorted receivers, sorted value tables ...) has something to change ----
    if idx % 4 != 3:
        info["shuffled"] = shuffle_orders(db, random.Random(base_seed * 613 + idx))
    # ---- duplicate frame names (the property's quantifier names them explicitly) ----
    if prof in ("dup", "dup+unprop", "all") and len(db.frames) >= 2:
        n = len(db.frames)
        i, j = sorted(rng.sample(range(n), 2))
        base = db.frames[i].name
        db.frames[j].name = base
        dup = [i, j]
        if n >= 3 and rng.random() < 0.4:
            k = rng.choice([x for x in range(n) if x not in (i, j)])
            # either a third frame of the same name or a frame already called <name>_2 (fibex's collision loop)
            db.frames[k].name = base if rng.random() < 0.5 else base + "_2"
            dup.append(k)
        info["dup_names"] = [db.frames[x].name for x in dup]
    # ---- the same signal name in two frames (e.g. a 'Counter' in every frame); CanCluster.update_signals keys on it ----
    if prof in ("dup", "rich", "all") or rng.random() < 0.3:
        cands = [(a, b) for a in range(len(db.frames)) for b in range(a + 1, len(db.frames))
                 if db.frames[a].signals and db.frames[b].signals]
        if cands:
            a, b = rng.choice(cands)
            src = rng.choice(db.frames[a].signals)
            tgt = rng.choice(db.frames[b].signals)
            if db.frames[b].signal_by_name(src.name) is None and not tgt.is_multiplexer \
                    and all(s.muxer_for_signal != tgt.name for s in db.frames[b].signals):
                old = tgt.name
                tgt.name = src.name          # signal groups hold the objects, nothing else to rename
                info["dup_signal"] = [a, b, src.name, old]
    # ---- receiver lists not (or only partly) propagated to the frames ----
    if prof in ("unprop", "dup+unprop", "all"):
        mode = rng.choice(["none", "none", "partial"])
        for f in db.frames:
            if mode == "none" or rng.random() < 0.5:
                f.receivers = []
            elif f.receivers:
                f.receivers = f.receivers[: len(f.receivers) // 2]
        info["unpropagated"] = mode
    return db, info


# ------------------------------------------------------------------------------------------------
# In-place edits through the public API, for histories "export, edit the same object, export again".  An edit script is plain
# data (kind + positions + values) drawn from the structure of the matrix BEFORE anything was exported, so that the very same
# script can be applied to the exported object and to a fresh equal matrix.
EDIT_KINDS = ["frame-name", "frame-id", "frame-cycle-time", "signal-cycle-time", "frame-attribute", "signal-attribute", "define-default",
              "global-attribute", "signal-name", "signal-scaling", "signal-receiver", "signal-comment", "signal-values", "signal-unit",
              "signal-initial-value", "add-signal", "delete-signal", "add-frame", "delete-frame", "frame-size", "frame-comment",
              "frame-transmitter", "ecu-rename", "add-ecu", "value-table"]
# attribute names the writers conventionally consult (send type, delay, cycle time, start value) next to whatever the matrix defines
CONVENTIONAL_FRAME_ATTRS = [("GenMsgSendType", 'ENUM "cyclic","spontaneous","cyclicIfActive"', ["cyclic", "spontaneous", "cyclicIfActive"]),
                            ("GenMsgDelayTime", "INT 0 65535", ["0", "5", "20"]),
                            ("GenMsgCycleTime", "INT 0 65535", ["10", "50", "250"]),
                            ("GenMsgStartDelayTime", "INT 0 65535", ["0", "7"])]
CONVENTIONAL_SIGNAL_ATTRS = [("GenSigSendType", 'ENUM "Cyclic","OnChange","OnWrite"', ["Cyclic", "OnChange", "OnWrite"]),
                             ("GenSigInactiveValue", "INT 0 100000", ["0", "1"]),
                             ("HexadecimalOutput", "BOOL False True", ["True", "False"])]


def make_edit_script(db, rng, n_edits):
    """a list of edit descriptions valid for this matrix"""
    script = []
    nf = len(db.frames)
    used_ids = {(f.arbitration_id.id, bool(f.arbitration_id.extended)) for f in db.frames}
    kinds = rng.sample(EDIT_KINDS, min(n_edits, len(EDIT_KINDS)))
    deleted_frame = None
    for k in kinds:
        if nf == 0 and k not in ("add-frame", "add-ecu", "global-attribute", "value-table"):
            continue
        fi = rng.randrange(nf) if nf else 0
        fr = db.frames[fi] if nf else None
        ns = len(fr.signals) if fr is not None else 0
        si = rng.randrange(ns) if ns else None
        e = dict(kind=k, frame=fi, signal=si)
        if k == "frame-name":
            e["value"] = "Ed_%s_%d" % (fr.name[:12], rng.randrange(1000))
        elif k == "frame-id":
            ext = bool(fr.arbitration_id.extended)
            for _ in range(100):
                nid = rng.randrange(1, 2 ** 29 if ext else 2 ** 11)
                if (nid, ext) not in used_ids:
                    break
            used_ids.add((nid, ext))
            e["value"] = nid
        elif k in ("frame-cycle-time", "signal-cycle-time"):
            e["value"] = rng.choice([0, 10, 25, 40, 500, 1000])
        elif k == "frame-attribute":
            cands = list(CONVENTIONAL_FRAME_ATTRS)
            for name, d in db.frame_defines.items():
                if d.type == "ENUM" and d.values:
                    cands.append((name, d.definition, list(d.values)))
                elif d.type in ("INT", "HEX"):
                    cands.append((name, d.definition, [str(d.min), str(d.max)]))
            name, definition, vals = rng.choice(cands)
            e.update(name=name, definition=definition, value=rng.choice(vals))
        elif k == "signal-attribute":
            cands = list(CONVENTIONAL_SIGNAL_ATTRS)
            for name, d in db.signal_defines.items():
                if d.type == "ENUM" and d.values:
                    cands.append((name, d.definition, list(d.values)))
            name, definition, vals = rng.choice(cands)
            e.update(name=name, definition=definition, value=rng.choice(vals))
        elif k == "define-default":
            cands = [(n_, d) for c_ in ("frame_defines", "signal_defines", "ecu_defines", "global_defines") for n_, d in getattr(db, c_).items()]
            cands = [(n_, d) for n_, d in cands if d.type in ("INT", "HEX", "ENUM", "STRING")]
            if not cands:
                e.update(name="GenMsgSendType", definition=CONVENTIONAL_FRAME_ATTRS[0][1], value="spontaneous", create=True)
            else:
                n_, d = rng.choice(cands)
                v = rng.choice(d.values) if d.type == "ENUM" and d.values else (str(d.max) if d.type in ("INT", "HEX") else "edited")
                e.update(name=n_, value=v)
        elif k == "global-attribute":
            e.update(name="EdNetAttr", definition="STRING", value="v%d" % rng.randrange(100))
        elif k == "signal-name":
            e["value"] = "EdSig_%d" % rng.randrange(10000)
        elif k == "signal-scaling":
            e["value"] = [rng.choice(["2", "0.25", "10"]), rng.choice(["0", "-3", "1.5"])]
        elif k in ("signal-receiver", "frame-transmitter"):
            e["value"] = rng.choice(db.ecus).name if db.ecus else "EdEcu"
        elif k in ("signal-comment", "frame-comment"):
            e["value"] = "edited comment %d" % rng.randrange(100)
        elif k == "signal-values":
            e["value"] = [rng.randrange(0, 2), "EdLabel%d" % rng.randrange(100)]
        elif k == "signal-unit":
            e["value"] = rng.choice(["mV", "s", "1/min"])
        elif k == "signal-initial-value":
            e["value"] = rng.choice(["0", "1", "2"])
        elif k == "add-signal":
            e["value"] = ["EdNew_%d" % rng.randrange(10000), rng.randrange(0, 8), rng.choice([True, False])]
        elif k == "add-frame":
            for _ in range(100):
                nid = rng.randrange(1, 2 ** 11)
                if (nid, False) not in used_ids:
                    break
            used_ids.add((nid, False))
            e["value"] = ["EdFrame_%d" % rng.randrange(10000), nid, rng.choice([0, 20, 100])]
        elif k == "delete-frame":
            if nf < 2 or deleted_frame is not None:
                continue
            deleted_frame = fi
        elif k == "frame-size":
            e["value"] = rng.choice([8, 8, 16, 64])
        elif k == "ecu-rename":
            if not db.ecus:
                continue
            e.update(ecu=rng.randrange(len(db.ecus)), value="EdEcu_%d" % rng.randrange(1000))
        elif k == "add-ecu":
            e["value"] = "EdNewEcu_%d" % rng.randrange(1000)
        elif k == "value-table":
            e["value"] = ["EdTable%d" % rng.randrange(10), {0: "Zero", 1: "One", rng.randrange(2, 9): "More"}]
        script.append(e)
    # positions refer to the matrix as it is before the script runs: run the deletions last
    script.sort(key=lambda e: e["kind"] in ("delete-frame",))
    return script


def apply_edits(db, script, C):
    """apply the script in place; only public attributes / methods of the matrix are used.  Returns the kinds applied."""
    frames = list(db.frames)          # positions as before the script
    done = []
    for e in script:
        k = e["kind"]
        fr = frames[e["frame"]] if frames and e.get("frame") is not None and e["frame"] < len(frames) else None
        sg = fr.signals[e["signal"]] if fr is not None and e.get("signal") is not None and e["signal"] < len(fr.signals) else None
        if k == "frame-name":
            fr.name = e["value"]
        elif k == "frame-id":
            fr.arbitration_id = C.ArbitrationId(e["value"], fr.arbitration_id.extended)
        elif k == "frame-cycle-time":
            fr.cycle_time = e["value"]
        elif k == "signal-cycle-time":
            if sg is None:
                continue
            sg.cycle_time = e["value"]
        elif k == "frame-attribute":
            db.add_frame_defines(e["name"], e["definition"])
            fr.add_attribute(e["name"], e["value"])
        elif k == "signal-attribute":
            if sg is None:
                continue
            db.add_signal_defines(e["name"], e["definition"])
            sg.add_attribute(e["name"], e["value"])
        elif k == "define-default":
            if e.get("create"):
                db.add_frame_defines(e["name"], e["definition"])
            db.add_define_default(e["name"], e["value"])
        elif k == "global-attribute":
            db.add_global_defines(e["name"], e["definition"])
            db.add_attribute(e["name"], e["value"])
        elif k == "signal-name":
            if sg is None or sg.is_multiplexer or any(s.muxer_for_signal == sg.name for s in fr.signals):
                continue
            sg.name = e["value"]
        elif k == "signal-scaling":
            if sg is None:
                continue
            sg.factor = decimal.Decimal(e["value"][0])
            sg.offset = decimal.Decimal(e["value"][1])
        elif k == "signal-receiver":
            if sg is None:
                continue
            sg.add_receiver(e["value"])
            fr.update_receiver()
        elif k == "signal-comment":
            if sg is None:
                continue
            sg.add_comment(e["value"])
        elif k == "frame-comment":
            fr.add_comment(e["value"])
        elif k == "signal-values":
            if sg is None:
                continue
            sg.add_values(e["value"][0], e["value"][1])
        elif k == "signal-unit":
            if sg is None:
                continue
            sg.unit = e["value"]
        elif k == "signal-initial-value":
            if sg is None:
                continue
            sg.initial_value = decimal.Decimal(e["value"])
        elif k == "add-signal":
            name, start, le = e["value"]
            s = C.Signal(name, start_bit=start, size=1, is_little_endian=le, is_signed=False)
            s.min, s.max = decimal.Decimal(0), decimal.Decimal(1)
            fr.add_signal(s)
        elif k == "delete-signal":
            if sg is None or sg.is_multiplexer or sg.multiplex is not None or len(fr.signals) < 2:
                continue
            fr.signals.remove(sg)
        elif k == "add-frame":
            name, nid, ct = e["value"]
            nf = C.Frame(name, arbitration_id=C.ArbitrationId(nid, False), size=8)
            s = C.Signal("EdS_" + name, start_bit=0, size=8, is_little_endian=True, is_signed=False)
            s.min, s.max = decimal.Decimal(0), decimal.Decimal(255)
            nf.add_signal(s)
            nf.cycle_time = ct
            if db.ecus:
                nf.add_transmitter(db.ecus[0].name)
            db.add_frame(nf)
        elif k == "delete-frame":
            db.del_frame(fr)
        elif k == "frame-size":
            if fr.size > e["value"]:
                continue
            fr.size = e["value"]
        elif k == "frame-transmitter":
            fr.add_transmitter(e["value"])
        elif k == "ecu-rename":
            if e["ecu"] < len(db.ecus):
                db.rename_ecu(db.ecus[e["ecu"]].name, e["value"])
        elif k == "add-ecu":
            db.add_ecu(C.Ecu(e["value"]))
        elif k == "value-table":
            db.add_value_table(e["value"][0], dict(e["value"][1]))
        done.append(k)
    return done


def copier(db, base_seed, idx, C):
    """-> function giving a fresh matrix equal to db that shares NO object with it.  A pickle round trip when it reproduces the
    matrix exactly (pickle ignores __deepcopy__, so nothing a class chooses to share between deep copies is shared here), else
    the case rebuilt from (seed, idx) - e.g. a SYM import keeps exception objects in load_errors that cannot be re-instantiated.
    (copy.deepcopy itself is checked for faithfulness separately in p_c14.)"""
    import pickle
    try:
        blob = pickle.dumps(db, protocol=pickle.HIGHEST_PROTOCOL)
        if snapshot(pickle.loads(blob)) == snapshot(db):
            return lambda: pickle.loads(blob)
    except Exception:
        pass
    return lambda: build_case(base_seed, idx, C)[0]


def payloads(rng, frame, n=3):
    out = [bytes(frame.size), bytes([0xFF] * frame.size)]
    for _ in range(n):
        out.append(bytes(rng.randrange(256) for _ in range(frame.size)))
    return out


def decode_all(db, base_seed, idx):
    """Frame.decode of a few payloads per frame (by position) and CanMatrix.decode by identifier, canonicalised"""
    rng = random.Random(base_seed * 104729 + idx)
    out = []
    for fi, fr in enumerate(db.frames):
        if getattr(fr, "is_pdu_container", False):
            # Frame.decode of a container-PDU frame does not return on some arbitrary payloads (e.g. tests/files/arxml/ARXMLContainerTest.arxml,
            # Frame_With_Container, payload e11718fdfc5fa4b2f2268f27caa9d3ff: no return within seconds, memory grows without bound) - not C14's subject
            out.append([fi, "container frame: decode not probed"])
            continue
        for p in payloads(rng, fr):
            for how in ("frame", "matrix"):
                try:
                    r = fr.decode(p) if how == "frame" else db.decode(fr.arbitration_id, p)
                    res = [[k, str(v.raw_value), str(v.phys_value), str(v.named_value)] for k, v in r.items()]
                except Exception as e:
                    res = "EXC " + type(e).__name__
                out.append([fi, p.hex(), how, res])
    return out


# ------------------------------------------------------------------------------------------------
# memo fields (filled by look-ups, not part of the matrix' content)
IGNORED_FIELDS = {"_frames_dict_id_extend", "frames_dict_name", "frames_dict_id"}


def snapshot(o, memo=None):
    """everything reachable from the object, order of lists and insertion order of dicts kept (JSON-able).
    Catches what matgen.normal_form does not look at (comments dicts, mux names, pdu fields, order of receivers ...)."""
    if memo is None:
        memo = {}
    if o is None or isinstance(o, (bool, str)):
        return o
    if isinstance(o, int):
        return o
    if isinstance(o, float):
        return {"__float__": repr(o)}
    if isinstance(o, decimal.Decimal):
        return {"__dec__": str(o)}
    if isinstance(o, bytes):
        return {"__bytes__": o.hex()}
    if isinstance(o, enum.Enum):
        return {"__enum__": str(o)}
    if isinstance(o, (list, tuple)):
        return [snapshot(x, memo) for x in o]
    if isinstance(o, (set, frozenset)):
        return {"__set__": sorted(json.dumps(snapshot(x, memo), sort_keys=True, default=str) for x in o)}
    if isinstance(o, dict):
        d = {"__order__": [repr(k) for k in o]}
        for k, v in o.items():
            d[repr(k)] = snapshot(v, memo)
        if type(o) is not dict:
            d["__class__"] = type(o).__name__
        return d
    if id(o) in memo:
        return {"__ref__": memo[id(o)]}
    memo[id(o)] = len(memo)
    if hasattr(o, "__dict__"):
        d = {"__class__": type(o).__name__}
        for k in sorted(vars(o)):
            if k in IGNORED_FIELDS:
                continue
            d[k] = snapshot(vars(o)[k], memo)
        return d
    return {"__repr__": repr(o)}


def ambient_state():
    """process-wide state an export could leave behind: arithmetic context, locale, working directory, environment, interpreter
    limits, warning/logging switches, and every plain-data global of the canmatrix modules (module-level tables and caches)"""
    import locale
    import logging
    import sys
    import types
    import warnings
    ctx = decimal.getcontext()
    st = dict(decimal=dict(prec=ctx.prec, rounding=ctx.rounding, Emin=ctx.Emin, Emax=ctx.Emax, capitals=ctx.capitals, clamp=ctx.clamp,
                           traps=sorted(str(k) for k, v in ctx.traps.items() if v)),
              locale=[str(locale.getlocale(c)) for c in (locale.LC_NUMERIC, locale.LC_CTYPE, locale.LC_TIME)],
              cwd=os.getcwd(), environ=digest(dict(os.environ)), recursion=sys.getrecursionlimit(), sys_path=digest(list(sys.path)),
              warnings=len(warnings.filters), logging=[logging.root.level, logging.root.manager.disable],
              default_encoding=sys.getdefaultencoding())
    mods = {}
    for name in sorted(sys.modules):
        if name == "canmatrix" or name.startswith("canmatrix."):
            m = sys.modules[name]
            g = {}
            for k, v in sorted(vars(m).items()):
                if k.startswith("__") or isinstance(v, (types.ModuleType, types.FunctionType, types.BuiltinFunctionType, type, logging.Logger)):
                    continue
                if isinstance(v, (bool, int, float, str, bytes, decimal.Decimal, list, tuple, dict, set, frozenset)) or v is None:
                    g[k] = digest(snapshot(v))
            mods[name] = g
    st["canmatrix_module_globals"] = mods
    return st


def reference_matrix(C):
    """a small fixed matrix with values at the edges; how it decodes and exports must not depend on what was exported before"""
    db = C.CanMatrix()
    db.add_ecu(C.Ecu("RefA"))
    fr = C.Frame("RefBig", arbitration_id=C.ArbitrationId(0x7A0, False), size=8)
    s = C.Signal("RefU64", start_bit=0, size=64, is_little_endian=True, is_signed=False)
    s.min, s.max = decimal.Decimal(0), decimal.Decimal(2 ** 64 - 1)
    s.initial_value = decimal.Decimal(12345678901234567890)
    fr.add_signal(s)
    fr.add_transmitter("RefA")
    db.add_frame(fr)
    fr = C.Frame("RefScaled", arbitration_id=C.ArbitrationId(0x7A1, False), size=8)
    a = C.Signal("RefF32", start_bit=0, size=32, is_little_endian=True, is_signed=False, is_float=True, factor=decimal.Decimal(3))
    a.min, a.max = decimal.Decimal(-1000), decimal.Decimal(1000)
    a.initial_value = decimal.Decimal(1)
    b = C.Signal("RefThird", start_bit=32, size=32, is_little_endian=True, is_signed=False, factor=decimal.Decimal("0.333333333333333333333"),
                 offset=decimal.Decimal("-0.000000000000000000001"))
    b.min, b.max = decimal.Decimal(-1), decimal.Decimal(2 ** 32)
    fr.add_signal(a)
    fr.add_signal(b)
    db.add_frame(fr)
    return db


def behaviour_probe(C, F):
    """decode, scaling API and a few exports of a FRESHLY BUILT reference matrix, as one digest-able value"""
    db = reference_matrix(C)
    out = []
    for fr in db.frames:
        for p in (bytes([0xFF] * 8), bytes(range(1, 9))):
            out.append([[k, str(v.raw_value), str(v.phys_value)] for k, v in fr.decode(p).items()])
    big = db.frames[0].signals[0]
    third = db.frames[1].signals[1]
    out.append([str(big.raw2phys(2 ** 64 - 1)), str(big.phys2raw(decimal.Decimal(2 ** 64 - 1))), str(third.raw2phys(2 ** 32 - 1)),
                str(third.phys2raw(decimal.Decimal("1431655764.999999999998568344235")))])
    n = C.Signal("Fresh", size=64, is_signed=False)
    out.append([str(n.calc_min()), str(n.calc_max()), str(decimal.Decimal(1) / decimal.Decimal(3))])
    saved = decimal.getcontext().copy()
    try:
        for w in ("dbc", "json_all", "sym"):
            r = try_export(F, db, w)
            out.append([w, r[0], hashlib.sha256(r[1]).hexdigest()[:16] if r[0] == "ok" else r[1]])
    finally:
        decimal.setcontext(saved)      # the probe's own exports must not be what the next probe sees
    return out


def state(db, base_seed, idx):
    """what 'the matrix is unchanged' is judged on"""
    return dict(normal_form=matgen.normal_form(db), deep=snapshot(db), decode=decode_all(db, base_seed, idx))


def digest(x):
    return hashlib.sha256(json.dumps(x, sort_keys=True, default=str).encode()).hexdigest()[:20]


def modelled_fields(db):
    """the fields coq/model/ExportEffects.v speaks about: per frame (name, transmitters, receivers, [signal name, receivers])"""
    return [dict(name=f.name, transmitters=list(f.transmitters), receivers=list(f.receivers),
                 signals=[[s.name, list(s.receivers)] for s in f.signals]) for f in db.frames]
