"""C15: independent KCD writer (Kayak CAN definition).  The repository ships no Definition.xsd; the element/attribute set and the
documented defaults follow the schema as Kayak publishes it (and as the shipped tests/files/kcd/test.kcd uses it):
  NetworkDefinition > Document, Node(id,name)*, Bus(name) > Message(id hex, name, length default "auto", format default "standard")
  Message > Notes?, Producer(NodeRef id)?, Multiplex(name,offset,length)* > MuxGroup(count) > Signal*, Signal*
  Signal(name, offset, length default 1, endianess default "little") > Notes?, Consumer(NodeRef)?, Value?, LabelSet(Label name value)?
  Value(type default "unsigned" | signed | single | double, slope default 1, intercept default 0, unit, min, max)
Assumption (DESIGN.md C15): for endianess="big" `offset` is the position of the most significant bit in sequential MSB0 numbering
(reading order of the payload) - what canmatrix's writer emits and what cantools' KCD reader assumes as well.
Lexical choices: xml.* (see xmlw.py); defaults: 'omit' | 'explicit' (attributes that carry the documented default); num.scale (slope,
intercept), num.limit (min, max); omit_full (min/max left out when they span the raw range); msglen: 'explicit' | 'omit' | 'auto'
(the latter two only when the described length is the minimum that holds the signals); idcase upper|lower hex digits;
emptyprod (an empty <Producer/> written for frames without sender); emptyunit (unit="" spelled out); order.signals, order.labels, order.nodes
"""
import random

import xmlw
from xmlw import E
from netdesc import render_number, msb0, desc_bits

CANON = {"defaults": "omit", "num.scale": "plain", "num.limit": "plain", "omit_full": False, "msglen": "explicit", "idcase": "upper",
         "emptyprod": False, "emptyunit": False, "order.signals": "asis", "order.labels": "asis", "order.nodes": "asis"}
ENCODINGS = ["utf-8", "iso-8859-1"]
NS = "http://kayak.2codeornot2code.org/1.0"


def random_lex(rng):
    lex = {}
    def maybe(k, choices, p=0.35):
        if rng.random() < p:
            lex[k] = rng.choice(choices)
    maybe("defaults", ["explicit"], 0.4)
    maybe("num.scale", ["expE", "expe", "plus", "tz", "nz"], 0.5)
    maybe("num.limit", ["expE", "expe", "plus", "tz", "nz"], 0.5)
    maybe("omit_full", [True])
    maybe("msglen", ["omit", "auto"], 0.5)
    maybe("idcase", ["lower"])
    maybe("emptyprod", [True])
    maybe("emptyunit", [True], 0.25)
    for k in ("order.signals", "order.labels", "order.nodes"):
        maybe(k, ["rev", "shuf"], 0.3)
    x = xmlw.xml_random_lex(rng, {})
    lex["order_seed"] = x.pop("order_seed")
    for k, v in x.items():
        lex["xml." + k] = v
    return lex


def render(desc, lex=None, encoding="utf-8"):
    lx = dict(CANON)
    lx.update(lex or {})
    orng = random.Random(lx.get("order_seed", 0))
    explicit = lx["defaults"] == "explicit"

    def order(mode, items):
        items = list(items)
        if mode == "rev":
            items.reverse()
        elif mode == "shuf":
            orng.shuffle(items)
        return items
    root = E("NetworkDefinition", [("xmlns", NS), ("xmlns:xsi", "http://www.w3.org/2001/XMLSchema-instance"),
                                   ("xsi:schemaLocation", "Definition.xsd")])
    root.add(E("Document", [("name", "C15"), ("version", "1.0"), ("author", "independent writer")], text="network description"))
    node_id = {}
    nodes = []
    for i, e in enumerate(desc["ecus"]):
        node_id[e["name"]] = str(i + 1)
        nodes.append(E("Node", [("id", str(i + 1)), ("name", e["name"])]))
    root.add(*order(lx["order.nodes"], nodes))

    def signal_el(sg, tag="Signal"):
        off = sg["start"] if sg["byte_order"] == "intel" else msb0(sg["start"])
        a = [("name", sg["name"]), ("offset", str(off))]
        if sg["width"] != 1 or explicit:
            a.append(("length", str(sg["width"])))
        if sg["byte_order"] == "motorola":
            a.append(("endianess", "big"))
        elif explicit:
            a.append(("endianess", "little"))
        el = E(tag, a)
        if sg.get("comment") is not None:
            el.add(E("Notes", text=sg["comment"]))      # "" gives <Notes></Notes>, as the shipped sample has it
        if sg["receivers"]:
            el.add(E("Consumer", children=[E("NodeRef", [("id", node_id[r])]) for r in sg["receivers"]]))
        if tag == "Signal":
            v = []
            if sg["type"] == "float":
                v.append(("type", "single" if sg["width"] == 32 else "double"))
            elif sg["type"] == "signed":
                v.append(("type", "signed"))
            elif explicit:
                v.append(("type", "unsigned"))
            if sg["factor"] != 1 or explicit:
                v.append(("slope", render_number(sg["factor"], lx["num.scale"])))
            if sg["offset"] != 0 or explicit:
                v.append(("intercept", render_number(sg["offset"], lx["num.scale"])))
            if sg["unit"] or lx["emptyunit"]:
                v.append(("unit", sg["unit"]))        # unit="" spelled out
            full = False
            if sg["type"] != "float":
                w = sg["width"]
                lo, hi = (-(1 << (w - 1)), (1 << (w - 1)) - 1) if sg["type"] == "signed" else (0, (1 << w) - 1)
                full = sg["min"] == sg["offset"] + lo * sg["factor"] and sg["max"] == sg["offset"] + hi * sg["factor"]
            if not (full and lx["omit_full"]):
                v.append(("min", render_number(sg["min"], lx["num.limit"])))
                v.append(("max", render_number(sg["max"], lx["num.limit"])))
            if v:
                el.add(E("Value", v))
        if sg["values"]:
            labels = [E("Label", [("name", lab), ("value", str(k))]) for k, lab in sorted(sg["values"].items())]
            el.add(E("LabelSet", children=order(lx["order.labels"], labels)))
        return el

    bus_frames = [("Bus1", desc["frames"])] + [("Bus%d" % (i + 2), b["frames"]) for i, b in enumerate(desc.get("buses", []))]
    for bus_name, frames_of_bus in bus_frames:
      bus = E("Bus", [("name", bus_name)])
      root.add(bus)
      for fr in frames_of_bus:
          hexid = ("0x%X" if lx["idcase"] == "upper" else "0x%x") % fr["id"]
          a = [("id", hexid), ("name", fr["name"])]
          need = max([max(desc_bits(s)) // 8 + 1 for s in fr["signals"]] or [0])
          if lx["msglen"] == "explicit" or need != fr["length"]:
              a.append(("length", str(fr["length"])))
          elif lx["msglen"] == "auto":
              a.append(("length", "auto"))
          if fr["extended"]:
              a.append(("format", "extended"))
          elif explicit:
              a.append(("format", "standard"))
          m = E("Message", a)
          if fr.get("comment") is not None:
              m.add(E("Notes", text=fr["comment"]))
          if fr["senders"]:
              m.add(E("Producer", children=[E("NodeRef", [("id", node_id[s])]) for s in fr["senders"]]))
          elif lx["emptyprod"]:
              m.add(E("Producer"))
          muxer = [s for s in fr["signals"] if s["mux"] and s["mux"]["role"] == "multiplexer"]
          if muxer:
              mx = signal_el(muxer[0], "Multiplex")
              sels = sorted({s["mux"]["selector"] for s in fr["signals"] if s["mux"] and s["mux"]["role"] == "muxed"})
              for sel in sels:
                  grp = [signal_el(s) for s in fr["signals"] if s["mux"] and s["mux"].get("selector") == sel]
                  mx.add(E("MuxGroup", [("count", str(sel))], children=order(lx["order.signals"], grp)))
              m.add(mx)
          m.add(*order(lx["order.signals"], [signal_el(s) for s in fr["signals"] if not s["mux"]]))
          bus.add(m)
    xl = {k[4:]: v for k, v in lx.items() if k.startswith("xml.")}
    xl["order_seed"] = lx.get("order_seed", 0)
    return xmlw.serialise(root, xl, encoding)


def render_with_opts(desc, lex, encoding):
    return render(desc, lex, encoding), {}
