"""C19: one-way exports (Scapy, Wireshark Lua, FIBEX, CSV, Canard JSON) describe the same layout.

SEARCH: generated matrices -> real writer -> independent mini-parser (ast for the generated Python, a line
interpreter for the generated Lua, lxml walk by ID/ID-REF for FIBEX, csv and json modules) -> (a) every recorded
number equals the matrix's, (b) the recorded position read with the tool's convention (transcribed below, printed
into the evidence) selects exactly the signal's payload bits: compared with layouts.bigpos and, on random payloads,
with Frame.decode(payload)[name].raw_value.
TIE: the numbers parsed from real writer output = model/Exports.v *_emit on the same signals (incl. the FIBEX
multiplexer segments, seg_range); the Python transcription of each tool convention = model/Exports.v
*_positions / ws_read (cmd 1901-1921)."""
import ast
import contextlib
import csv as csvmod
import decimal
import io
import json
import re
import struct

import core
import layouts
import matgen

D = decimal.Decimal

LEVEL_NOTE = ("PARTIAL BY DESIGN: the theorems are about the numbers each writer emits for one signal (model/Exports.v) read with the "
              "transcribed tool conventions; the generated text around them (Python/Lua/XML/CSV/JSON syntax, identifiers, lengths, "
              "multiplexer conditions, rendering of factor/offset) is tested on real writer output by independent mini-parsers, not "
              "proved. Scapy, Wireshark and CANard are not installed: their reading conventions are transcriptions (listed under "
              "assumptions) and belong to the trusted base. Wireshark float fields (the writer itself says 'float decoding is corrupt') "
              "are checked for position and width only. FIBEX is read with the convention of canmatrix's own importer; for multiplexed frames the "
              "model keeps the writer's defect (failure classes fibex-mux-segment / fibex-mux-pdu-range, theorem ..._refuted next to ..._partial).")

ASSUMPTIONS = [
    "numbering: LSB0 number n = byte n//8, bit n%8 from the byte's LSB; sequential MSB0 number p = byte p//8, bit 7-p%8; "
    "flip(b) = b - b%8 + 7 - b%8 converts either way; position lists are sequential MSB0, most significant bit first",
    "T-SCAPY (scapy.layers.can.SignalField.getfield; generalised from Scapy's 8 payload bytes to n bytes): fmt[0]=='<': value = "
    "(int.from_bytes(payload,'little') >> start) & (2^size-1); fmt[0]=='>': value = (int.from_bytes(payload,'big') >> (8n - "
    "flip(start) - size)) & (2^size-1) (Scapy's _lookup_table.index(start) is flip(start)); fmt[-1]=='f' float, lower case: "
    "two's complement, upper case unsigned; identifier = bind_layers(... identifier=N[, flags=\"extended\"]); scaling/offset = "
    "the literals as written; ConditionalField(f, lambda p: p.M == v) = field present iff M reads v",
    "T-WIRESHARK (Lua TvbRange:bitfield(off,len)): the len bits starting off bits after the start of the range counted MSB first, as an "
    "unsigned big-endian number; error outside the range; `pdu` = payload, `reversed_pdu` = the dlc payload bytes in reverse order "
    "(do_reverse_pdu in the generated file); the generated if/else is executed as written; identifier = N in `if can_id == N` "
    "(the extended flag is not recorded by this artefact); dlc = the frame's declared length",
    "T-FIBEX: FIBEX reading convention = canmatrix's own importer (fibex.py get_signals_for_pdu; the ASAM text is not available offline): "
    "SIGNAL-INSTANCE/BIT-POSITION (+ start of the PDU it lives in) is handed to set_startbit(bitNumbering=1): Intel = LSB0 number of the "
    "least significant bit, Motorola (IS-HIGH-LOW-BYTE-ORDER true) = LSB0 number of the MOST significant bit (DBC start bit); "
    "CODED-TYPE BASE-DATA-TYPE A_UINT*/A_INT*/A_FLOAT* and BIT-LENGTH; COMPU-RATIONAL-COEFFS: phys = (V0 + V1*raw)/denominator; "
    "FRAME/BYTE-LENGTH; IDENTIFIER-VALUE with attribute EXTENDED-ADDRESSING (default false, as the importer reads it); MULTIPLEXER (not read "
    "by the importer, transcribed by analogy with its PDU-INSTANCE offset): SWITCH has the position/order/length of the selector; a switched or "
    "static PDU starts at its SEGMENT-POSITION: frame position = segment BIT-POSITION + BIT-POSITION, and a signal instance lies inside its "
    "PDU's BYTE-LENGTH; SWITCH-CODE = selector value; the constant cluster elements IS-HIGH-LOW-BIT-ORDER/BIT-COUNTING-POLICY are not interpreted",
    "T-CSV (canmatrix xls/csv column meaning, option xlsMotorolaBitFormat): start = 8*(Signal Byte No. - 1) + Signal Bit No.; Intel: "
    "LSB0 number of the LSB; Motorola: msb = LSB0 number of the MSB, lsb = LSB0 number of the LSB, msbreverse = sequential MSB0 "
    "number of the MSB; Byteorder i/m; 'is signed' s/u; ID = hex digits + 'h', 'xh' for extended; increment column '<factor>  <unit>' "
    "| '<factor> -' | unit alone (factor 1)",
    "T-CANARD (CANard Message.parse_frame / JsonDbParser): signals keyed by start bit; value = (int.from_bytes(payload,'little') >> key) "
    "& (2^bit_length-1); no byte order, no sign, no multiplexing in the format: Motorola signals crossing a byte boundary and "
    "signals sharing a start bit are outside what the format can carry (counted, not alarmed); id = int(text, 0)",
]


def flip(b):
    return b - b % 8 + 7 - b % 8


def bits_at(payload, pos):
    v = 0
    for p in pos:
        v = (v << 1) | ((payload[p // 8] >> (7 - p % 8)) & 1)
    return v


def signed_of(v, size):
    return v - (1 << size) if (v >> (size - 1)) & 1 else v


# ------------------------------------------------------------------------------- tool conventions
def scapy_positions(start, size, big):
    if big:
        return [flip(start) + j for j in range(size)]
    return [flip(start + size - 1 - j) for j in range(size)]


def scapy_value(payload, start, size, fmt):
    n = 8 * len(payload)
    if fmt[0] == "<":
        shift = start
        v = int.from_bytes(payload, "little")
    else:
        shift = n - flip(start) - size
        v = int.from_bytes(payload, "big")
    if shift < 0:
        raise ValueError("field leaves the payload")
    v = (v >> shift) & ((1 << size) - 1)
    if fmt[-1] == "f":
        return ("f", v)
    if fmt[-1].islower():
        v = signed_of(v, size)
    return v


def ws_positions(dlc, rev, off, ln):
    return [(8 * (dlc - 1 - q // 8) + q % 8) if rev else q for q in range(off, off + ln)]


def ws_bitfield(rng_bytes, off, ln):
    n = 8 * len(rng_bytes)
    if off < 0 or ln < 1 or off + ln > n:
        raise ValueError("Range is out of bounds")
    return (int.from_bytes(rng_bytes, "big") >> (n - off - ln)) & ((1 << ln) - 1)


def ws_eval(payload, rec):
    """execute the generated statements of one signal: optional probe + if/else, else the plain add"""
    rng = lambda name: payload if name == "pdu" else payload[::-1]
    if rec["probe"] is not None:
        pr, po, pl = rec["probe"]
        branch = rec["then"] if ws_bitfield(rng(pr), po, pl) == 1 else rec["else"]
    else:
        branch = rec["plain"]
    r, o, l, k = branch
    return ws_bitfield(rng(r), o, l) - k


def fibex_positions(pos, ln, hilo):
    if hilo:
        return [flip(pos) + j for j in range(ln)]
    return [flip(pos + ln - 1 - j) for j in range(ln)]


CSV_OPT = {"msb": 0, "msbreverse": 1, "lsb": 2}


def csv_positions(opt, byte, bit, ln, motorola):
    n = 8 * (byte - 1) + bit
    if not motorola:
        return [flip(n + ln - 1 - j) for j in range(ln)]
    if opt == "msb":
        return [flip(n) + j for j in range(ln)]
    if opt == "msbreverse":
        return [n + j for j in range(ln)]
    return [flip(n) - (ln - 1 - j) for j in range(ln)]


def canard_positions(key, ln):
    return [flip(key + ln - 1 - j) for j in range(ln)]


def canard_value(payload, key, ln):
    return (int.from_bytes(payload, "little") >> key) & ((1 << ln) - 1)


# ------------------------------------------------------------------------------- mini-parsers
class ParseError(Exception):
    pass


def parse_scapy(text):
    """{class name: {'fields': [dict], 'id': int, 'ext': bool}} read with Python's own parser"""
    tree = ast.parse(text)
    out = {}
    seg = lambda node: ast.get_source_segment(text, node)

    def field(call, cond=None):
        if not (isinstance(call, ast.Call) and getattr(call.func, "id", None) == "SignalField"):
            raise ParseError("not a SignalField: " + ast.dump(call)[:80])
        # signature SignalField(name, default, start, size, scaling=1, unit="", offset=0, ndigits=3, fmt="B")
        names = ["name", "default", "start", "size", "scaling", "unit", "offset", "ndigits", "fmt"]
        d = {}
        for n, a in zip(names, call.args):
            d[n] = a
        for kw in call.keywords:
            if kw.arg in d:
                raise ParseError("argument given twice: " + kw.arg)
            d[kw.arg] = kw.value
        lit = lambda k: ast.literal_eval(d[k])
        return dict(name=lit("name"), start=lit("start"), size=lit("size"), fmt=lit("fmt"), unit=lit("unit"),
                    scaling=D(seg(d["scaling"]).replace(" ", "")), offset=D(seg(d["offset"]).replace(" ", "")), cond=cond)

    for node in tree.body:
        if isinstance(node, ast.ClassDef):
            if [getattr(b, "id", None) for b in node.bases] != ["SignalPacket"]:
                raise ParseError("class %s is not a SignalPacket" % node.name)
            fields = []
            for st in node.body:
                if isinstance(st, ast.Assign) and st.targets[0].id == "fields_desc":
                    for el in st.value.elts:
                        if isinstance(el, ast.Call) and getattr(el.func, "id", None) == "ConditionalField":
                            lam = el.args[1]
                            cmpn = lam.body
                            if not (isinstance(lam, ast.Lambda) and isinstance(cmpn, ast.Compare) and isinstance(cmpn.ops[0], ast.Eq)
                                    and isinstance(cmpn.left, ast.Attribute) and cmpn.left.value.id == lam.args.args[0].arg):
                                raise ParseError("condition not understood")
                            fields.append(field(el.args[0], (cmpn.left.attr, ast.literal_eval(cmpn.comparators[0]))))
                        else:
                            fields.append(field(el))
            if node.name in out:
                raise ParseError("class defined twice: " + node.name)
            out[node.name] = dict(fields=fields, id=None, ext=None)
        elif isinstance(node, ast.Expr) and isinstance(node.value, ast.Call) and getattr(node.value.func, "id", None) == "bind_layers":
            c = node.value
            if c.args[0].id != "SignalHeader":
                raise ParseError("bind_layers lower layer")
            kw = {k.arg: ast.literal_eval(k.value) for k in c.keywords}
            cls = out[c.args[1].id]
            if cls["id"] is not None:
                raise ParseError("bound twice")
            cls["id"] = kw["identifier"]
            cls["ext"] = kw.get("flags") == "extended"
            if set(kw) - {"identifier", "flags"} or kw.get("flags", "extended") != "extended":
                raise ParseError("bind_layers arguments not understood: %r" % kw)
    return out


# ---- the generated Lua is read as Lua: a lexer (comments, white space, decimal/hex numerals, strings) and a parser for the statement
# forms a dissector script uses; nothing depends on how the writer spells a number or lays out a line
LUA_TOKEN = re.compile(r"""
    (?P<ws>\s+) | (?P<lcom>--\[(?P<eq>=*)\[.*?\](?P=eq)\]) | (?P<com>--[^\n]*) |
    (?P<num>0[xX][0-9a-fA-F]+ | (?:\d+\.?\d*|\.\d+)(?:[eE][+-]?\d+)?) |
    (?P<name>[A-Za-z_]\w*) | (?P<str>"(?:\\.|[^"\\\n])*" | '(?:\\.|[^'\\\n])*') |
    (?P<op>==|~=|<=|>=|\.\.\.|\.\.|::|[-+*/%^\#<>=(){}\[\];:,.])
    """, re.X | re.S)
LUA_KEYWORDS = {"and", "break", "do", "else", "elseif", "end", "false", "for", "function", "if", "in", "local", "nil", "not", "or", "repeat",
                "return", "then", "true", "until", "while"}


def lua_tokens(text):
    out, i = [], 0
    while i < len(text):
        m = LUA_TOKEN.match(text, i)
        if not m:
            raise ParseError("Lua: cannot tokenise at %r" % text[i:i + 30])
        i = m.end()
        k = m.lastgroup
        if k in ("ws", "com", "lcom", "eq"):
            continue
        s = m.group(k)
        if k == "num":
            v = int(s, 16) if s[:2] in ("0x", "0X") else float(s)
            if v != int(v):
                raise ParseError("Lua: non-integral numeral " + s)
            out.append(("num", int(v)))
        elif k == "name":
            out.append(("kw", s) if s in LUA_KEYWORDS else ("name", s))
        elif k == "str":
            out.append(("str", s[1:-1]))
        else:
            out.append(("op", s))
    return out


class LuaParser:
    """statements -> tuples: ('if', [(cond, block)], else_block|None), ('local', names, exprs), ('assign', targets, exprs), ('call', expr),
    ('function', name_expr, params, block), ('fornum', var, exprs, block), ('return', exprs), ('do', block).
    expressions: ('num', v) ('str', s) ('name', n) ('const', kw) ('index', obj, key) ('call', f, args) ('method', obj, name, args)
    ('bin', op, l, r) ('un', op, e) ('table', items) ('func', params, block)"""
    BIN = [("or",), ("and",), ("<", ">", "<=", ">=", "~=", "=="), ("..",), ("+", "-"), ("*", "/", "%")]

    def __init__(self, toks):
        self.t, self.i = toks, 0

    def peek(self, k=0):
        return self.t[self.i + k] if self.i + k < len(self.t) else ("eof", None)

    def at(self, kind, val=None):
        p = self.peek()
        return p[0] == kind and (val is None or p[1] == val)

    def take(self, kind, val=None):
        if not self.at(kind, val):
            raise ParseError("Lua: expected %s %s, found %r" % (kind, val or "", self.peek()))
        self.i += 1
        return self.t[self.i - 1][1]

    def block(self):
        out = []
        while not (self.at("eof") or (self.peek()[0] == "kw" and self.peek()[1] in ("end", "else", "elseif", "until"))):
            if self.at("op", ";"):
                self.i += 1
                continue
            out.append(self.statement())
            if out[-1][0] == "return":
                break
        return out

    def statement(self):
        if self.at("kw", "if"):
            self.i += 1
            arms, els = [], None
            c = self.expr()
            self.take("kw", "then")
            arms.append((c, self.block()))
            while self.at("kw", "elseif"):
                self.i += 1
                c = self.expr()
                self.take("kw", "then")
                arms.append((c, self.block()))
            if self.at("kw", "else"):
                self.i += 1
                els = self.block()
            self.take("kw", "end")
            return ("if", arms, els)
        if self.at("kw", "local"):
            self.i += 1
            if self.at("kw", "function"):
                self.i += 1
                n = self.take("name")
                return ("function", ("name", n)) + self.funcbody()
            names = [self.take("name")]
            while self.at("op", ","):
                self.i += 1
                names.append(self.take("name"))
            exprs = []
            if self.at("op", "="):
                self.i += 1
                exprs = self.exprlist()
            return ("local", names, exprs)
        if self.at("kw", "function"):
            self.i += 1
            n = ("name", self.take("name"))
            while self.at("op", ".") or self.at("op", ":"):
                self.i += 1
                n = ("index", n, self.take("name"))
            return ("function", n) + self.funcbody()
        if self.at("kw", "for"):
            self.i += 1
            v = self.take("name")
            self.take("op", "=")
            ex = self.exprlist()
            self.take("kw", "do")
            b = self.block()
            self.take("kw", "end")
            return ("fornum", v, ex, b)
        if self.at("kw", "do"):
            self.i += 1
            b = self.block()
            self.take("kw", "end")
            return ("do", b)
        if self.at("kw", "return"):
            self.i += 1
            ex = [] if (self.at("eof") or self.peek()[0] == "kw" and self.peek()[1] in ("end", "else", "elseif")) else self.exprlist()
            return ("return", ex)
        e = self.suffixed()
        if self.at("op", "=") or self.at("op", ","):
            targets = [e]
            while self.at("op", ","):
                self.i += 1
                targets.append(self.suffixed())
            self.take("op", "=")
            return ("assign", targets, self.exprlist())
        if e[0] not in ("call", "method"):
            raise ParseError("Lua: statement is neither assignment nor call: %r" % (e,))
        return ("call", e)

    def funcbody(self):
        self.take("op", "(")
        params = []
        while not self.at("op", ")"):
            params.append(self.take("name"))
            if self.at("op", ","):
                self.i += 1
        self.take("op", ")")
        b = self.block()
        self.take("kw", "end")
        return (params, b)

    def exprlist(self):
        out = [self.expr()]
        while self.at("op", ","):
            self.i += 1
            out.append(self.expr())
        return out

    def expr(self, level=0):
        if level == len(self.BIN):
            return self.unary()
        l = self.expr(level + 1)
        while self.peek()[0] in ("op", "kw") and self.peek()[1] in self.BIN[level]:
            op = self.peek()[1]
            self.i += 1
            l = ("bin", op, l, self.expr(level + 1))
        return l

    def unary(self):
        if (self.peek()[0] == "op" and self.peek()[1] in ("-", "#")) or self.at("kw", "not"):
            op = self.peek()[1]
            self.i += 1
            return ("un", op, self.unary())
        return self.suffixed()

    def args(self):
        if self.at("str"):
            return [("str", self.take("str"))]
        if self.at("op", "{"):
            return [self.table()]
        self.take("op", "(")
        a = [] if self.at("op", ")") else self.exprlist()
        self.take("op", ")")
        return a

    def table(self):
        self.take("op", "{")
        items = []
        while not self.at("op", "}"):
            if self.at("name") and self.peek(1) == ("op", "="):
                k = self.take("name")
                self.i += 1
                items.append((k, self.expr()))
            elif self.at("op", "["):                      # [expr] = value
                self.i += 1
                k = self.expr()
                self.take("op", "]")
                self.take("op", "=")
                items.append((k, self.expr()))
            else:
                items.append((None, self.expr()))
            if self.at("op", ",") or self.at("op", ";"):
                self.i += 1
        self.take("op", "}")
        return ("table", items)

    def suffixed(self):
        p = self.peek()
        if p[0] == "num":
            self.i += 1
            return ("num", p[1])
        if p[0] == "str":
            self.i += 1
            return ("str", p[1])
        if p[0] == "kw" and p[1] in ("nil", "true", "false"):
            self.i += 1
            return ("const", p[1])
        if p[0] == "kw" and p[1] == "function":
            self.i += 1
            return ("func",) + self.funcbody()
        if self.at("op", "{"):
            return self.table()
        if self.at("op", "("):
            self.i += 1
            e = self.expr()
            self.take("op", ")")
        else:
            e = ("name", self.take("name"))
        while True:
            if self.at("op", "."):
                self.i += 1
                e = ("index", e, self.take("name"))
            elif self.at("op", "["):
                self.i += 1
                k = self.expr()
                self.take("op", "]")
                e = ("index", e, k)
            elif self.at("op", ":"):
                self.i += 1
                n = self.take("name")
                e = ("method", e, n, self.args())
            elif self.at("op", "(") or self.at("str") or self.at("op", "{"):
                e = ("call", e, self.args())
            else:
                return e


def lua_int(e):
    """integer constant expression"""
    if e[0] == "num":
        return e[1]
    if e[0] == "un" and e[1] == "-":
        return -lua_int(e[2])
    if e[0] == "bin" and e[1] in ("+", "-", "*"):
        l, r = lua_int(e[2]), lua_int(e[3])
        return l + r if e[1] == "+" else (l - r if e[1] == "-" else l * r)
    raise ParseError("Lua: not an integer constant: %r" % (e,))


# do_reverse_pdu as the convention T-WIRESHARK assumes it (compared as a syntax tree: layout, comments and numeral spelling do not matter)
REVERSE_HELPER = """function do_reverse_pdu(pdu, length)
    local rev=ByteArray.new()
    rev:set_size(length)
    for i=0,length-1 do
        rev:set_index(length-i-1, pdu(i,1):uint())
    end
    return ByteArray.tvb(rev, "my Tvb"):range(0,length)
end"""


def parse_lua(text):
    """[{'id': int, 'name': frame, 'muxer': (range,off,len)|None, 'signals': {name: rec}}], rec as used by ws_eval plus 'mux'"""
    chunk = LuaParser(lua_tokens(text)).block()
    funcs = {s[1][1]: s for s in chunk if s[0] == "function" and s[1][0] == "name"}
    if "add_frame_info" not in funcs or funcs["add_frame_info"][2] != ["can_id", "pdu", "dlc", "framesubtree"]:
        raise ParseError("add_frame_info(can_id, pdu, dlc, framesubtree) not found")
    # the reversing helper must be the one the convention assumes
    want = LuaParser(lua_tokens(REVERSE_HELPER)).block()[0]
    canon = lambda s: re.sub(r"\('str', '[^']*'\)", "S", repr(s))       # the Tvb's display label is free text
    got = funcs.get("do_reverse_pdu")
    if got is None or canon(got) != canon(want):
        raise ParseError("do_reverse_pdu differs from the transcription")
    floats = set()
    for s in chunk:
        if s[0] in ("assign", "local") and len(s[2]) == 1 and s[2][0][0] == "call" and s[2][0][1] == ("index", ("name", "ProtoField"), "float"):
            tgt = s[1][0]
            floats.add(tgt if isinstance(tgt, str) else tgt[1])
    body = funcs["add_frame_info"][3]
    if not body or body[0] != ("assign", [("name", "reversed_pdu")], [("call", ("name", "do_reverse_pdu"), [("name", "pdu"), ("name", "dlc")])]):
        raise ParseError("reversed_pdu is not do_reverse_pdu(pdu, dlc)")

    def bitfield(e):
        if e[0] == "method" and e[2] == "bitfield" and e[1][0] == "name" and e[1][1] in ("pdu", "reversed_pdu") and len(e[3]) <= 2:
            a = [lua_int(x) for x in e[3]]
            return (e[1][1], a[0] if a else 0, a[1] if len(a) > 1 else 1)      # TvbRange:bitfield([position = 0], [length = 1])
        raise ParseError("Lua: not a bitfield on pdu/reversed_pdu: %r" % (e,))

    def value_expr(e):
        """bitfield [- constant] -> (range, off, len, constant)"""
        if e[0] == "bin" and e[1] == "-":
            return bitfield(e[2]) + (lua_int(e[3]),)
        if e[0] == "bin" and e[1] == "+":
            return bitfield(e[2]) + (-lua_int(e[3]),)
        return bitfield(e) + (0,)

    def eq_const(cond, var):
        """cond is `var == N` or `N == var` -> N"""
        if cond[0] == "bin" and cond[1] == "==":
            for x, y in ((cond[2], cond[3]), (cond[3], cond[2])):
                if x == ("name", var):
                    return lua_int(y)
        raise ParseError("Lua: condition is not %s == <number>: %r" % (var, cond))

    def tree_add(st):
        """my_frame_tree:add(FIELD, value) -> (FIELD, value tuple)"""
        if st[0] == "call" and st[1][0] == "method" and st[1][1] == ("name", "my_frame_tree") and st[1][2] == "add" and len(st[1][3]) == 2 \
                and st[1][3][0][0] == "name":
            return st[1][3][0][1], value_expr(st[1][3][1])
        raise ParseError("Lua: statement not understood: %r" % (st,))

    frames = []
    for st in body[1:]:
        if st[0] != "if" or len(st[1]) != 1 or st[2] is not None:
            raise ParseError("statement outside a frame block: %r" % (st[:1],))
        cur = dict(id=eq_const(st[1][0][0], "can_id"), name=None, muxer=None, signals={}, floats=floats)
        frames.append(cur)
        state = dict(probe=None)

        def place(fld, rec):
            if cur["name"] is None or not fld.startswith(cur["name"] + "_"):
                raise ParseError("field %s does not belong to frame %s" % (fld, cur["name"]))
            sname = fld[len(cur["name"]) + 1:]
            if sname in cur["signals"]:
                raise ParseError("signal dissected twice: " + sname)
            rec["is_float_field"] = fld in floats
            cur["signals"][sname] = rec

        def walk(block, mux):
            for s in block:
                if s[0] == "local" and s[1] == ["my_frame_tree"]:
                    e = s[2][0] if s[2] else None
                    if not (e and e[0] == "method" and e[1] == ("name", "framesubtree") and e[2] == "add" and e[3] and e[3][0][0] == "name"):
                        raise ParseError("my_frame_tree is not framesubtree:add(<Proto>, ...)")
                    cur["name"] = e[3][0][1]
                elif s[0] == "local" and s[1] == ["is_signed"] and not s[2]:
                    pass
                elif s[0] == "local" and s[1] == ["muxer"] and len(s[2]) == 1:
                    cur["muxer"] = bitfield(s[2][0])
                elif s[0] == "assign" and s[1] == [("name", "is_signed")] and len(s[2]) == 1:
                    state["probe"] = bitfield(s[2][0])
                elif s[0] == "if" and len(s[1]) == 1 and s[1][0][0][0] == "bin" and ("name", "muxer") in s[1][0][0][2:]:
                    if mux is not None or s[2] is not None:
                        raise ParseError("nested or two-armed muxer condition")
                    walk(s[1][0][1], eq_const(s[1][0][0], "muxer"))
                elif s[0] == "if" and len(s[1]) == 1 and s[1][0][0][0] == "bin" and ("name", "is_signed") in s[1][0][0][2:]:
                    if eq_const(s[1][0][0], "is_signed") != 1 or state["probe"] is None or s[2] is None or len(s[1][0][1]) != 1 or len(s[2]) != 1:
                        raise ParseError("sign block not understood")
                    (fa, va), (fb, vb) = tree_add(s[1][0][1][0]), tree_add(s[2][0])
                    if fa != fb:
                        raise ParseError("sign block adds two different fields")
                    place(fa, dict(probe=state["probe"], then=va, **{"else": vb}, plain=None, mux=mux))
                    state["probe"] = None
                else:
                    fld, v = tree_add(s)
                    place(fld, dict(probe=None, then=None, **{"else": None}, plain=v, mux=mux))
        walk(st[1][0][1], None)
    return frames


NS = {"fx": "http://www.asam.net/xml/fbx", "ho": "http://www.asam.net/xml", "can": "http://www.asam.net/xml/fbx/can"}
HO = "{%s}" % NS["ho"]


def xs_bool(text):
    """xs:boolean: true/1, false/0, surrounding white space allowed"""
    v = (text or "").strip()
    if v in ("true", "1"):
        return True
    if v in ("false", "0"):
        return False
    raise ParseError("not an xs:boolean: %r" % text)


def parse_fibex(data):
    """[{'id','ext','length','pdu_length','name','signals':{name: rec},'switch': rec|None}] by following ID / ID-REF only"""
    import lxml.etree
    root = lxml.etree.fromstring(data)
    ids = {}          # (local tag name, ID) -> element: the writer reuses "PDU_<frame>" for the PDU-TRIGGERING and for the PDU
    dup_ids = set()
    all_ids = set()
    for el in root.iter():
        if el.get("ID") is not None:
            key = (lxml.etree.QName(el).localname, el.get("ID"))
            if key in ids and key[0] in ("FRAME", "PDU", "SIGNAL", "CODING"):      # the elements this parser follows
                raise ParseError("duplicate ID %s on two %s elements" % (key[1], key[0]))
            if el.get("ID") in all_ids:
                dup_ids.add(el.get("ID"))
            all_ids.add(el.get("ID"))
            ids[key] = el
    X = lambda el, path: el.xpath(path, namespaces=NS)

    def one(el, path):
        r = X(el, path)
        if len(r) != 1:
            raise ParseError("%d matches for %s under %s" % (len(r), path, el.tag))
        return r[0]

    def ref(el, path):
        # X-REF points to an element named X
        r = one(el, path).get("ID-REF")
        want = path.split(":")[-1][:-4]
        if (want, r) not in ids:
            raise ParseError("dangling %s %s" % (path, r))
        return ids[(want, r)]

    def signal_instance(si, base):
        sig = ref(si, "fx:SIGNAL-REF")
        cod = ref(sig, "fx:CODING-REF")
        ct = one(cod, "ho:CODED-TYPE")
        lin = [c for c in X(cod, "ho:COMPU-METHODS/ho:COMPU-METHOD") if one(c, "ho:CATEGORY").text == "LINEAR"]
        if len(lin) != 1:
            raise ParseError("LINEAR compu methods: %d" % len(lin))
        coeffs = one(lin[0], "ho:COMPU-INTERNAL-TO-PHYS/ho:COMPU-SCALES/ho:COMPU-SCALE/ho:COMPU-RATIONAL-COEFFS")
        num = [D(v.text) for v in X(coeffs, "ho:COMPU-NUMERATOR/ho:V")]
        den = [D(v.text) for v in X(coeffs, "ho:COMPU-DENOMINATOR/ho:V")]
        if len(num) != 2 or len(den) != 1:
            raise ParseError("rational coefficients not linear")
        return dict(name=one(sig, "ho:SHORT-NAME").text, pos=int(one(si, "fx:BIT-POSITION").text) + base, rel=int(one(si, "fx:BIT-POSITION").text),
                    hilo=xs_bool(one(si, "fx:IS-HIGH-LOW-BYTE-ORDER").text), size=int(one(ct, "ho:BIT-LENGTH").text),
                    type=ct.get(HO + "BASE-DATA-TYPE"), offset=num[0] / den[0], factor=num[1] / den[0], mux=None)

    frames = []
    for ft in X(root, "//fx:FRAME-TRIGGERING"):
        idv = one(ft, "fx:IDENTIFIER/fx:IDENTIFIER-VALUE")
        fr = ref(ft, "fx:FRAME-REF")
        pin = one(fr, "fx:PDU-INSTANCES/fx:PDU-INSTANCE")
        if int(one(pin, "fx:BIT-POSITION").text) != 0:
            raise ParseError("PDU not at bit 0")
        pdu = ref(pin, "fx:PDU-REF")
        rec = dict(id=int(idv.text), ext=xs_bool(idv.get("EXTENDED-ADDRESSING", "false")), length=int(one(fr, "fx:BYTE-LENGTH").text),
                   pdu_length=int(one(pdu, "fx:BYTE-LENGTH").text), name=one(fr, "ho:SHORT-NAME").text, signals={}, switch=None, segments=[])

        def add(r):
            if r["name"] in rec["signals"]:
                raise ParseError("signal placed twice: " + r["name"])
            rec["signals"][r["name"]] = r
        muxs = X(pdu, "fx:MULTIPLEXER")
        if muxs:
            mx = muxs[0]
            sw = one(mx, "fx:SWITCH")
            rec["switch"] = dict(name=one(sw, "ho:SHORT-NAME").text, pos=int(one(sw, "fx:BIT-POSITION").text),
                                 hilo=xs_bool(one(sw, "fx:IS-HIGH-LOW-BYTE-ORDER").text), size=int(one(sw, "ho:BIT-LENGTH").text))
            for part, inst in (("fx:DYNAMIC-PART", "fx:SWITCHED-PDU-INSTANCES/fx:SWITCHED-PDU-INSTANCE"), ("fx:STATIC-PART", "fx:STATIC-PDU-INSTANCE")):
                for p in X(mx, part):
                    seg = one(p, "fx:SEGMENT-POSITIONS/fx:SEGMENT-POSITION")
                    base = int(one(seg, "fx:BIT-POSITION").text)
                    seglen = int(one(seg, "ho:BIT-LENGTH").text)
                    rec["segments"].append((part[3:], base, seglen, xs_bool(one(seg, "fx:IS-HIGH-LOW-BYTE-ORDER").text)))
                    for pi in X(p, inst):
                        sub = ref(pi, "fx:PDU-REF")
                        code = X(pi, "fx:SWITCH-CODE")
                        for si in X(sub, "fx:SIGNAL-INSTANCES/fx:SIGNAL-INSTANCE"):
                            r = signal_instance(si, base)
                            r["mux"] = int(code[0].text) if code else None
                            r["segment"] = (base, seglen)
                            r["part"] = part[3:]
                            r["pdu_bytes"] = int(one(sub, "fx:BYTE-LENGTH").text)
                            add(r)
        else:
            for si in X(pdu, "fx:SIGNAL-INSTANCES/fx:SIGNAL-INSTANCE"):
                add(signal_instance(si, 0))
        rec["duplicate_ids"] = len(dup_ids)
        frames.append(rec)
    return frames


def parse_csv(data, delimiter):
    rows = list(csvmod.reader(io.StringIO(data.decode("utf8")), delimiter=delimiter))
    head = rows[0]
    col = {h: i for i, h in enumerate(head)}
    need = ["ID", "Frame Name", "Signal Byte No.", "Signal Bit No.", "Signal Name", "Signal Length [Bit]", "Byteorder", "is signed",
            "Function / Increment Unit", "Signal Function"]
    for n in need:
        if n not in col:
            raise ParseError("column missing: " + n)
    frames = {}
    for r in rows[1:]:
        g = lambda n: r[col[n]]
        idt = g("ID").strip()
        mm = re.fullmatch(r"([0-9A-Fa-f]+)(x?)h", idt)
        if not mm:
            raise ParseError("ID cell not understood: %r" % idt)
        fr = frames.setdefault(g("Frame Name"), dict(id=int(mm.group(1), 16), ext=mm.group(2) == "x", signals={}))
        if (fr["id"], fr["ext"]) != (int(mm.group(1), 16), mm.group(2) == "x"):
            raise ParseError("frame with two identifiers")
        inc = g("Function / Increment Unit")
        mm = re.fullmatch(r"(\S+)\s+(.+)", inc.strip())      # "<factor> <unit>" or "<factor> -" (the xls reader splits at the first blank)
        factor = None
        if mm:
            try:
                factor = D(mm.group(1))
            except decimal.InvalidOperation:
                factor = None
        if factor is None:
            factor = D(1)      # the column holds the unit alone (or nothing): factor 1
        fun = g("Signal Function")
        mux = None
        mm = re.match(r"Mode (-?\d+):", fun)
        if mm:
            mux = int(mm.group(1))
        rec = dict(byte=int(g("Signal Byte No.")), bit=int(g("Signal Bit No.")), size=int(g("Signal Length [Bit]")), order=g("Byteorder"),
                   sign=g("is signed"), factor=factor, mux=mux, is_muxer=fun.startswith("Mode Signal:"))
        old = fr["signals"].get(g("Signal Name"))
        if old is not None and old != rec:      # one row per value-table entry: all rows of a signal must agree
            raise ParseError("rows of one signal disagree: " + g("Signal Name"))
        fr["signals"][g("Signal Name")] = rec
    return frames


def parse_canard(data):
    js = json.loads(data.decode("utf8"), parse_float=D)
    frames = {}
    for m in js["messages"]:
        if m["name"] in frames:
            raise ParseError("message twice")
        sigs = {}
        for k, s in m["signals"].items():
            if s["name"] in sigs:
                raise ParseError("signal twice")
            sigs[s["name"]] = dict(key=int(k), size=int(s["bit_length"]), factor=D(str(s["factor"])), offset=D(str(s["offset"])))
        frames[m["name"]] = dict(id=int(m["id"], 0), signals=sigs)
    return frames


# ------------------------------------------------------------------------------- the check
class NamedBytesIO(io.BytesIO):
    name = "c19export.xml"


def dump(cm, db, fmt, **opt):
    out = NamedBytesIO()
    with contextlib.redirect_stdout(io.StringIO()):
        cm.formats.dump(db, out, fmt, **opt)
    return out.getvalue()


def spec_msf(s):
    """the signal's payload bits, sequential MSB0 numbering, most significant first (layouts.bigpos is the oracle)"""
    p = layouts.bigpos(bool(s.is_little_endian), int(s.start_bit), int(s.size))
    return p[::-1] if s.is_little_endian else p


def sig_group(s):
    return [int(s.start_bit), int(s.size), int(bool(s.is_little_endian)), int(bool(s.is_signed)), int(bool(s.is_float))]


def float_pattern(x, size):
    return int.from_bytes(struct.pack(">f" if size == 32 else ">d", x), "big")


def same_float(pattern, x, size):
    """impl's decoded float vs the field's bit pattern (all NaNs identified)"""
    y = struct.unpack(">f" if size == 32 else ">d", pattern.to_bytes(size // 8, "big"))[0]
    return (x != x and y != y) or float_pattern(x, size) == float_pattern(y, size)


def run(chk):
    chk.rule = ("per artefact (scapy, wireshark, fibex, csv x {msb,msbreverse,lsb} x {',',';'}, canard x complete CLI option vectors "
                "(xls/json Motorola notation, jsonNativeTypes, jsonExportAll, xlsValuesInSeperateLines); every fourth matrix of the other artefacts is "
                "written again under a vector of options that belong to other outputs and must come out byte-identical): seeded matrices from matgen "
                "(1..6 frames, lengths 1..64, standard and extended ids with unique id numbers - every third matrix with edge-of-range identifiers: extended frames whose number fits 11 bits, 0, 0x7FF, 0x800, 2^29-1 -, Intel/Motorola/mixed, signed/unsigned/"
                "float32/64, factors/offsets of up to 4 (csv: 6) and, in a separate stream, 9 significant digits, simple multiplexing in about "
                "a third of the frames); every signal is one case: recorded numbers vs the matrix, tool-convention positions vs "
                "layouts.bigpos, tool-convention value vs Frame.decode on 3 random payloads (selector forced for multiplexed groups). "
                "non-trivial = the signal crosses a byte boundary, or is Motorola, or is signed with its top bit set in a payload, "
                "or the frame is longer than 8 bytes; distinct by (artefact, options, frame length, signal placement and type)")
    chk.assumptions += ASSUMPTIONS
    chk.notes += [
        "recorded per artefact (everything listed is compared with the matrix): scapy: id, extended flag, start, size, byte order, sign/float, "
        "scaling, offset, unit, multiplexer condition; wireshark: id number, range (byte order), offset, length, sign probe + constant, float field "
        "type, multiplexer read and condition; fibex: id, EXTENDED-ADDRESSING, FRAME and PDU BYTE-LENGTH, BIT-POSITION, byte order, BIT-LENGTH, "
        "BASE-DATA-TYPE, rational coefficients, SWITCH, SEGMENT-POSITIONs, SWITCH-CODE; csv: id + extended marker, byte/bit, length, byte order, sign, "
        "increment (factor), mode (multiplexer) text; canard: id, key, bit_length, factor, offset. Frame length is not recorded by scapy, wireshark, "
        "csv and canard; offset is not recorded by wireshark and csv; byte order and sign are not recorded by canard.",
        "envelope: id numbers unique across standard/extended frames (wireshark, csv and canard key frames by the number alone; csv.dump keeps one frame "
        "per number); Canard: Motorola signals crossing a byte boundary and signals sharing a start bit cannot be carried by the format and are counted "
        "under 'canard:outside-format', not alarmed; Scapy itself reads 8 payload bytes and 32-bit floats only (counted under 'scapy:observation').",
        "observed, outside this property: fibex.dump reuses XML IDs (PDU_<frame> on PDU-TRIGGERING and PDU, input_included_pdu_<frame> once per receiving "
        "ECU) and writes dangling SIGNAL-REFs in FUNCTION output ports; fibex.load cannot read fibex.dump's output (KeyError in the <<ECU selector).",
    ]
    ok = chk.build_and_audit()
    cm = core.import_impl()
    import canmatrix.formats
    C = cm.canmatrix
    rng = chk.rng
    thorough = chk.tier == "thorough"
    N = 20000 if thorough else 1500        # matrices per artefact configuration
    TIE_N = 3000                           # matrices per configuration whose signals are also sent through the model
    lines, expect, info = [], [], []

    # core keeps at most 50 violations in total: forward only the first few of every failure class so that no class hides another
    raw_violation = chk.violation
    seen_keys = {}
    known_keys = {k.get("key") for k in chk.known}

    def violation(key, what, input, expected=None, observed=None):
        seen_keys[key] = seen_keys.get(key, 0) + 1
        chk.count("failing:" + key)
        if key in known_keys or seen_keys[key] <= 3:
            raw_violation(key, what, input, expected, observed)
    chk.violation = violation

    tie_on = [True]

    def add(cmd, groups, exp, inf):
        if not tie_on[0]:
            return
        lines.append(core.fmt_case(cmd, groups))
        expect.append(exp)
        info.append(inf)

    LENS = list(range(1, 9)) * 3 + [8] * 6 + [9, 12, 13, 16, 20, 24, 31, 32, 48, 63, 64]

    def features(art, k):
        ft = dict(n_frames=(1, 6) if k % 5 else (1, 2), n_ecus=(2, 4), len_choices=LENS, max_len=64, ext_ids=True, unique_id_numbers=True,
                  floats=True, signed=True, mux="mixed", mux_choices=["none", "none", "simple"], units=True, receivers=True,
                  digits=4, explicit_limits=True, value_tables=(k % 4 == 0), comments=(k % 7 == 0))
        mode = k % 6
        if mode == 0:
            ft["motorola"] = False
        elif mode == 1:
            ft["intel"] = False
        if k % 9 == 8:
            ft["digits"] = 9            # precision stream
        elif art.startswith("csv"):
            ft["digits"] = 6
        return ft

    def describe(fr, s):
        return dict(frame=fr.name, id=hex(fr.arbitration_id.id), extended=bool(fr.arbitration_id.extended), length=int(fr.size), signal=s.name,
                    start_bit=int(s.start_bit), size=int(s.size), little_endian=bool(s.is_little_endian), signed=bool(s.is_signed),
                    is_float=bool(s.is_float), factor=str(s.factor), offset=str(s.offset), mux_val=s.mux_val, is_multiplexer=bool(s.is_multiplexer))

    def payloads(fr, s):
        """3 payloads of the frame's length on which Frame.decode yields s (selector forced by the oracle's own bit positions)"""
        out = []
        mux = fr.get_multiplexer if fr.is_multiplexed else None
        for t in range(3):
            if t == 0:
                p = bytearray(rng.randrange(256) for _ in range(fr.size))
            elif t == 1:
                p = bytearray([0xFF] * fr.size)
                for q in rng.sample(range(8 * fr.size), min(3, 8 * fr.size)):
                    p[q // 8] ^= 1 << (q % 8)
            else:
                p = bytearray(rng.choice([0x00, 0x80, 0x01, 0xAA]) for _ in range(fr.size))
                for q in spec_msf(s)[:1]:
                    p[q // 8] |= 1 << (7 - q % 8)       # top bit set
            if mux is not None and s.mux_val is not None and s is not mux:
                for j, q in enumerate(spec_msf(mux)):
                    bit = (int(s.mux_val) >> (mux.size - 1 - j)) & 1
                    p[q // 8] = (p[q // 8] & ~(1 << (7 - q % 8))) | (bit << (7 - q % 8))
            out.append(bytes(p))
        return out

    def impl_raw(fr, s, p):
        dec = fr.decode(p)
        if s.name not in dec:
            return None
        return dec[s.name].raw_value

    def check_value(art, fr, s, getter, what, keysuffix="value"):
        """getter(payload) -> int | ('f', pattern) read from the artefact with the tool convention"""
        nontriv = False
        for p in payloads(fr, s):
            exp = impl_raw(fr, s, p)
            if exp is None:
                chk.violation("harness-mux-payload", "oracle could not activate the multiplexed group", describe(fr, s))
                return False
            try:
                got = getter(p)
            except Exception as e:
                got = "error: %s" % e
            if isinstance(got, tuple):
                good = s.is_float and same_float(got[1], exp, s.size)
            else:
                good = (not s.is_float) and got == exp
            if not s.is_float and isinstance(exp, int) and exp < 0:
                nontriv = True
            if not good:
                chk.violation("%s-%s" % (art, keysuffix), what, dict(describe(fr, s), payload=p.hex()), exp, got)
                return nontriv
        return nontriv

    def register(art, opt, fr, s, extra_nontrivial):
        pos = spec_msf(s)
        crossing = pos[0] // 8 != pos[-1] // 8
        nt = crossing or (not s.is_little_endian) or fr.size > 8 or extra_nontrivial
        chk.case((art, opt, fr.size, int(s.start_bit), int(s.size), bool(s.is_little_endian), bool(s.is_signed), bool(s.is_float)), nt)
        chk.count("%s:%s" % (art, "intel" if s.is_little_endian else "motorola"))
        chk.count("type:%s" % ("float" if s.is_float else ("signed" if s.is_signed else "unsigned")))
        chk.count("len:%s" % ("1-8" if fr.size <= 8 else "9-64"))
        chk.count("crossing" if crossing else "one-byte")
        if s.mux_val is not None or s.is_multiplexer:
            chk.count("%s:multiplexed" % art)

    def cmp(art, field, fr, s, recorded, expected):
        if recorded != expected:
            chk.violation("%s-%s" % (art, field), "%s records a %s that differs from the matrix" % (art, field), describe(fr, s), expected, recorded)
            return False
        return True

    def frames_of(db):
        return [f for f in db.frames if not f.is_complex_multiplexed]

    def writer(art, db, **opt):
        fmt = {"canard": "json"}.get(art.split(":")[0], art.split(":")[0])
        try:
            return dump(canmatrix, db, fmt, **opt)
        except Exception as e:
            f0 = db.frames[0]
            chk.violation("%s-crash" % art.split(":")[0], "the writer raised %s: %s" % (type(e).__name__, str(e)[:120]),
                          dict(frames=[f.name for f in db.frames], options=opt, first_frame=describe(f0, f0.signals[0]) if f0.signals else None))
            return None

    def parsed(art, fn, *a):
        try:
            return fn(*a)
        except Exception as e:
            chk.violation("%s-unreadable" % art, "the artefact is not readable by the independent parser (%s: %s)" % (type(e).__name__, str(e)[:160]),
                          dict(excerpt=(a[0] if isinstance(a[0], str) else a[0].decode("utf8", "replace"))[:600]))
            return None

    # ---- identifiers at the edges of both formats.  matgen draws 29-bit identifiers uniformly, so an extended frame whose number would
    # also fit a standard identifier (and the extreme values 0, 0x7FF, 0x800, 2^29-1) practically never occurs; every third matrix gets
    # such identifiers.  The frame format is part of the frame identifier: number AND format recorded by the artefact must be the frame's.
    EDGE_IDS = [(0, True), (1, True), (0x12, True), (0x7FE, True), (0x7FF, True), (0x800, True), (0x801, True), (2 ** 29 - 1, True), (2 ** 29 - 2, True),
                (0, False), (1, False), (0x7FE, False), (0x7FF, False)]
    edge_frames = set()

    def gen(art, k):
        db = matgen.gen_matrix(rng, C, **features(art, k))
        edge_frames.clear()
        if k % 3 == 2:
            used = {f.arbitration_id.id for f in db.frames}          # id numbers stay unique across formats (envelope)
            for f in db.frames:
                if rng.random() < 0.7:
                    cand = [(v, e) for v, e in EDGE_IDS if v not in used]
                    if not cand:
                        break
                    v, e = rng.choice(cand)
                    used.discard(f.arbitration_id.id)
                    used.add(v)
                    f.arbitration_id = C.ArbitrationId(v, e)
                    edge_frames.add(id(f))
        for f in db.frames:
            a = f.arbitration_id
            chk.count("ids:%s" % ("standard" if not a.extended else ("extended<=0x7FF" if a.id <= 0x7FF else "extended>0x7FF")))
            if id(f) in edge_frames:
                chk.count("ids:edge-of-range")
                chk.case((art, "edge-id", a.id, bool(a.extended)), True)
        return db

    def K(fr, key):
        """failure class of an identifier mismatch: a class of its own for the edge-of-range identifiers"""
        return key + "-edge-id" if id(fr) in edge_frames else key

    # ---- the writer's notation options as a whole: canconvert hands EVERY writer the complete option vector (each option at its
    # CLI default or at what the user chose), so every artefact is also produced under vectors that set options documented for
    # another output mode.  The property is the same under every vector: the artefact's own convention is fixed by the target tool.
    OPTION_SPACE = {"xlsMotorolaBitFormat": ["msbreverse", "msb", "lsb"], "jsonMotorolaBitFormat": ["lsb", "msb", "msbreverse"],
                    "jsonNativeTypes": [False, True], "jsonExportAll": [False, True], "xlsValuesInSeperateLines": [False, True]}

    def option_vector(exclude=()):
        """a complete option vector; at least one option away from its default (first value)"""
        names = [n for n in OPTION_SPACE if n not in exclude]
        while True:
            v = {n: rng.choice(OPTION_SPACE[n]) for n in names}
            if any(v[n] != OPTION_SPACE[n][0] for n in names):
                return v

    def foreign_options_probe(art, db, base_data, own, exclude):
        """options that belong to another output mode must not change this artefact: byte comparison with the dump made without them"""
        vec = option_vector(exclude)
        other = writer(art, db, **dict(own, **vec))
        chk.count("options:%s:foreign-vector" % art)
        for n, val in vec.items():
            if val != OPTION_SPACE[n][0]:
                chk.count("options:%s=%s" % (n, val))
        chk.case((art, "foreign", tuple(sorted(vec.items())), len(base_data)), True)
        if other is not None and other != base_data:
            a, b = base_data.decode("utf8", "replace").split("\n"), other.decode("utf8", "replace").split("\n")
            first = next((i for i, (x, y) in enumerate(zip(a, b)) if x != y), min(len(a), len(b)))
            f0 = db.frames[0]
            chk.violation("%s-foreign-option" % art, "an option documented for another output changes this artefact",
                          dict(options=vec, own_options=own, frames=[f.name for f in db.frames], first_frame=describe(f0, f0.signals[0]) if f0.signals else None),
                          a[first:first + 2], b[first:first + 2])

    # ============================================================ scapy
    for k in range(N):
        tie_on[0] = k < TIE_N
        db = gen("scapy", k)
        data = writer("scapy", db)
        if data is None:
            continue
        if k % 4 == 1:
            foreign_options_probe("scapy", db, data, {}, ())
        art = parsed("scapy", parse_scapy, data.decode("utf8"))
        if art is None:
            continue
        for fr in frames_of(db):
            cls = art.get(fr.name)
            if cls is None:
                chk.violation("scapy-frame-missing", "no SignalPacket class for the frame", dict(frame=fr.name))
                continue
            if cls["id"] != fr.arbitration_id.id:
                chk.violation(K(fr, "scapy-id"), "bind_layers identifier differs", dict(frame=fr.name), fr.arbitration_id.id, cls["id"])
            if cls["ext"] != bool(fr.arbitration_id.extended):
                chk.violation(K(fr, "scapy-extended-flag"), "bind_layers extended flag differs", dict(frame=fr.name, id=hex(fr.arbitration_id.id)),
                              bool(fr.arbitration_id.extended), cls["ext"])
            recs = {}
            for f in cls["fields"]:
                if f["name"] in recs:
                    chk.violation("scapy-signal-twice", "field listed twice", dict(frame=fr.name, signal=f["name"]))
                recs[f["name"]] = f
            for extra in set(recs) - {s.name for s in fr.signals}:
                chk.violation("scapy-signal-extra", "field without a signal", dict(frame=fr.name, signal=extra))
            mux = fr.get_multiplexer if fr.is_multiplexed else None
            for s in fr.signals:
                r = recs.get(s.name)
                if r is None:
                    chk.violation("scapy-signal-missing", "signal not in fields_desc", describe(fr, s))
                    continue
                good = cmp("scapy", "width", fr, s, r["size"], s.size)
                fmt = r["fmt"]
                if not re.fullmatch(r"[<>][bBf]", fmt):
                    chk.violation("scapy-fmt", "fmt not understood", describe(fr, s), None, fmt)
                    continue
                good &= cmp("scapy", "byte-order", fr, s, fmt[0], "<" if s.is_little_endian else ">")
                good &= cmp("scapy", "fmt-float", fr, s, fmt[1] == "f", bool(s.is_float))
                if not s.is_float:
                    good &= cmp("scapy", "fmt-sign", fr, s, fmt[1], "b" if s.is_signed else "B")
                cmp("scapy", "factor", fr, s, r["scaling"], D(s.factor))
                cmp("scapy", "offset", fr, s, r["offset"], D(s.offset))
                cmp("scapy", "unit", fr, s, r["unit"], s.unit)
                expc = (mux.name, int(s.mux_val)) if (mux is not None and s is not mux and s.mux_val is not None) else None
                cmp("scapy", "mux-condition", fr, s, r["cond"], expc)
                pos = scapy_positions(r["start"], r["size"], fmt[0] == ">")
                nt = False
                if pos != spec_msf(s):
                    chk.violation("scapy-start-%s" % ("intel" if s.is_little_endian else "motorola"),
                                  "start read with Scapy's convention does not select the signal's bits", describe(fr, s), spec_msf(s), pos)
                elif good:
                    nt = check_value("scapy", fr, s, lambda p, r=r: scapy_value(p, r["start"], r["size"], r["fmt"]),
                                     "value read with Scapy's convention differs from Frame.decode")
                register("scapy", "", fr, s, nt)
                if s.is_float and s.size != 32:
                    chk.count("scapy:observation(float field of 64 bits; Scapy's SignalField itself accepts 32-bit floats only)")
                if fr.size > 8:
                    chk.count("scapy:observation(signal in a frame longer than the 8 payload bytes Scapy's SignalField reads; convention generalised)")
                add(1901, [sig_group(s)], [[r["start"], r["size"], int(fmt[0] == ">"), {"B": 0, "b": 1, "f": 2}[fmt[1]]]], dict(scapy=describe(fr, s)))
                add(1911, [[r["start"], r["size"], int(fmt[0] == ">")]], [pos], dict(scapy_positions=(r["start"], r["size"], fmt)))
                add(1920, [sig_group(s)], [spec_msf(s)], dict(spec=describe(fr, s)))
        if k < 1:
            chk.sample(dict(artefact="scapy", excerpt=data.decode("utf8").split("\n")[7:10]))

    # ============================================================ wireshark
    for k in range(N):
        tie_on[0] = k < TIE_N
        db = gen("wireshark", k)
        data = writer("wireshark", db)
        if data is None:
            continue
        if k % 4 == 1:
            foreign_options_probe("wireshark", db, data, {}, ())
        art = parsed("wireshark", parse_lua, data.decode("utf8"))
        if art is None:
            continue
        byname = {}
        for a in art:
            byname.setdefault(a["name"], []).append(a)
        for fr in frames_of(db):
            blocks = byname.get(fr.name, [])
            if len(blocks) != 1:
                chk.violation("wireshark-frame-missing", "frame dissected %d times" % len(blocks), dict(frame=fr.name))
                continue
            blk = blocks[0]
            if blk["id"] != fr.arbitration_id.id:
                chk.violation(K(fr, "wireshark-id"), "can_id differs", dict(frame=fr.name), fr.arbitration_id.id, blk["id"])
            mux = fr.get_multiplexer if fr.is_multiplexed else None
            for extra in set(blk["signals"]) - {s.name for s in fr.signals}:
                chk.violation("wireshark-signal-extra", "field without a signal", dict(frame=fr.name, signal=extra))
            if mux is not None:
                mr = blk["muxer"]
                if mr is None:
                    chk.violation("wireshark-muxer-missing", "no muxer read for a multiplexed frame", describe(fr, mux))
                else:
                    pos = ws_positions(fr.size, mr[0] == "reversed_pdu", mr[1], mr[2])
                    if pos != spec_msf(mux):
                        chk.violation("wireshark-%s-offset" % ("intel" if mux.is_little_endian else "motorola"),
                                      "muxer bitfield does not select the multiplexer's bits", describe(fr, mux), spec_msf(mux), pos)
                    register("wireshark", "muxer", fr, mux, False)
                    add(1902, [[fr.size], sig_group(mux)[:3] + [0, 0]], [[int(mr[0] == "reversed_pdu"), mr[1], mr[2], -1, 0]], dict(ws_muxer=describe(fr, mux)))
            for s in fr.signals:
                if s is mux:
                    continue                     # the selector is only read into `muxer`, never added to the tree
                r = blk["signals"].get(s.name)
                if r is None:
                    chk.violation("wireshark-signal-missing", "signal not dissected", describe(fr, s))
                    continue
                main = r["plain"] or r["else"]
                good = cmp("wireshark", "width", fr, s, main[2], s.size)
                good &= cmp("wireshark", "byte-order", fr, s, main[0], "reversed_pdu" if s.is_little_endian else "pdu")
                want_fix = bool(s.is_signed and not s.is_float)
                good &= cmp("wireshark", "sign", fr, s, r["probe"] is not None, want_fix)
                cmp("wireshark", "float-field", fr, s, r["is_float_field"], bool(s.is_float))
                cmp("wireshark", "mux-condition", fr, s, r["mux"], int(s.mux_val) if (mux is not None and s.mux_val is not None) else None)
                if r["probe"] is not None:
                    if r["then"][:3] != r["else"][:3]:
                        chk.violation("wireshark-sign-branches", "the two branches read different bits", describe(fr, s), r["else"], r["then"])
                        good = False
                    if r["then"][3] != 1 << s.size:
                        chk.violation("wireshark-sign-constant", "sign fix-up constant is not 2^size", describe(fr, s), 1 << s.size, r["then"][3])
                        good = False
                    ppos = ws_positions(fr.size, r["probe"][0] == "reversed_pdu", r["probe"][1], r["probe"][2])
                    if ppos != spec_msf(s)[:1]:
                        chk.violation("wireshark-sign-probe", "is_signed does not read the signal's most significant bit", describe(fr, s), spec_msf(s)[:1], ppos)
                        good = False
                pos = ws_positions(fr.size, main[0] == "reversed_pdu", main[1], main[2])
                nt = False
                if pos != spec_msf(s):
                    chk.violation("wireshark-%s-offset" % ("intel" if s.is_little_endian else "motorola"),
                                  "bitfield(offset,len) does not select the signal's bits", describe(fr, s), spec_msf(s), pos)
                elif good and not s.is_float:
                    nt = check_value("wireshark", fr, s, lambda p, r=r: ws_eval(p, r), "the generated Lua evaluates to a value that differs from Frame.decode")
                    p = payloads(fr, s)[2]
                    add(1921, [[int(main[0] == "reversed_pdu"), main[1], main[2], r["probe"][1] if r["probe"] else -1, r["then"][3] if r["probe"] else 0], list(p)],
                        [[1, ws_eval(p, r)]], dict(ws_read=describe(fr, s), payload=p.hex()))
                register("wireshark", "", fr, s, nt)
                add(1902, [[fr.size], sig_group(s)], [[int(main[0] == "reversed_pdu"), main[1], main[2], r["probe"][1] if r["probe"] else -1,
                                                       r["then"][3] if r["probe"] else 0]], dict(ws=describe(fr, s)))
                add(1912, [[fr.size, int(main[0] == "reversed_pdu"), main[1], main[2]]], [pos], dict(ws_positions=(fr.size,) + main))
        if k < 1:
            chk.sample(dict(artefact="wireshark", excerpt=[l for l in data.decode("utf8").split("\n") if "bitfield" in l][:3]))

    # ============================================================ fibex
    FX_TYPES = {"A_UINT8": (0, 8), "A_UINT16": (0, 16), "A_UINT32": (0, 32), "A_UINT64": (0, 64), "A_INT8": (1, 8), "A_INT16": (1, 16),
                "A_INT32": (1, 32), "A_INT64": (1, 64), "A_FLOAT32": (2, 32), "A_FLOAT64": (2, 64)}
    for k in range(N):
        tie_on[0] = k < TIE_N
        db = gen("fibex", k)
        data = writer("fibex", db)
        if data is None:
            continue
        if k % 4 == 1:
            foreign_options_probe("fibex", db, data, {}, ())
        art = parsed("fibex", parse_fibex, data)
        if art is None:
            continue
        byname = {a["name"]: a for a in art}
        if art and art[0]["duplicate_ids"]:
            chk.count("fibex:observation(files in which PDU-TRIGGERING and PDU share one XML ID)")
        for fr in frames_of(db):
            a = byname.get(fr.name)
            if a is None:
                chk.violation("fibex-frame-missing", "no FRAME-TRIGGERING/FRAME for the frame", dict(frame=fr.name))
                continue
            if a["id"] != fr.arbitration_id.id:
                chk.violation(K(fr, "fibex-id"), "IDENTIFIER-VALUE differs", dict(frame=fr.name), fr.arbitration_id.id, a["id"])
            if a["ext"] != bool(fr.arbitration_id.extended):
                chk.violation(K(fr, "fibex-extended-flag"), "IDENTIFIER-VALUE does not say whether the identifier has 29 bits (EXTENDED-ADDRESSING)",
                              dict(frame=fr.name, id=hex(fr.arbitration_id.id), length=fr.size), bool(fr.arbitration_id.extended), a["ext"])
            if a["length"] != fr.size or a["pdu_length"] != fr.size:
                chk.violation("fibex-length", "BYTE-LENGTH differs", dict(frame=fr.name), fr.size, (a["length"], a["pdu_length"]))
            mux = fr.get_multiplexer if fr.is_multiplexed else None
            for extra in set(a["signals"]) - {s.name for s in fr.signals}:
                chk.violation("fibex-signal-extra", "signal instance without a signal", dict(frame=fr.name, signal=extra))
            if mux is not None:
                sw = a["switch"]
                if sw is None or sw["name"] != mux.name:
                    chk.violation("fibex-switch-missing", "multiplexed frame without the SWITCH of its selector", describe(fr, mux))
                else:
                    cmp("fibex", "switch-width", fr, mux, sw["size"], mux.size)
                    cmp("fibex", "switch-byte-order", fr, mux, sw["hilo"], not mux.is_little_endian)
                    pos = fibex_positions(sw["pos"], sw["size"], sw["hilo"])
                    if pos != spec_msf(mux):
                        chk.violation("fibex-switch-bit-position", "SWITCH/BIT-POSITION read with the FIBEX convention does not select the selector's bits",
                                      describe(fr, mux), spec_msf(mux), pos)
                    register("fibex", "switch", fr, mux, False)
                    add(1907, [sig_group(mux)], [[sw["pos"], int(sw["hilo"]), sw["size"]]], dict(fibex_switch=describe(fr, mux)))
            if mux is not None:
                for part, base, seglen, _ in a["segments"]:
                    members = [s for s in fr.signals if s is not mux and ((s.mux_val is not None) == (part == "DYNAMIC-PART"))]
                    add(1909, [sig_group(s) for s in members], [[base, base + seglen]], dict(fibex_segment=(fr.name, part)))
            for s in fr.signals:
                if s is mux:
                    continue
                r = a["signals"].get(s.name)
                if r is None:
                    chk.violation("fibex-signal-missing", "signal without a SIGNAL-INSTANCE", describe(fr, s))
                    continue
                good = cmp("fibex", "width", fr, s, r["size"], s.size)
                good &= cmp("fibex", "byte-order", fr, s, r["hilo"], not s.is_little_endian)
                t = FX_TYPES.get(r["type"])
                if t is None:
                    chk.violation("fibex-coded-type", "BASE-DATA-TYPE absent or unknown", describe(fr, s), None, r["type"])
                    good = False
                else:
                    good &= cmp("fibex", "float", fr, s, t[0] == 2, bool(s.is_float))
                    if not s.is_float:
                        good &= cmp("fibex", "sign", fr, s, t[0] == 1, bool(s.is_signed))
                    if t[1] < s.size:
                        chk.violation("fibex-coded-type", "base data type narrower than the signal", describe(fr, s), s.size, r["type"])
                cmp("fibex", "factor", fr, s, r["factor"], D(s.factor))
                cmp("fibex", "offset", fr, s, r["offset"], D(s.offset))
                cmp("fibex", "mux-switch-code", fr, s, r["mux"], int(s.mux_val) if (mux is not None and s.mux_val is not None) else None)
                pos = fibex_positions(r["pos"], r["size"], r["hilo"])
                nt = False
                if pos != spec_msf(s):
                    rel = fibex_positions(r["rel"], r["size"], r["hilo"])
                    if rel == spec_msf(s):
                        chk.violation("fibex-mux-segment", "signal positions inside a switched/static PDU are frame positions although the SEGMENT-POSITION is not 0",
                                      dict(describe(fr, s), segment=r.get("segment")), spec_msf(s), pos)
                    else:
                        chk.violation("fibex-bit-position" + ("-intel" if s.is_little_endian else ""),
                                      "BIT-POSITION read with the FIBEX importer's convention does not select the signal's bits",
                                      dict(describe(fr, s), bit_position=r["rel"]), spec_msf(s), rel)
                elif good:
                    def getter(p, r=r, t=t):
                        v = bits_at(p, fibex_positions(r["pos"], r["size"], r["hilo"]))
                        return ("f", v) if t[0] == 2 else (signed_of(v, r["size"]) if t[0] == 1 else v)
                    nt = check_value("fibex", fr, s, getter, "value read with the FIBEX convention differs from Frame.decode")
                if "segment" in r:
                    # the signal must lie inside the PDU it is placed in and inside the segment that PDU is mapped to
                    base, seglen = r["segment"]
                    relpos = fibex_positions(r["rel"], r["size"], r["hilo"])
                    if min(relpos) < 0 or max(relpos) >= 8 * r["pdu_bytes"] or max(relpos) >= seglen:
                        chk.violation("fibex-mux-pdu-range", "a signal instance leaves the switched/static PDU or its segment",
                                      dict(describe(fr, s), segment=r["segment"], pdu_bytes=r["pdu_bytes"], bit_position=r["rel"]))
                register("fibex", "", fr, s, nt)
                if t is not None:
                    add(1903, [sig_group(s)], [[r["rel"], int(r["hilo"]), r["size"], t[0], t[1]]], dict(fibex=describe(fr, s), segment=r.get("segment")))
                add(1913, [[r["pos"], int(r["hilo"]), r["size"]]], [pos], dict(fibex_positions=(r["pos"], r["size"], r["hilo"])))
        if k < 1:
            chk.sample(dict(artefact="fibex", excerpt=re.findall(r"<fx:SIGNAL-INSTANCE.*?</fx:SIGNAL-INSTANCE>", data.decode("utf8"), re.S)[:1]))

    # ============================================================ csv
    for oi, (opt, delim) in enumerate([("msbreverse", ","), ("msb", ","), ("lsb", ","), ("msbreverse", ";"), ("msb", ";"), ("lsb", ";"), (None, ",")]):
        n_here = N if oi < 3 else max(N // 6, 10)
        for k in range(n_here):
            tie_on[0] = k < TIE_N
            db = gen("csv", k)
            kw = dict(delimiter=delim)
            if opt is not None:
                kw["xlsMotorolaBitFormat"] = opt
            eff = opt or "msbreverse"          # documented default
            data = writer("csv", db, **kw)
            if data is None:
                continue
            if k % 4 == 1:
                foreign_options_probe("csv", db, data, kw, ("xlsMotorolaBitFormat", "xlsValuesInSeperateLines"))
            art = parsed("csv", parse_csv, data, delim)
            if art is None:
                continue
            for fr in frames_of(db):
                a = art.get(fr.name)
                if a is None:
                    if fr.signals:
                        chk.violation("csv-frame-missing", "frame has no rows", dict(frame=fr.name))
                    continue
                if a["id"] != fr.arbitration_id.id:
                    chk.violation(K(fr, "csv-id"), "ID cell differs", dict(frame=fr.name), fr.arbitration_id.id, a["id"])
                if a["ext"] != bool(fr.arbitration_id.extended):
                    chk.violation(K(fr, "csv-extended-flag"), "ID cell extended marker differs", dict(frame=fr.name), bool(fr.arbitration_id.extended), a["ext"])
                mux = fr.get_multiplexer if fr.is_multiplexed else None
                for extra in set(a["signals"]) - {s.name for s in fr.signals}:
                    chk.violation("csv-signal-extra", "row without a signal", dict(frame=fr.name, signal=extra))
                for s in fr.signals:
                    r = a["signals"].get(s.name)
                    if r is None:
                        chk.violation("csv-signal-missing", "signal has no row", describe(fr, s))
                        continue
                    good = cmp("csv", "width", fr, s, r["size"], s.size)
                    good &= cmp("csv", "byte-order", fr, s, r["order"], "i" if s.is_little_endian else "m")
                    good &= cmp("csv", "sign", fr, s, r["sign"], "s" if s.is_signed else "u")
                    if r["factor"] != D(s.factor):
                        key = "csv-factor" if len(D(s.factor).normalize().as_tuple().digits) <= 6 else "csv-factor-6-digits"
                        chk.violation(key, "the increment column does not carry the matrix's factor exactly", describe(fr, s), str(D(s.factor)), str(r["factor"]))
                    cmp("csv", "mux-mode", fr, s, (r["is_muxer"], r["mux"]),
                        (s is mux, int(s.mux_val) if (mux is not None and s is not mux and s.mux_val is not None) else None))
                    nt = False
                    if not (1 <= r["byte"] and 0 <= r["bit"] <= 7):
                        chk.violation("csv-cells", "byte/bit cells out of range", describe(fr, s), None, (r["byte"], r["bit"]))
                        continue
                    pos = csv_positions(eff, r["byte"], r["bit"], r["size"], r["order"] == "m")
                    if pos != spec_msf(s):
                        chk.violation("csv-%s-position-%s" % (eff, "intel" if s.is_little_endian else "motorola"),
                                      "byte/bit columns read per xlsMotorolaBitFormat do not select the signal's bits",
                                      dict(describe(fr, s), option=opt), spec_msf(s), pos)
                    elif good and not s.is_float:
                        def getter(p, r=r, pos=pos):
                            v = bits_at(p, pos)
                            return signed_of(v, r["size"]) if r["sign"] == "s" else v
                        nt = check_value("csv", fr, s, getter, "value read from the CSV columns differs from Frame.decode")
                    register("csv", "%s%s" % (opt, delim), fr, s, nt)
                    add(1904, [[CSV_OPT[eff]], sig_group(s)], [[r["byte"], r["bit"], r["size"], int(r["order"] == "m"), int(r["sign"] == "s")]],
                        dict(csv=describe(fr, s), option=opt))
                    add(1914, [[CSV_OPT[eff], r["byte"], r["bit"], r["size"], int(r["order"] == "m")]], [pos], dict(csv_positions=(eff, r["byte"], r["bit"], r["size"], r["order"])))
            if k < 1 and oi < 1:
                chk.sample(dict(artefact="csv", excerpt=data.decode("utf8").split("\n")[1:3]))

    # ============================================================ canard
    for k in range(N):
        tie_on[0] = k < TIE_N
        db = gen("canard", k)
        # two of three matrices: exported under a complete option vector (CANard has one fixed convention, whatever the other options say)
        copts = option_vector() if k % 3 else {}
        under = "-under-options" if copts else ""
        chk.count("options:canard:%s" % ("complete-vector" if copts else "own-option-only"))
        for n, val in copts.items():
            if val != OPTION_SPACE[n][0]:
                chk.count("options:%s=%s" % (n, val))
        data = writer("canard", db, jsonExportCanard=True, **copts)
        if data is None:
            continue
        art = parsed("canard", parse_canard, data)
        if art is None:
            continue
        for fr in frames_of(db):
            a = art.get(fr.name)
            if a is None:
                chk.violation("canard-frame-missing", "no message for the frame", dict(frame=fr.name))
                continue
            if a["id"] != fr.arbitration_id.id:
                chk.violation(K(fr, "canard-id"), "id differs", dict(frame=fr.name), fr.arbitration_id.id, a["id"])
            lsb = {}
            for s in fr.signals:
                lsb.setdefault(flip(spec_msf(s)[-1]), []).append(s.name)
            for extra in set(a["signals"]) - {s.name for s in fr.signals}:
                chk.violation("canard-signal-extra", "entry without a signal", dict(frame=fr.name, signal=extra))
            for s in fr.signals:
                r = a["signals"].get(s.name)
                shared = len(lsb[flip(spec_msf(s)[-1])]) > 1
                if r is None:
                    if shared:
                        chk.count("canard:outside-format(shared start bit, entry overwritten)")
                    else:
                        chk.violation("canard-signal-missing", "signal has no entry", describe(fr, s))
                    continue
                cmp("canard", "width", fr, s, r["size"], s.size)
                cmp("canard", "factor", fr, s, r["factor"], D(s.factor))
                cmp("canard", "offset", fr, s, r["offset"], D(s.offset))
                pos = canard_positions(r["key"], r["size"])
                sp = spec_msf(s)
                crossing_motorola = (not s.is_little_endian) and sp[0] // 8 != sp[-1] // 8
                nt = False
                if r["key"] != flip(sp[-1]):
                    chk.violation("canard-key" + under, "the key is not the LSB0 number of the signal's least significant bit",
                                  dict(describe(fr, s), options=copts), flip(sp[-1]), r["key"])
                elif crossing_motorola:
                    chk.count("canard:outside-format(Motorola signal crossing a byte boundary)")
                elif pos != sp:
                    chk.violation("canard-key" + under, "key read with CANard's convention does not select the signal's bits",
                                  dict(describe(fr, s), options=copts), sp, pos)
                elif not s.is_float and not s.is_signed:
                    nt = check_value("canard", fr, s, lambda p, r=r: canard_value(p, r["key"], r["size"]), "value read with CANard's convention differs from Frame.decode")
                register("canard", repr(sorted(copts.items())), fr, s, nt)
                add(1905, [sig_group(s)], [[r["key"], r["size"]]], dict(canard=describe(fr, s)))
                add(1915, [[r["key"], r["size"]]], [pos], dict(canard_positions=(r["key"], r["size"])))
        if k < 1:
            chk.sample(dict(artefact="canard", excerpt=data.decode("utf8")[:300]))

    # ============================================================ tie
    if not ok:
        chk.ties["correspondence"] = "not run (build failed)"
        return
    out = core.run_model(lines)
    bad = 0
    per = {}
    for ln, inf, exp, o in zip(lines, info, expect, out):
        cmd = int(ln.split(" ", 1)[0], 16)
        per[cmd] = per.get(cmd, 0) + 1
        if core.parse_out(o) != exp:
            bad += 1
            chk.tie_break("exports", inf, core.parse_out(o), exp)
    chk.ties["correspondence"] = {"suite": "exports: parsed writer output = model emit (1901-1905, FIBEX switch and segments 1907, 1909); Python tool conventions = model (1911-1915, 1921); "
                                           "layouts.bigpos = pos_of (1920)", "cases": len(lines), "per_command": {str(k): v for k, v in sorted(per.items())},
                                  "disagreements": bad}
    idx = rng.sample(range(len(lines)), min(300, len(lines)))
    shard = []
    for i in idx:
        c, groups = lines[i].split(" ", 1)
        shard.append((int(c, 16), core.parse_out(groups), expect[i]))
    mm, log = core.coq_shard(shard, "c19")
    chk.ties["vm_compute_shard"] = {"cases": len(shard), "mismatches": mm}
    if mm is None:
        chk.obligation_failures.append("in-Coq shard failed to evaluate")
        chk.build_log = log[-3000:]
    else:
        for i in mm:
            chk.tie_break("exports-shard", shard[i][1], "vm_compute differs", shard[i][2])
