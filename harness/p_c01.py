"""C01: decoding reads exactly the convention's bits; wrong-length payloads are refused.
Tie: Frame.decode / Frame.unpack / CanMatrix.decode vs model/Codec.v (cmd 102, 104) on structured placements
incl. placements that leave the frame (Python slice clamping).  Search oracle: the bit-sum convention, transcribed
in Python here (so the search works even when the Coq build is broken) and cross-checked against the extracted
specification `convention_value` (cmd 103)."""
import struct
import core

LEVEL_NOTE = ("theorems are about model/Codec.v (decode_signal, unpack_gate, frame_unpack); struct's float conversion, "
              "PDU-container payload walking and multiplexed group selection are outside this model (container/mux frames "
              "are covered for the length rule by the gate model plus a metamorphic identity on the implementation)")

FD_LENGTHS = [1, 2, 3, 4, 5, 6, 7, 8, 12, 16, 20, 24, 32, 48, 64]
WIDTH_CLASSES = [1, 2, 7, 8, 9, 15, 16, 17, 31, 32, 33, 63, 64]


# ---------- Python transcription of the specification (oracle) ----------
def pbit(d, n):
    return (d[n // 8] >> (n % 8)) & 1


def mbit(d, p):
    return (d[p // 8] >> (7 - p % 8)) & 1


def spec_unsigned(d, le, start, size):
    if le:
        return sum(pbit(d, start + i) << i for i in range(size))
    return sum(mbit(d, start + (size - 1 - i)) << i for i in range(size))


def spec_value(d, le, start, size, signed):
    u = spec_unsigned(d, le, start, size)
    if signed and (u >> (size - 1)) & 1:
        u -= 1 << size
    return u


def own_positions(le, start, size):
    """payload bit numbers (LSB0) the convention assigns to the signal"""
    if le:
        return [start + i for i in range(size)]
    out = []
    for j in range(size):
        p = start + j
        out.append(8 * (p // 8) + 7 - p % 8)
    return out


def float_of(pattern, size):
    return struct.unpack(">f" if size == 32 else ">d", pattern.to_bytes(size // 8, "big"))[0]


def same_float(a, b):
    return a == b or (a != a and b != b)


def run(chk):
    chk.rule = ("frames of every CAN/CAN FD length with signals at boundary/random placements of 13 width classes, both byte orders, "
                "signed+unsigned, float32/64; payloads zeros/ones/single own bits/neighbour bits/random; length rule: every rx length "
                "0..2*size x 4 flag settings x plain/mux/container frames. non-trivial = field crosses a byte boundary or is signed with "
                "top bit set or payload length differs from frame length; distinct by (length, placement, payload)")
    ok = chk.build_and_audit()
    cm = core.import_impl()
    C = cm.canmatrix
    rng = chk.rng
    thorough = chk.tier == "thorough"
    lengths = list(range(1, 65)) if thorough else FD_LENGTHS
    widths = list(range(1, 65)) if thorough else WIDTH_CLASSES
    model_lines = []
    model_expect = []      # what the implementation returned, in model output syntax
    model_info = []
    spec_lines = []
    spec_expect = []

    def impl_unpack(frame, data, **kw):
        try:
            r = frame.unpack(bytes(data), **kw)
            return "ok", r
        except C.DecodingFrameLength:
            return "len", None
        except (ValueError, struct.error, KeyError, TypeError) as e:
            return "conv", None
        except Exception as e:
            return "other:" + type(e).__name__, None

    def sig_group(i, s):
        return [i, s.start_bit, s.size, int(s.is_little_endian), int(s.is_signed), int(s.is_float)]

    def encode_result(st, r, sigs):
        if st == "len":
            return [[0]]
        if st == "conv":
            return [[1]]
        out = [[2]]
        for i, s in enumerate(sigs):
            v = r[s.name].raw_value
            if s.is_float:
                out.append([i, 2, int.from_bytes(struct.pack(">f" if s.size == 32 else ">d", v), "big")])
            else:
                out.append([i, 1, int(v)])
        return out

    # ---------- part 1: values ----------
    for L in lengths:
        nbits = 8 * L
        for le in (True, False):
            for w in widths:
                if w > nbits:
                    continue
                maxstart = nbits - w
                if L <= 3 or thorough:
                    starts = list(range(0, maxstart + 1))
                else:
                    cand = set(range(0, min(10, maxstart + 1))) | set(range(max(0, maxstart - 9), maxstart + 1))
                    cand |= {rng.randrange(0, maxstart + 1) for _ in range(6)}
                    starts = sorted(cand)
                for start in starts:
                    fr = C.Frame("f", size=L)
                    su = C.Signal("u", start_bit=start, size=w, is_little_endian=le, is_signed=False)
                    ss = C.Signal("s", start_bit=start, size=w, is_little_endian=le, is_signed=True)
                    fr.add_signal(su)
                    fr.add_signal(ss)
                    sigs = [su, ss]
                    own = own_positions(le, start, w)
                    ownset = set(own)
                    payloads = [bytes(L), bytes([255] * L)]
                    for n in {own[0], own[-1], own[rng.randrange(w)]}:
                        b = bytearray(L)
                        b[n // 8] |= 1 << (n % 8)
                        payloads.append(bytes(b))
                    others = [n for n in (min(own) - 1, max(own) + 1, own[0] ^ 7, rng.randrange(nbits)) if 0 <= n < nbits and n not in ownset]
                    for n in others[:2]:
                        b = bytearray(L)
                        b[n // 8] |= 1 << (n % 8)
                        payloads.append(bytes(b))
                    payloads.append(bytes(rng.randrange(256) for _ in range(L)))
                    if thorough and L > 8:
                        # the thorough tier enumerates EVERY (length, width, start): keep it within ~20 min by trimming
                        # the payload set for long frames (most significant own bit, one neighbour, one random payload)
                        msb = own[-1] if le else own[0]
                        b = bytearray(L)
                        b[msb // 8] |= 1 << (msb % 8)
                        payloads = [bytes([255] * L), bytes(b)] + payloads[5:6] + payloads[-1:]
                    crosses = (min(own) // 8) != (max(own) // 8)
                    for d in payloads:
                        st, r = impl_unpack(fr, d)
                        eu = spec_unsigned(d, le, start, w)
                        es = spec_value(d, le, start, w, True)
                        nontriv = crosses or es < 0
                        chk.case((L, le, w, start, d), nontriv)
                        chk.count("intel" if le else "motorola")
                        chk.count("crosses-byte" if crosses else "within-byte")
                        if st != "ok":
                            chk.violation("decode-raises", "decoding a payload of the declared length raised",
                                          dict(length=L, le=le, start=start, size=w, payload=d.hex()), (eu, es), st)
                        else:
                            gu, gs = r["u"].raw_value, r["s"].raw_value
                            if gu != eu or gs != es:
                                chk.violation("decode-value", "decoded raw value is not the number formed by the convention's bits",
                                              dict(length=L, le=le, start=start, size=w, payload=d.hex()), (eu, es), (gu, gs))
                            # same through Frame.decode
                        model_lines.append(core.fmt_case(102, [[L, 0, 0], list(d)] + [sig_group(i, s) for i, s in enumerate(sigs)]))
                        model_expect.append(encode_result(st, r, sigs))
                        model_info.append(dict(length=L, le=le, start=start, size=w, payload=d.hex()))
                    if len(spec_lines) < 4000 and rng.random() < 0.2:
                        d = payloads[-1]
                        spec_lines.append(core.fmt_case(103, [sig_group(0, ss), list(d)]))
                        spec_expect.append([[1, spec_value(d, le, start, w, True)]])
    chk.sample(dict(length=3, le=False, start=5, size=11, signed=True, payload="a57f80", value=-641))

    # ---------- part 2: floats ----------
    specials32 = [0x00000000, 0x80000000, 0x3F800000, 0x7F800000, 0xFF800000, 0x7FC00000, 0x00000001, 0x7F7FFFFF]
    specials64 = [0, 1 << 63, 0x3FF0000000000000, 0x7FF0000000000000, 0xFFF0000000000000, 0x7FF8000000000000, 1, 0x7FEFFFFFFFFFFFFF]
    for L in ([4, 5, 8, 9, 12, 16, 64] if not thorough else [4, 5, 6, 7, 8, 9, 10, 12, 16, 20, 24, 32, 48, 64]):
        nbits = 8 * L
        for le in (True, False):
            for w, specials in ((32, specials32), (64, specials64)):
                if w > nbits:
                    continue
                maxstart = nbits - w
                starts = sorted({0, maxstart, min(8, maxstart), min(3, maxstart), rng.randrange(maxstart + 1), rng.randrange(maxstart + 1)})
                for start in starts:
                    fr = C.Frame("f", size=L)
                    sf = C.Signal("x", start_bit=start, size=w, is_little_endian=le, is_float=True)
                    fr.add_signal(sf)
                    own = own_positions(le, start, w)
                    pats = specials + [rng.getrandbits(w) for _ in range(3)]
                    for pat in pats:
                        # build payload: random background, field bits = pattern
                        b = bytearray(rng.randrange(256) for _ in range(L))
                        for i, n in enumerate(own if le else list(reversed(own))):
                            # significance i (own is LSB-first for intel; for motorola own is MSB-first)
                            bit = (pat >> i) & 1
                            if bit:
                                b[n // 8] |= 1 << (n % 8)
                            else:
                                b[n // 8] &= ~(1 << (n % 8))
                        d = bytes(b)
                        st, r = impl_unpack(fr, d)
                        chk.case((L, le, w, start, d, "f"), True)
                        chk.count("float%d" % w)
                        exp = float_of(spec_unsigned(d, le, start, w), w)
                        if st != "ok" or not same_float(r["x"].raw_value, exp):
                            chk.violation("decode-float", "float signal is not the IEEE-754 value of its bits",
                                          dict(length=L, le=le, start=start, size=w, payload=d.hex()), exp,
                                          r["x"].raw_value if st == "ok" else st)
                        if st == "ok" and r["x"].raw_value == r["x"].raw_value and not (w == 32 and (pat & 0x7F800000) == 0x7F800000 and (pat & 0x7FFFFF)):
                            model_lines.append(core.fmt_case(102, [[L, 0, 0], list(d), sig_group(0, sf)]))
                            model_expect.append(encode_result(st, r, [sf]))
                            model_info.append(dict(length=L, le=le, start=start, size=w, payload=d.hex(), float=True))

    # (placements that leave the frame are outside the quantifier: they are neither judged nor tied - what the codec does with
    #  them is not constrained by the property, and a change there must not raise an alarm)
    # ---------- part 3b: one Frame object decoded repeatedly while its definition is edited in place ----------
    # (decoding must read the CURRENT definition: no state may survive from an earlier decode of the same object)
    for _ in range(150 if not thorough else 3000):
        L = rng.choice([1, 2, 3, 8, 12, 64])
        nbits = 8 * L
        fr = C.Frame("f", size=L)
        nsig = rng.randrange(1, 4)
        sigs = []
        for i in range(nsig):
            w = rng.randrange(1, min(nbits, 24) + 1)
            s = C.Signal("s%d" % i, start_bit=rng.randrange(0, nbits - w + 1), size=w, is_little_endian=rng.random() < 0.5,
                         is_signed=rng.random() < 0.5)
            fr.add_signal(s)
            sigs.append(s)
        if rng.random() < 0.3:
            sigs[0].multiplex_setter("Multiplexor")
            for s in sigs[1:]:
                s.multiplex_setter(None)
        for step in range(4):
            d = bytes(rng.randrange(256) for _ in range(L))
            try:
                r = fr.decode(d)
                got = {k: v.raw_value for k, v in r.items()}
            except Exception as e:
                got = "raise:" + type(e).__name__
            exp = {s.name: spec_value(d, s.is_little_endian, s.start_bit, s.size, s.is_signed) for s in fr.signals}
            chk.case(("edit", L, step, d, tuple((s.start_bit, s.size, s.is_little_endian, s.is_signed) for s in fr.signals)), step > 0)
            chk.count("decode-after-in-place-edit" if step else "decode-before-edit")
            if got != exp:
                chk.violation("decode-after-edit", "decoding does not follow the frame definition after a signal was edited in place "
                              "(a fresh frame with the same definition decodes differently)",
                              dict(length=L, step=step, signals=[(s.name, s.start_bit, s.size, s.is_little_endian, s.is_signed) for s in fr.signals],
                                   payload=d.hex()), exp, got)
                break
            # edit one signal in place, keeping it inside the frame and keeping the number of signals
            s = rng.choice(fr.signals)
            kind = rng.choice(["move", "resize", "flip", "sign", "replace", "setstart"])
            if kind == "move":
                s.start_bit = rng.randrange(0, nbits - s.size + 1)
            elif kind == "resize":
                s.size = rng.randrange(1, min(nbits - s.start_bit, 24) + 1)
            elif kind == "flip":
                s.is_little_endian = not s.is_little_endian
            elif kind == "sign":
                s.is_signed = not s.is_signed
            elif kind == "setstart":
                try:
                    s.set_startbit(rng.randrange(0, nbits - s.size + 1))
                except Exception:
                    pass
            else:
                w = rng.randrange(1, min(nbits, 24) + 1)
                new = C.Signal(s.name, start_bit=rng.randrange(0, nbits - w + 1), size=w, is_little_endian=rng.random() < 0.5,
                               is_signed=rng.random() < 0.5)
                new.multiplex_setter(s.multiplex)
                fr.signals[fr.signals.index(s)] = new

    # ---------- part 4: the length rule ----------
    def make_frames(L):
        out = []
        fr = C.Frame("plain", size=L, arbitration_id=C.ArbitrationId(0x100 + L, False))
        fr.add_signal(C.Signal("a", start_bit=0, size=min(8 * L, 7), is_little_endian=True, is_signed=False))
        fr.add_signal(C.Signal("b", start_bit=8 * L - min(8 * L, 5), size=min(8 * L, 5), is_little_endian=False, is_signed=True))
        out.append(("plain", fr))
        if L >= 2:
            fm = C.Frame("mux", size=L, arbitration_id=C.ArbitrationId(0x200 + L, False))
            fm.add_signal(C.Signal("m", start_bit=0, size=4, is_little_endian=True, is_signed=False, multiplex="Multiplexor"))
            fm.add_signal(C.Signal("g0", start_bit=8, size=8, is_little_endian=True, is_signed=False, multiplex=0))
            fm.add_signal(C.Signal("g1", start_bit=8, size=6, is_little_endian=True, is_signed=True, multiplex=1))
            fm.add_signal(C.Signal("st", start_bit=4, size=4, is_little_endian=True, is_signed=False))
            out.append(("mux", fm))
        if L >= 8:
            fc = C.Frame("cont", size=L, arbitration_id=C.ArbitrationId(0x300 + L, False))
            fc.add_signal(C.Signal("Header_ID", start_bit=0, size=8, is_little_endian=False, is_signed=False))
            fc.add_signal(C.Signal("Header_DLC", start_bit=8, size=8, is_little_endian=False, is_signed=False))
            p1 = C.Pdu("p1", size=2, id=1)
            p1.add_signal(C.Signal("x", start_bit=0, size=8, is_little_endian=False, is_signed=False))
            p1.add_signal(C.Signal("y", start_bit=8, size=8, is_little_endian=False, is_signed=True))
            p2 = C.Pdu("p2", size=1, id=2)
            p2.add_signal(C.Signal("z", start_bit=0, size=8, is_little_endian=False, is_signed=False))
            fc.add_pdu(p1)
            fc.add_pdu(p2)
            out.append(("container", fc))
        return out

    def canon(r):
        """canonical, comparable form of an unpack/decode result (dicts, lists, DecodedSignal)"""
        if isinstance(r, dict):
            return {k: canon(v) for k, v in r.items()}
        if isinstance(r, (list, tuple)):
            return [canon(v) for v in r]
        if hasattr(r, "raw_value"):
            return r.raw_value
        return r

    for L in ([1, 2, 3, 8, 12, 64] if not thorough else list(range(1, 65))):
        for kind, fr in make_frames(L):
            db = C.CanMatrix()
            db.add_frame(fr)
            for rx in range(0, 2 * L + 1):
                d = bytes(rng.randrange(256) for _ in range(rx))
                if kind == "container" and rx >= 5:
                    d = bytes([1, 2, 0x11, 0x22, 2, 1, 0x33]) + d[7:] if rx >= 7 else d
                for at in (False, True):
                    for ae in (False, True):
                        st, r = impl_unpack(fr, d, allow_truncated=at, allow_exceeded=ae)
                        chk.case((L, kind, rx, at, ae, d), rx != L)
                        chk.count("len-" + kind)
                        chk.count("rx<size" if rx < L else ("rx>size" if rx > L else "rx=size"))
                        # oracle
                        if rx == L:
                            exp_d = d
                        elif rx < L and at:
                            exp_d = d + b"\xff" * (L - rx)
                        elif rx > L and ae:
                            exp_d = d[:L]
                        else:
                            exp_d = None
                        if exp_d is None:
                            if st != "len":
                                chk.violation("length-not-refused", "payload of wrong length was not refused with a length error",
                                              dict(kind=kind, size=L, rx=rx, allow_truncated=at, allow_exceeded=ae, payload=d.hex()),
                                              "DecodingFrameLength", st)
                        else:
                            st2, r2 = impl_unpack(fr, exp_d)
                            if st == "len" or st != st2 or canon(r) != canon(r2):
                                chk.violation("length-optin-differs", "opted-in payload not read as if padded with 0xFF / cut to the declared length",
                                              dict(kind=kind, size=L, rx=rx, allow_truncated=at, allow_exceeded=ae, payload=d.hex()),
                                              canon(r2) if st2 == "ok" else st2, canon(r) if st == "ok" else st)
                        # gate model
                        model_lines.append(core.fmt_case(104, [[L, int(at), int(ae)], list(d)]))
                        model_expect.append([[0]] if exp_d is None and st == "len" else ([[1], list(exp_d)] if st != "len" and exp_d is not None else [[-1]]))
                        model_info.append(dict(kind=kind, size=L, rx=rx, at=at, ae=ae, payload=d.hex(), gate=True))
                # Frame.decode and CanMatrix.decode never take the opt-in
                for name, fn in (("Frame.decode", lambda: fr.decode(d)), ("CanMatrix.decode", lambda: db.decode(fr.arbitration_id, d))):
                    try:
                        fn()
                        res = "ok"
                    except C.DecodingFrameLength:
                        res = "len"
                    except Exception as e:  # container payloads may fail later for other reasons
                        res = "other:" + type(e).__name__
                    chk.evaluations += 1
                    if rx != L and res != "len":
                        chk.violation("decode-silent-length", "%s decoded a payload of wrong length" % name,
                                      dict(kind=kind, size=L, rx=rx, payload=d.hex()), "DecodingFrameLength", res)
                    if rx == L and res == "len":
                        chk.violation("decode-refuses-right-length", "%s refused a payload of the declared length" % name,
                                      dict(kind=kind, size=L, rx=rx, payload=d.hex()), "decoded", res)

    # ---------- part 4b: the length rule through the python-can entry point ----------
    # decode_pycan has no opt-in either; the message object is a stand-in carrying every can.Message attribute
    # (python-can is not installed), classic and CAN FD, with payload lengths including the CAN FD DLC steps.
    class _Msg(object):
        def __init__(self, arb, ext, data, fd):
            self.arbitration_id, self.is_extended_id, self.data, self.dlc = arb, ext, data, len(data)
            self.is_fd, self.bitrate_switch, self.error_state_indicator = fd, fd, False
            self.is_remote_frame = self.is_error_frame = False
            self.is_rx, self.channel, self.timestamp = True, None, 0.0

        def __len__(self):
            return len(self.data)

    fd_steps = [0, 1, 2, 3, 4, 5, 6, 7, 8, 12, 16, 20, 24, 32, 48, 64]
    for L in ([1, 2, 3, 8, 9, 10, 12, 13, 17, 21, 25, 33, 49, 63, 64] if not thorough else list(range(1, 65))):
        for kind, fr in make_frames(L):
            db = C.CanMatrix()
            db.add_frame(fr)
            rxs = sorted(set(fd_steps + [L - 1, L, L + 1, 2 * L] + [rng.randrange(0, 2 * L + 1) for _ in range(4)]))
            for rx in rxs:
                if rx < 0:
                    continue
                d = bytes(rng.randrange(256) for _ in range(rx))
                if kind == "container" and rx >= 7:
                    d = bytes([1, 2, 0x11, 0x22, 2, 1, 0x33]) + d[7:]
                for fd in (False, True):
                    for payload in (d, bytearray(d)):
                        m = _Msg(fr.arbitration_id.id, fr.arbitration_id.extended, payload, fd)
                        try:
                            r = db.decode_pycan(m)
                            res = "ok"
                        except C.DecodingFrameLength:
                            res = "len"
                        except Exception as e:
                            res = "other:" + type(e).__name__
                        chk.case(("pycan", L, kind, rx, fd, d), rx != L)
                        chk.count("decode_pycan-fd" if fd else "decode_pycan-classic")
                        if rx != L and res != "len":
                            chk.violation("decode-silent-length", "CanMatrix.decode_pycan decoded a payload of wrong length",
                                          dict(kind=kind, size=L, rx=rx, is_fd=fd, payload=d.hex()), "DecodingFrameLength", res)
                        if rx == L:
                            try:
                                r0 = canon(db.decode(fr.arbitration_id, d))
                                res0 = "ok"
                            except Exception as e:
                                r0, res0 = None, "other:" + type(e).__name__
                            if res == "len" or res != res0 or (res == "ok" and canon(r) != r0):
                                chk.violation("decode-pycan-value", "CanMatrix.decode_pycan reads a payload of the declared length differently "
                                              "from CanMatrix.decode", dict(kind=kind, size=L, is_fd=fd, payload=d.hex()), r0 if res0 == "ok" else res0,
                                              canon(r) if res == "ok" else res)
    chk.sample(dict(kind="plain", size=3, rx=2, allow_truncated=True, allow_exceeded=False, read_as="payload + ff"))

    if not ok:
        chk.ties["correspondence"] = "not run (build failed)"
        return
    # ---------- tie: model vs implementation ----------
    out = core.run_model(model_lines + spec_lines)
    bad = 0
    for info, exp, o in zip(model_info, model_expect, out[:len(model_lines)]):
        got = core.parse_out(o)
        if got != exp:
            bad += 1
            chk.tie_break("codec-decode", info, got, exp)
    sbad = 0
    for exp, o in zip(spec_expect, out[len(model_lines):]):
        if core.parse_out(o) != exp:
            sbad += 1
            chk.tie_break("spec-transcription", "extracted convention_value differs from the Python oracle", core.parse_out(o), exp)
    chk.ties["correspondence"] = {"suite": "codec-decode (cmd 102/104)", "cases": len(model_lines), "disagreements": bad,
                                  "spec_vs_python_oracle": {"cases": len(spec_lines), "disagreements": sbad}}
    idx = [i for i in rng.sample(range(len(model_lines)), min(400, len(model_lines)))]
    shard = []
    for i in idx:
        c, groups = model_lines[i].split(" ", 1)
        shard.append((int(c, 16), core.parse_out(groups), model_expect[i]))
    mm, log = core.coq_shard(shard, "c01")
    chk.ties["vm_compute_shard"] = {"cases": len(shard), "mismatches": mm}
    if mm is None:
        chk.obligation_failures.append("in-Coq shard failed to evaluate")
        chk.build_log = log[-3000:]
    else:
        for i in mm:
            chk.tie_break("codec-decode-shard", shard[i][1], "vm_compute differs", shard[i][2])
