"""C15: independent PEAK SYM (FormatVersion 5.0) writer following tests/files/sym/test.sym (written by the PCAN Symbol Editor).
Never calls canmatrix.

  {ENUMS} enum Name(0="a", 1="b")        {SEND} | {RECEIVE} | {SENDRECEIVE}
  [Frame]  ID=1A0h // comment   Type=Extended   DLC=8
  Var=Name unsigned|signed|bit|float|double start,length [-m] /u:unit /f:factor /o:offset /min: /max: /e:Enum /d: /p: /ln:  // comment
  Mux=GroupName start,length selector [-m]     (one [Frame] block per selector; only the first carries ID/Type)
Bit positions: Intel start = least significant bit (LSB0 numbering); Motorola (-m) start = most significant bit counted in reading
order (sequential MSB0 numbering) - the sample's `Enable_command unsigned 6,2 -m` is the KCD sample's bits 0..1 of byte 0.
Lexical choices (single separators only): eol; num.scale (/f /o); num.limit (/min /max); order.switch (asis|rev|shuf) incl. position
of -m; explicit (write /f:1 /o:0 although they are the defaults); omit_full (leave /min /max out when they span the whole raw range);
bit (1-bit unsigned as type `bit`); idpad (ID zero padded to 3/8 hex digits); idcase (hex digits upper|lower); muxhex (selector as
hex with h suffix); section (send|receive|sendreceive|mixed); cmsep (tab|space before //); uquote (always quote units);
enumwrap (enum list wrapped over lines); order.frames; order.vars; title (Title line present)
"""
import random

from netdesc import render_number, msb0

CANON = {"eol": "\n", "num.scale": "plain", "num.limit": "plain", "order.switch": "asis", "explicit": False, "omit_full": False, "bit": False,
         "idpad": True, "idcase": "upper", "muxhex": False, "section": "sendreceive", "cmsep": "\t", "uquote": False, "enumwrap": False,
         "order.frames": "asis", "order.vars": "asis", "title": True, "blank": 1}
ENCODINGS = ["iso-8859-1", "utf-8"]


def random_lex(rng):
    lex = {}
    def maybe(k, choices, p=0.35):
        if rng.random() < p:
            lex[k] = rng.choice(choices)
    maybe("eol", ["\r\n"])
    maybe("num.scale", ["expE", "expe", "plus", "tz", "nz"], 0.5)
    maybe("num.limit", ["expE", "expe", "plus", "tz", "nz"], 0.5)
    maybe("order.switch", ["rev", "shuf"], 0.5)
    maybe("explicit", [True])
    maybe("omit_full", [True])
    maybe("bit", [True])
    maybe("idpad", [False])
    maybe("idcase", ["lower"])
    maybe("muxhex", [True])
    maybe("section", ["send", "receive", "mixed"])
    maybe("cmsep", [" "])
    maybe("uquote", [True])
    maybe("enumwrap", [True])
    maybe("order.frames", ["rev", "shuf"])
    maybe("order.vars", ["rev", "shuf"])
    maybe("title", [False])
    maybe("blank", [0])
    lex["order_seed"] = rng.randrange(1 << 30)
    return lex


def render(desc, lex=None, encoding="iso-8859-1"):
    lx = dict(CANON)
    lx.update(lex or {})
    orng = random.Random(lx.get("order_seed", 0))

    def order(mode, items):
        items = list(items)
        if mode == "rev":
            items.reverse()
        elif mode == "shuf":
            orng.shuffle(items)
        return items
    out = ["FormatVersion=5.0 // Do not edit this line!"]
    if lx["title"]:
        out.append('Title="C15 independent writer"')
    out += [""] * lx["blank"]
    # ---- enums ----
    enums = []
    enum_of = {}
    for fr in desc["frames"]:
        for sg in fr["signals"]:
            if sg["values"] and not (sg["mux"] and sg["mux"]["role"] == "multiplexer"):
                name = "VT_%s_%s" % (fr["name"], sg["name"])
                enum_of[(fr["name"], sg["name"])] = name
                items = ['%d="%s"' % (k, v) for k, v in sorted(sg["values"].items())]
                if lx["enumwrap"] and len(items) > 1:
                    half = (len(items) + 1) // 2
                    enums.append("enum %s(%s," % (name, ", ".join(items[:half])))
                    enums.append("  %s)" % ", ".join(items[half:]))
                else:
                    enums.append("enum %s(%s)" % (name, ", ".join(items)))
    out.append("{ENUMS}")
    out += enums
    out += [""] * lx["blank"]

    def var_line(fr, sg):
        if sg["type"] == "float":
            typ = "float" if sg["width"] == 32 else "double"
        elif sg["type"] == "signed":
            typ = "signed"
        else:
            typ = "bit" if (lx["bit"] and sg["width"] == 1) else "unsigned"
        start = sg["start"] if sg["byte_order"] == "intel" else msb0(sg["start"])
        sw = []
        if sg["byte_order"] == "motorola":
            sw.append("-m")
        if sg["unit"] or lx["explicit"]:
            u = sg["unit"]
            sw.append('/u:"%s"' % u if (lx["uquote"] or " " in u or u == "") else "/u:" + u)
        if sg["factor"] != 1 or lx["explicit"]:
            sw.append("/f:" + render_number(sg["factor"], lx["num.scale"]))
        if sg["offset"] != 0 or lx["explicit"]:
            sw.append("/o:" + render_number(sg["offset"], lx["num.scale"]))
        full = False
        if sg["type"] != "float":
            w = sg["width"]
            lo, hi = (-(1 << (w - 1)), (1 << (w - 1)) - 1) if sg["type"] == "signed" else (0, (1 << w) - 1)
            full = sg["min"] == sg["offset"] + lo * sg["factor"] and sg["max"] == sg["offset"] + hi * sg["factor"]
        if not (full and lx["omit_full"]):
            sw.append("/min:" + render_number(sg["min"], lx["num.limit"]))
            sw.append("/max:" + render_number(sg["max"], lx["num.limit"]))
        if (fr["name"], sg["name"]) in enum_of:
            sw.append("/e:" + enum_of[(fr["name"], sg["name"])])
        x = sg.get("sym") or {}
        if "start_value" in x:
            sw.append("/d:" + render_number(x["start_value"], lx["num.limit"]))
        if "decimals" in x:
            sw.append("/p:%d" % x["decimals"])
        if "long_name" in x:
            sw.append('/ln:"%s"' % x["long_name"] if (" " in x["long_name"] or lx["uquote"]) else "/ln:" + x["long_name"])
        sw = order(lx["order.switch"], sw)
        line = "Var=%s %s %d,%d" % (sg["name"], typ, start, sg["width"]) + "".join(" " + x for x in sw)
        if sg.get("comment"):
            line += lx["cmsep"] + "// " + sg["comment"]
        return line

    def frame_blocks(fr):
        hexid = ("%X" if lx["idcase"] == "upper" else "%x") % fr["id"]
        if lx["idpad"]:
            hexid = hexid.rjust(8 if fr["extended"] else 3, "0")
        head = ["ID=%sh" % hexid + ((lx["cmsep"] + "// " + fr["comment"]) if fr.get("comment") else "")]
        if fr["extended"]:
            head.append("Type=Extended")
        head.append("DLC=%d" % fr["length"])
        muxer = [s for s in fr["signals"] if s["mux"] and s["mux"]["role"] == "multiplexer"]
        blocks = []
        if not muxer:
            blocks.append(["[%s]" % fr["name"]] + head + [var_line(fr, s) for s in order(lx["order.vars"], fr["signals"])])
            return blocks
        mx = muxer[0]
        sels = sorted({s["mux"]["selector"] for s in fr["signals"] if s["mux"] and s["mux"]["role"] == "muxed"})
        first = True
        mstart = mx["start"] if mx["byte_order"] == "intel" else msb0(mx["start"])
        for sel in sels:
            b = ["[%s]" % fr["name"]] + (head if first else ["DLC=%d" % fr["length"]])
            first = False
            selt = ("%Xh" % sel) if lx["muxhex"] else str(sel)
            b.append("Mux=Grp%d_%s %d,%d %s" % (sel, fr["name"], mstart, mx["width"], selt) + (" -m" if mx["byte_order"] == "motorola" else ""))
            b += [var_line(fr, s) for s in order(lx["order.vars"], [s for s in fr["signals"] if s["mux"] and s["mux"].get("selector") == sel])]
            blocks.append(b)
        return blocks

    frames = order(lx["order.frames"], desc["frames"])
    if lx["section"] == "mixed":
        parts = {"SEND": [], "RECEIVE": [], "SENDRECEIVE": []}
        for i, fr in enumerate(frames):
            parts[["SEND", "RECEIVE", "SENDRECEIVE"][i % 3]].append(fr)
    else:
        parts = {lx["section"].upper(): frames}
    for sec in ("SEND", "RECEIVE", "SENDRECEIVE"):
        if sec not in parts or not parts[sec]:
            continue
        out.append("{%s}" % sec)
        out += [""] * lx["blank"]
        for fr in parts[sec]:
            for b in frame_blocks(fr):
                out += b
                out += [""] * lx["blank"]
    return "".join(l + lx["eol"] for l in out).encode(encoding)


def render_with_opts(desc, lex, encoding):
    opts = {} if encoding == "iso-8859-1" else {"symImportEncoding": encoding}
    return render(desc, lex, encoding), opts
