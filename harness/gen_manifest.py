"""Writes MANIFEST.json from the table below (kept in one place so it stays valid)."""
import json, os
V = os.path.dirname(os.path.dirname(os.path.abspath(__file__)))
TB = ("Trusted: Coq 8.16.1 kernel; the axioms Print Assumptions reports (none unless listed in the evidence); "
      "the correspondence harness (generators, canonicalisation); extraction (ExtrOcamlBasic) + OCaml driver, "
      "cross-checked by an in-Coq vm_compute shard; modelled-not-verified parts per DESIGN.md section 3. ")
CHECKS = {
 "C08": dict(text="Theorems (coq/props/C08.v) prove for ALL byte orders, widths, positions and notations that set/get_startbit are "
             "mutually inverse, that every notation's number denotes the same physical bit of the stored signal, and that exactly the "
             "positions before bit 0 are rejected. The model is tied to the code by an exhaustive differential run over the property's "
             "whole finite domain (608k set calls x 6 get notations) on every run.",
             note=TB + "Model: coq/model/Startbit.v (hand written).",
             technique="Coq proof over a Gallina model + exhaustive model/implementation correspondence", ref="5/C08"),
 "C01": dict(text="Theorems (coq/props/C01.v) prove for EVERY payload length, width >= 1, placement inside the frame, byte order and "
             "signedness that the decoded raw value is exactly the number formed by the convention's bits (bit sum; two's complement; float = the "
             "field's pattern), that it depends on exactly those bits, the sawtooth walk, and the closed form of the length rule. The model is tied "
             "to Frame.unpack/decode and CanMatrix.decode by a differential run (~58k cases quick, all lengths x widths x starts thorough) incl. "
             "placements that leave the frame; the search evaluates the property on the implementation with an independent bit-sum oracle.",
             note=TB + "Model: coq/model/Codec.v. struct's IEEE conversion is trusted (applied to both sides); PDU-container payload walking is not modelled (length rule covered by the gate model + metamorphic identity).",
             technique="Coq proof over a Gallina model + model/implementation correspondence + oracle-based search", ref="5/C01"),
 "C02": dict(text="Theorems (coq/props/C02.v) prove for EVERY frame length, every layout of pairwise non-overlapping signals (any widths, byte "
             "orders, signedness, float32/64), every subset supplied and every representable value: the encoder is total, the payload has the "
             "frame's length, each supplied signal decodes back to its value, every foreign bit is 0, and re-encoding decoded values reproduces "
             "any payload on covered bits. Tie: differential run of Frame.encode against the model (incl. overlapping layouts); search with "
             "decode/encode identities evaluated on the implementation.",
             note=TB + "Model: coq/model/Codec.v. Float values are handled as bit patterns (struct trusted); label inputs belong to C04.",
             technique="Coq proof over a Gallina model + model/implementation correspondence + oracle-based search", ref="5/C02"),
 "C09": dict(text="Theorems (coq/props/C09.v) prove for ALL integers: constructibility iff in the 11/29-bit range, lossless compound form, the "
             "J1939 getters equal the arithmetic fields and recompose to the identifier, each setter changes only its field, the PGN rule of "
             "J1939-21 (PS counted iff PF >= 240), PGN independence of priority/source/destination, and the frame CanMatrix.decode selects in any "
             "mixed matrix (exact id, else first 29-bit frame with the same PGN, else nothing; never an exception). Tie: differential run (all 2^11 "
             "standard ids, every field exhaustively in several contexts, boundary integers, generated mixed matrices).",
             note=TB + "Model: coq/model/ArbId.v (after the fix: commit dda9667 in /repo). frame_by_id's memo is modelled as a scan here (C10 covers the memo).",
             technique="Coq proof over a Gallina model (bit-mask lemmas -> div/mod arithmetic) + model/implementation correspondence", ref="5/C09"),
 "C03": dict(text="Theorems (coq/props/C03.v) prove for every simply multiplexed frame, selector value (used or not) and payload that decode returns exactly "
             "the multiplexer, the unbound signals and the signals bound to the selector value present, each with its C01 value; for extended "
             "multiplexing (any nesting depth, several ranges per signal) that a signal is returned iff it is Active (inductive relation), that the "
             "selector walk terminates for all frames with unique names, the inclusive range test, that encode writes only the selected group and "
             "round-trips with overlapping groups, and that complex encode is refused. Tie: differential run of Frame.decode/encode incl. frames "
             "loaded from generated DBC text (SG_MUL_VAL_), every selector value, range boundaries.",
             note=TB + "Model: coq/model/Mux.v on top of Codec.v. Outside: PDU containers, float multiplexers, duplicate signal names, the DBC regexes.",
             technique="Coq proof over a Gallina model + model/implementation correspondence + oracle-based search", ref="5/C03"),
 "C11": dict(text="Theorems (coq/props/C11.v) prove, for matrices whose receiver lists are up to date, what rename/delete (object or glob)/update/"
             "remove-obsolete do to the ECU list and to every transmitter, signal-receiver and frame-receiver list (image under old->new, exact "
             "filters, nothing else changed), that the glob matcher decides fnmatch's relation for literal/*/? patterns, and by induction over "
             "arbitrary operation sequences that every frame's receiver list stays the duplicate-free union of its signals' receivers. Four "
             "_refuted witnesses show each envelope hypothesis is needed. Tie: every state after every operation of generated histories compared "
             "with the model; search with a set-based oracle; shrinking of failing histories.",
             note=TB + "Model: coq/model/EcuOps.v, Glob.v. Envelope hypotheses (visible in the statements): no duplicate names inside one reference list, no surrounding whitespace in names, no glob metacharacters in ECU names; references held by free signals are not rewritten by rename/delete (observed, recorded in DESIGN.md).",
             technique="Coq proof (invariant by induction over operation sequences) + model/implementation correspondence on histories", ref="5/C11"),
 "C17": dict(text="Theorems (coq/props/C17.v) prove for all matrices, names and patterns: delete_zero_signals = filter (size <> 0) per frame with order and "
             "everything else kept; delete_obsolete_defines keeps exactly the definitions some frame/ECU/signal (incl. free signals) uses; del_signal/"
             "del_frame/rename_signal/rename_frame/del_*_attributes change exactly the matching objects (prefix*, *suffix, exact; glob for deletion) and "
             "any sequence of these equals the fold of the specified effects. The repaired defects are reproduced as _refuted witnesses on models of "
             "the old loops. Tie: ~17k single operations and histories vs the model and vs an independent oracle; fnmatch tie on 8k pairs; DBC export "
             "of the result.",
             note=TB + "Model: coq/model/BulkOps.v, Glob_c17.v (proved equal to Glob.v). Patterns containing '[' are outside the glob model; shared Signal objects between frames are outside.",
             technique="Coq proof over a Gallina model of the list-editing loops + model/implementation correspondence + oracle-based search", ref="5/C17"),
 "C12": dict(text="Theorems (coq/props/C12.v) prove for all source/target pairs: copy_frame is refused iff the id exists (target unchanged); the new frame "
             "equals the source frame field by field; referenced ECUs and used definitions are brought along; the effective value (explicit, else "
             "default) of every attribute of the copied frame, its signals and brought ECUs equals the source's in all cells of explicit/default x "
             "absent/same/other default; every object already in the target keeps structure and effective values under copy_frame, copy_ecu, "
             "copy_signal, merge and any sequence of them (fold_left); copy_ecu_with_frames copies exactly the requested tx/rx frames; merge = fold "
             "of copy_frame. A _refuted witness shows the namespace hypothesis (attribute names not shared across define categories) is needed. Tie: "
             "normal form and effective-value table of the target after generated histories vs the model; search with a snapshot oracle incl. "
             "deep-copy independence.",
             note=TB + "Model: coq/model/CopyOps.v (after the fixes cc0f6c0, 3434241, 7a6c373 in /repo). frame_by_id is a scan here (C10 covers the memo). direct_ecu_only=True deleting non-communicating ECUs is by design and not claimed as a violation.",
             technique="Coq proof over a Gallina model of copy/merge + model/implementation correspondence on histories + oracle-based search", ref="5/C12"),
}
NOT_YET = {}
props = [json.loads(l) for l in open(os.path.join(V, "properties.jsonl"))]
checks = []
na = []
for p in props:
    pid = p["id"]
    if pid in CHECKS:
        c = CHECKS[pid]
        checks.append({
            "property_id": pid,
            "quick_cmd": "./check %s --tier quick" % pid,
            "thorough_cmd": "./check %s --tier thorough" % pid,
            "evidence_file": "/verif/evidence/%s.json" % pid,
            "replay_cmd_template": "./check %s --replay {path}" % pid,
            "engine": "coq-model-correspondence",
            "level_claimed": {"category": "proof", "text": c["text"], "design_ref": "DESIGN.md section " + c["ref"]},
            "level_note": c["note"],
            "technique": c["technique"],
        })
    else:
        na.append({"property_id": pid, "reason": NOT_YET.get(pid, "check not built yet in this round (planned in DESIGN.md section 5; not a statement that the technique cannot apply)")})
m = {
 "version": 1,
 "setup_cmd": "./setup.sh",
 "hooks": {"guard": "CANMATRIX_VERIF", "enable": "no hooks are needed: the checks import /repo/src as it is (PYTHONPATH=/repo/src)",
           "baseline_off_cmd": "cd /repo && /venv/bin/python -m pytest -ra -q -p no:cacheprovider --timeout=900 --continue-on-collection-errors",
           "source_commits": [], "add_only": True},
 "engines": [{"name": "coq-model-correspondence", "path": "/verif/check", "serves_properties": [c["property_id"] for c in checks],
              "kind_free_text": "Coq 8.16.1 theorems about hand-written Gallina models (coq/), tied to /repo's working tree on every run by differential runs of the extracted model (coq/extract) and an in-Coq vm_compute shard against the Python implementation; search for failing inputs with the proved specification as oracle"}],
 "checks": checks,
 "not_applicable": na,
 "notes": "See DESIGN.md. ./check <id> --tier quick|thorough; known_findings.json lists recorded and fixed defects.",
}
json.dump(m, open(os.path.join(V, "MANIFEST.json"), "w"), indent=1)
print(len(checks), "checks,", len(na), "not claimed")
