"""Writes MANIFEST.json from the table below (kept in one place so it stays valid)."""
import json, os
V = os.path.dirname(os.path.dirname(os.path.abspath(__file__)))
TB = ("Trusted: Coq 8.16.1 kernel; the axioms Print Assumptions reports (none unless listed in the evidence); "
      "the correspondence harness (generators, canonicalisation); extraction (ExtrOcamlBasic) + OCaml driver, "
      "cross-checked by an in-Coq vm_compute shard; modelled-not-verified parts per DESIGN.md section 3. ")
PT = ("Coq proof over Gallina models of the semantic cores + model/implementation correspondence + generative search on the real "
      "readers/writers (partial: text/XML glue is tested, not proved)")
CHECKS = {
 "C08": dict(text="Theorems (coq/props/C08.v) prove for ALL byte orders, widths, positions and notations that set/get_startbit are "
             "mutually inverse, that every notation's number denotes the same physical bit of the stored signal, and that exactly the "
             "positions before bit 0 are rejected. The model is tied to the code by an exhaustive differential run over the property's "
             "whole finite domain (both byte orders x widths 1..64 x positions 0..511 x 9 set notations = 590k set calls x 6 get notations) on every run, "
             "plus query/edit histories on one signal object; the regenerated definitions (py2coq) are proved equal to the model over that domain.",
             note=TB + "Model: coq/model/Startbit.v (hand written).",
             technique="Coq proof over a Gallina model + exhaustive model/implementation correspondence", ref="5/C08"),
 "C01": dict(text="Theorems (coq/props/C01.v) prove for EVERY payload length, width >= 1, placement inside the frame, byte order and "
             "signedness that the decoded raw value is exactly the number formed by the convention's bits (bit sum; two's complement; float = the "
             "field's pattern), that it depends on exactly those bits, the sawtooth walk, and the closed form of the length rule. The model is tied "
             "to Frame.unpack/decode, CanMatrix.decode and decode_pycan by a differential run (~60k cases quick, all lengths x widths x starts thorough) "
             "inside the quantifier (placements that leave the frame are neither judged nor tied), incl. one frame object decoded again after in-place "
             "edits; the search evaluates the property on the implementation with an independent bit-sum oracle.",
             note=TB + "Model: coq/model/Codec.v. struct's IEEE conversion is trusted (applied to both sides); PDU-container payload walking is not modelled (length rule covered by the gate model + metamorphic identity).",
             technique="Coq proof over a Gallina model + model/implementation correspondence + oracle-based search", ref="5/C01"),
 "C02": dict(text="Theorems (coq/props/C02.v) prove for EVERY frame length, every layout of pairwise non-overlapping signals (any widths, byte "
             "orders, signedness, float32/64), every subset supplied and every representable value: the encoder is total, the payload has the "
             "frame's length, each supplied signal decodes back to its value, every foreign bit is 0, and re-encoding decoded values reproduces "
             "any payload on covered bits. Tie: differential run of Frame.encode against the model on non-overlapping layouts (overlapping ones are outside "
             "the quantifier and not tied), incl. one frame object encoded again after in-place layout edits through Frame.encode / CanMatrix.encode / "
             "signals_to_bytes; search with decode/encode identities evaluated on the implementation.",
             note=TB + "Model: coq/model/Codec.v. Float values are handled as bit patterns (struct trusted); label inputs belong to C04.",
             technique="Coq proof over a Gallina model + model/implementation correspondence + oracle-based search", ref="5/C02"),
 "C09": dict(text="Theorems (coq/props/C09.v) prove for ALL integers: constructibility iff in the 11/29-bit range, lossless compound form, the "
             "J1939 getters equal the arithmetic fields and recompose to the identifier, each setter changes only its field, the PGN rule of "
             "J1939-21 (PS counted iff PF >= 240), PGN independence of priority/source/destination, and the frame CanMatrix.decode selects in any "
             "mixed matrix (exact id, else first 29-bit frame with the same PGN, else nothing; never an exception). Tie: differential run (all 2^11 "
             "standard ids, every field exhaustively in several contexts, boundary integers, generated mixed matrices incl. frames flagged J1939 after "
             "first use); where several frames carry the received PGN any of them is accepted (the property does not say which), received 11-bit "
             "identifiers are not judged; the regenerated ArbitrationId definitions (py2coq) are proved equal to the model over the quantifier.",
             note=TB + "Model: coq/model/ArbId.v (after the fix: commit dda9667 in /repo). frame_by_id's memo is modelled as a scan here (C10 covers the memo).",
             technique="Coq proof over a Gallina model (bit-mask lemmas -> div/mod arithmetic) + model/implementation correspondence", ref="5/C09"),
 "C03": dict(text="Theorems (coq/props/C03.v) prove for every simply multiplexed frame, selector value (used or not) and payload that decode returns exactly "
             "the multiplexer, the unbound signals and the signals bound to the selector value present, each with its C01 value; for extended "
             "multiplexing (any nesting depth, several ranges per signal) that a signal is returned iff it is Active (inductive relation), that the "
             "selector walk terminates for all frames with unique names, the inclusive range test, that encode writes only the selected group and "
             "round-trips with overlapping groups, and that complex encode is refused. Tie: differential run of Frame.decode/encode incl. frames "
             "loaded from generated DBC text (SG_MUL_VAL_), every selector value, range boundaries.",
             note=TB + "Model: coq/model/Mux.v on top of Codec.v. Outside: PDU containers, float multiplexers, duplicate signal names, the DBC regexes.",
             technique="Coq proof over a Gallina model + model/implementation correspondence + oracle-based search", ref="5/C03"),
 "C11": dict(text="Theorems (coq/props/C11.v) prove, for matrices whose receiver lists are up to date, what rename/delete (object or glob)/update/"
             "remove-obsolete do to the ECU list and to every transmitter, signal-receiver and frame-receiver list (image under old->new, exact "
             "filters, nothing else changed), that the glob matcher decides fnmatch's relation for literal/*/? patterns, and by induction over "
             "arbitrary operation sequences that every frame's receiver list stays the duplicate-free union of its signals' receivers. Four "
             "_refuted witnesses show each envelope hypothesis is needed. Tie: every state after every operation of generated histories compared "
             "with the model; search with a set-based oracle; shrinking of failing histories.",
             note=TB + "Model: coq/model/EcuOps.v, Glob.v. Envelope hypotheses (visible in the statements): no duplicate names inside one reference list, no surrounding whitespace in names, no glob metacharacters in ECU names; references held by free signals are not rewritten by rename/delete (observed, recorded in DESIGN.md).",
             technique="Coq proof (invariant by induction over operation sequences) + model/implementation correspondence on histories", ref="5/C11"),
 "C17": dict(text="Theorems (coq/props/C17.v) prove for all matrices, names and patterns: delete_zero_signals = filter (size <> 0) per frame with order and "
             "everything else kept; delete_obsolete_defines keeps exactly the definitions some frame/ECU/signal (incl. free signals) uses; del_signal/"
             "del_frame/rename_signal/rename_frame/del_*_attributes change exactly the matching objects (prefix*, *suffix, exact; glob for deletion) and "
             "any sequence of these equals the fold of the specified effects. The repaired defects are reproduced as _refuted witnesses on models of "
             "the old loops. Tie: ~17k single operations and histories vs the model and vs an independent oracle; fnmatch tie on 8k pairs; DBC export "
             "of the result.",
             note=TB + "Model: coq/model/BulkOps.v, Glob_c17.v (proved equal to Glob.v). Patterns containing '[' are outside the glob model; shared Signal objects between frames are outside.",
             technique="Coq proof over a Gallina model of the list-editing loops + model/implementation correspondence + oracle-based search", ref="5/C17"),
 "C12": dict(text="Theorems (coq/props/C12.v) prove for all source/target pairs: copy_frame is refused iff the id exists (target unchanged); the new frame "
             "equals the source frame field by field; referenced ECUs and used definitions are brought along; the effective value (explicit, else "
             "default) of every attribute of the copied frame, its signals and brought ECUs equals the source's in all cells of explicit/default x "
             "absent/same/other default; every object already in the target keeps structure and effective values under copy_frame, copy_ecu, "
             "copy_signal, merge and any sequence of them (fold_left); copy_ecu_with_frames copies exactly the requested tx/rx frames; merge = fold "
             "of copy_frame. A _refuted witness shows the namespace hypothesis (attribute names not shared across define categories) is needed. Tie: "
             "normal form and effective-value table of the target after generated histories vs the model; search with a snapshot oracle incl. "
             "deep-copy independence.",
             note=TB + "Model: coq/model/CopyOps.v (after the fixes cc0f6c0, 3434241, 7a6c373 in /repo). frame_by_id is a scan here (C10 covers the memo). direct_ecu_only=True deleting non-communicating ECUs is by design and not claimed as a violation.",
             technique="Coq proof over a Gallina model of copy/merge + model/implementation correspondence on histories + oracle-based search", ref="5/C12"),

 "C04": dict(text="Theorems (coq/props/C04.v) prove over a Gallina transcription of _pydecimal's add/mul/div/round (prec 28, half-even): raw2phys is exactly "
             "raw*factor+offset and phys2raw(raw2phys(raw)) = raw for EVERY integer raw with <= 28 digits (all widths 1..64, signed or not) whenever the "
             "exact results have <= 28 significant digits and factor <> 0; two _refuted witnesses show both digit hypotheses are needed; factor 0 -> 1; "
             "value tables (label -> key, named value = label or scaled number, unique-label round trip); default min/max are the images of the raw "
             "range bounds. Translator tie (coq/gen/Tie_scaling.v): Signal.calculate_raw_range regenerated from the current source by harness/py2coq.py is "
             "proved equal to the model for all widths 1..64. Tie: 24k decimal operations vs the C decimal module compared as as_tuple(), signal construction and per-raw results; search "
             "with exact Fractions over every raw for widths <= 12 x 64 scalings.",
             note=TB + "Model: coq/model/Decimal.v, Scaling.v, ValueTable.v. The C decimal module and Decimal(str) parsing are trusted (tied by differential runs); the sign of zero is not modelled; float signals and non-label strings are outside.",
             technique="Coq proof over a Gallina model of decimal arithmetic + source-to-Gallina translator tie for the raw range + model/implementation correspondence + exact-rational search oracle", ref="5/C04"),
 "C10": dict(text="Theorems (coq/props/C10.v) prove by induction over ALL operation sequences on any number of matrices (add/remove/delete/rename frames, "
             "identifier replaced or changed in place, reader-style append, add_ecu, copy_frame, merge, lookups) that the memo invariant holds, that "
             "frame_by_id returns a frame currently in that matrix carrying the key and None exactly when a scan finds none, that name/PGN/header-id "
             "lookups equal the scan, and that operations on one matrix never change another matrix's frames or lookup answers. The pre-fix stale state "
             "is exhibited as the state the invariant excludes. Tie/search: 1.3M enumerated histories (prefix-closed, quick) / 14M (thorough) plus random "
             "30-step histories incl. DBC-loaded matrices, every lookup compared with a scan oracle and with the model; failing histories are shrunk.",
             note=TB + "Model: coq/model/Lookup.v (after fix a855173). get_frame_by_id/get_frame_by_name (dict indexes) and callers mutating db.frames directly (other than reader-style append) are outside, as the property says.",
             technique="Coq proof (invariant + refinement to a scan, induction over operation sequences) + exhaustive small-scope and random history correspondence", ref="5/C10"),
 "C13": dict(text="Theorems (coq/props/C13.v) prove for a function-by-function Gallina mirror of compare.py: comparing a matrix with itself reports nothing; for "
             "all 16 ignore settings nothing is reported IFF the matrices agree on the independent specification `agree` (frames, ids, senders, signals, "
             "groups, every signal field, ECUs, and unless ignored comments/attributes/definitions/value tables), per object kind and composed; every "
             "differing compared property is reported under the right object with the right kind; swapping operands swaps added/deleted (Permutation); "
             "CLI flags map to the ignore settings. Two _refuted witnesses show the unique-id and coherence hypotheses are needed. Tie: CompareResult "
             "trees vs the model's trees in exact order; search: self-compare, every single edit x 16 ignore settings, swap, CLI entry point.",
             note=TB + "Model: coq/model/Compare.v (after fixes 0da958a, 53cd885). Doubles enter as bit patterns of float(x); dump_result printing is outside; a frame that re-uses an identifier under another name is outside the completeness envelope (visible hypothesis).",
             technique="Coq proof over a Gallina mirror of compare.py + model/implementation correspondence on result trees + edit-catalogue search", ref="5/C13"),
 "C16": dict(text="Theorems (coq/props/C16.v) prove: the usage map lists at each bit exactly the signals that occupy it (= the signals whose decoded value "
             "depends on it, via C01); create_dummy_signals keeps existing signals and makes every bit belong to exactly one signal when none overlapped; "
             "calc_dlc/recalc_dlc give the least covering byte count (never below the declared one unless forced) for both byte orders; fit_dlc gives the "
             "least CAN FD length (finite sweep 0..64 lifted, > 64 unchanged; also tied by the translator); compress terminates (strictly decreasing "
             "measure), keeps widths/byte orders/relative order, creates no overlap and leaves no gap before the last signal. Tie/search: exhaustive gap "
             "patterns of 1-2 byte frames, sampled 3-byte patterns, all lengths 0..64, payload-bit flips through Frame.decode.",
             note=TB + "Model: coq/model/Layout.v (after fix aebbbf1). PDU-container branches of calc_dlc/recalc_dlc are outside; for mixed byte orders compress does nothing (modelled, tied, no theorem beyond termination).",
             technique="Coq proof over a Gallina model (fuelled loops with termination measure) + translator tie for fit_dlc + exhaustive small-scope correspondence", ref="5/C16"),
 "C05": dict(text="PARTIAL. Theorems (coq/props/C05.v): DBC start-bit numbering and compound ids round-trip (via C08/C09), multiplex tokens, long names under the "
             "stated unique-32-character-prefix condition (with a witness that it is needed), enum key/value conversion, initial value <-> GenSigStartValue, "
             "format_float text parses back to the same value, and a statement-level model dbc_read (dbc_write m) = m with dbc_write a fixed point for the "
             "core subset (ECUs, value tables, frames, senders, signals with placement/type/scaling/limits/unit/receivers/simple multiplexing, VAL_). What "
             "decides the sentence on the real code is the search: 1200 generated matrices covering 51 content classes and 5 encoding profiles, "
             "dump->load compared field by field, no 'error with line no', dump(load(dump(m))) byte-identical.",
             note=TB + "Model: coq/model/FmtDbc.v (after fixes c455eb5, b2d42a9, 1508530, 9eb66f7, 460cad5). NOT proved: that the regular expressions of load() invert the string formatting of dump(); comments, attribute definitions, signal groups, environment variables, SG_MUL_VAL_ ranges and encodings are decided by the search only.",
             technique=PT, ref="5/C05"),
 "C06": dict(text="PARTIAL. Theorems (coq/props/C06.v): for each of DBC, DBF, SYM, KCD, JSON, XLS (all three notations), ARXML the position codec read (write p) = p "
             "for every start >= 0, width >= 1 and both byte orders, the written numbers denote the physical coordinates of the LSB/MSB (so writer and "
             "reader cannot be wrong in the same way), the identifier codec round-trips every valid standard/extended id (with the pre-fix DBF reader "
             "refuted), same payload bits and raw fields through Codec.decode_signal, cluster partition preserved. The search decides it on the real code: "
             "11 format configurations x generated matrices + a placement sweep, dump->load, frames by (id, format), signals by name, occupied bits and "
             "Frame.decode on random payloads, clusters of 1..3 buses.",
             note=TB + "Model: coq/model/FmtPos.v. NOT proved: regex/lxml/json/xlrd glue between bytes and the modelled fields (extractors tie the fields on real output).",
             technique=PT, ref="5/C06"),
 "C07": dict(text="PARTIAL. Theorems (coq/props/C07.v): type words (sign/float) round-trip per format and width class, ARXML base type wide enough, multiplex tokens "
             "incl. selector 0 (DBC M/m<n>/m<n>M, simple formats, SYM hex/decimal selector), Decimal(str(d)) and format_float text parse back exactly. The "
             "search decides the feature table on the real code (factor/offset with up to 12 digits, value tables, units, multiplexing, senders, "
             "receivers, phys/named values of decoded payloads) for 11 format configurations; four defects that have no small repair are listed as "
             "known findings.",
             note=TB + "Model: coq/model/FmtNum.v. NOT proved: the characters joining the tokens, value-table/unit strings, sender/receiver lists (search only).",
             technique=PT, ref="5/C07"),
 "C14": dict(text="PARTIAL. Theorems (coq/props/C14.v): each writer's effect on its argument is the identity (after the fixes arxml/fibex/kcd work on copies; the "
             "unfixed effects are modelled too, refuted by witnesses and proved identity under receivers-propagated / unique-name hypotheses), any export "
             "history leaves the matrix unchanged so a later export equals the same export alone, and the SYM Mux-group emission is invariant under "
             "permutation of the iteration order (sorted). The search decides it on the real code: deep snapshots before/after each of 13 writers, every "
             "ordered pair of writers, repeated exports in separate processes under 3 (quick) / 8 (thorough) hash seeds.",
             note=TB + "Model: coq/model/ExportEffects.v. CPython's actual hash order cannot be exhibited by a model: that part is run, not proved. Fields outside the small matrix type are covered by the snapshot comparison only.",
             technique=PT, ref="5/C14"),
 "C19": dict(text="PARTIAL. Theorems (coq/props/C19.v): the numbers the Scapy, Wireshark, FIBEX, CSV and Canard writers emit, read with the transcribed tool "
             "conventions, select exactly the signal's payload bits (pos_of of C01) for every placement, frame length and byte order; the Wireshark Lua "
             "incl. its sign fix-up computes the C01 convention value; width/order/sign are recorded; Canard is proved for Intel and byte-local Motorola "
             "signals and refuted for byte-crossing Motorola signals (format limitation); FIBEX multiplexed frames: segment-relative reading holds iff the "
             "segment starts at 0 (known finding). The search parses real writer output with independent mini-parsers and applies the conventions to "
             "random payloads.",
             note=TB + "Model: coq/model/Exports.v. The tool conventions (T-SCAPY, T-WIRESHARK, T-FIBEX = canmatrix's own importer since the ASAM text is not available offline, T-CSV, T-CANARD) are transcriptions and part of the trusted base; they are printed in the evidence. Generated syntax, identifiers, scaling text are checked on real output only.",
             technique=PT, ref="5/C19"),
 "C15": dict(text="PARTIAL. Theorems (coq/props/C15.v): all equivalent number renderings (sign, leading/trailing zeros, point/exponent forms such as 1E-3, 1.0e-03, "
             "0.001) are accepted by the model of Decimal(text)/decode_number and denote the same value; attribute order is irrelevant (Permutation of a "
             "unique-key association list, and of the KCD signal attribute lists); omitted optional KCD attributes equal their documented defaults; "
             "COMPU-METHOD rational coefficients with any non-zero denominator give factor n1/d and offset n0/d exactly; base-type encodings determine "
             "sign/float; statements of one DBC section addressing different objects commute. The search decides the property on the real readers: "
             "independent writers for DBC, DBF, SYM, KCD, JSON and an AUTOSAR 4 subset render abstract network descriptions under randomly drawn lexical "
             "choices; the loaded matrix must equal the description, two renderings must load alike, and no load error may be reported.",
             note=TB + "Model: coq/model/Readers.v. NOT proved: that the readers' regular expressions and lxml/shlex/json walks accept every permitted spelling (searched, not proved). The independent writers and their envelope assumptions (e.g. KCD big-endian offset = MSB in sequential MSB0 numbering) are part of the trusted base.",
             technique=PT, ref="5/C15"),
 "C18": dict(text="PARTIAL. Theorems (coq/props/C18.v): option-string parsing (comma lists, old:new tuples, ecu:rx/tx suffixes, integers) round-trips and rejects exactly the "
             "malformed shapes; for ANY choice of stage operations the pipeline with no options is the identity, its result is independent of the order "
             "options are given on the command line and equals the composition of the stages in convert()'s fixed order (singles, pairs, any list), "
             "selection options run first and share one target, errors propagate; each directly modelled option (skipLongDlc, cutLongFrames with minimal "
             "length via C16, setFrameFd/unsetFrameFd, frameIdIncrement, changeFrameId, addFrameReceiver, recalcDLC, PDU-container handling) yields "
             "exactly the documented change and nothing else; the remaining options are tied to the proved operations of C10/C11/C12/C16/C17 by quoting "
             "those theorems under C18 names. The search decides it on the real tool: generated DBC files converted through the click entry point and "
             "through convert(), output re-read and compared with an independent per-option oracle, all single options with argument variations and "
             "ordered pairs; no-option output byte-identical to load+dump.",
             note=TB + "Model: coq/model/Convert.v (pipeline generic over the foreign operations; matrix types of the other models are not unified). click, file I/O, the DBC reader/writer and options after the PDU block are outside the model.",
             technique=PT, ref="5/C18"),
 "C20": dict(text="PARTIAL. Theorems (coq/props/C20.v): for ANY line-step function, lines that fail before their first mutation (or that no branch recognises) "
             "are neutral - reading with any interleaving of such lines gives the same state and post-processing result - and under `preserves_introduced` "
             "everything a prefix introduced is still present with the same fields after any continuation; instantiated for a DBC-like and a SYM-like "
             "statement language mirroring the per-line try/except structure of the readers (fail-before-mutation per statement kind, insertions outside a "
             "frame's signal list, prefix keeps frames and signals, post-processing total, SYM load errors recorded once per bad line), with _refuted "
             "witnesses for the as-found readers and for the one statement kind left unrepaired (BA_ values). The search decides it on the real readers: "
             "malformed lines of three kinds at every inter-statement position, multisets of insertions, every byte cut of generated and shipped files.",
             note=TB + "Model: coq/model/LineFold.v (after eight reader fixes). The regular expressions / splitting, multi-line comment follow-ups and most statement kinds' field parsing are outside the model (searched, not proved).",
             technique=PT, ref="5/C20"),
}
NOT_YET = {}
props = [json.loads(l) for l in open(os.path.join(V, "properties.jsonl"))]
checks = []
na = []
for p in props:
    pid = p["id"]
    if pid in CHECKS:
        c = CHECKS[pid]
        checks.append({
            "property_id": pid,
            "quick_cmd": "./check %s --tier quick" % pid,
            "thorough_cmd": "./check %s --tier thorough" % pid,
            "evidence_file": "/verif/evidence/%s.json" % pid,
            "replay_cmd_template": "./check %s --replay {path}" % pid,
            "engine": "coq-model-correspondence",
            "level_claimed": {"category": "proof", "text": c["text"], "design_ref": "DESIGN.md section " + c["ref"]},
            "level_note": c["note"],
            "technique": c["technique"],
        })
    else:
        na.append({"property_id": pid, "reason": NOT_YET.get(pid, "check not built yet in this round (planned in DESIGN.md section 5; not a statement that the technique cannot apply)")})
m = {
 "version": 1,
 "setup_cmd": "./setup.sh",
 "hooks": {"guard": "CANMATRIX_VERIF", "enable": "no hooks are needed: the checks import /repo/src as it is (PYTHONPATH=/repo/src)",
           "baseline_off_cmd": "cd /repo && /venv/bin/python -m pytest -ra -q -p no:cacheprovider --timeout=900 --continue-on-collection-errors",
           "source_commits": [], "add_only": True},
 "engines": [{"name": "coq-model-correspondence", "path": "/verif/check", "serves_properties": [c["property_id"] for c in checks],
              "kind_free_text": "Coq 8.16.1 theorems about hand-written Gallina models (coq/), tied to /repo's working tree on every run by differential runs of the extracted model (coq/extract) and an in-Coq vm_compute shard against the Python implementation; search for failing inputs with the proved specification as oracle"}],
 "checks": checks,
 "not_applicable": na,
 "notes": "See DESIGN.md. ./check <id> --tier quick|thorough; known_findings.json lists recorded and fixed defects.",
}
json.dump(m, open(os.path.join(V, "MANIFEST.json"), "w"), indent=1)
print(len(checks), "checks,", len(na), "not claimed")
