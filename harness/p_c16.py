"""C16: layout utilities agree with the codec: usage map, dummy signals, frame length, compress.
Second tie (translator): gen/Tie_frame.v (Frame.fit_dlc) and gen/Tie_layout.v (Frame.calc_dlc, CanMatrix.recalc_dlc) prove the bodies
regenerated from the source equal to Layout.fit_dlc / calc_dlc / recalc_frame / recalc_dlc for all arguments (plain frames).
Tie: Frame.get_frame_layout / create_dummy_signals / calc_dlc / fit_dlc / compress, CanMatrix.recalc_dlc / set_fd_type vs
model/Layout.v (cmd 1601-1608) on the same cases (usage map as lists of signal indices per bit, all signals after
create_dummy_signals, sizes, start bits after compress), inside the property's quantifier only and modulo what it leaves open:
a usage-map cell is compared as a set (no order inside a cell is stated), the added dummy signals by the set of bits they own (their
number, widths, names and byte order are not stated), compress only on one-byte-order non-overlapping frames, lengths 0..64.
Search oracle: a direct transcription of the property (bit positions via layouts.positions/bigpos, counting, arithmetic) and,
for the usage map, the decoder itself (flip one payload bit, see which decoded raw values change)."""
import signal as _signal
import core
import layouts

LEVEL_NOTE = ("theorems are about model/Layout.v (layout_of/get_frame_layout, dummy_scan, calc_dlc, recalc_frame, fit_dlc, "
              "set_fd_type, the two compress loops on explicit fuel); plain frames only: the PDU-container branches of calc_dlc/"
              "recalc_dlc (incl. the self.pdus slip in the force branch) are outside the model; the compress theorems other than "
              "termination speak about frames with one byte order (no-gap) that do not overlap (order, no-overlap); "
              "mixed byte orders and overlapping frames are outside compress's quantifier: modelled, neither judged nor tied; signals leaving the "
              "frame and lengths outside 0..64 likewise")

FD = [0, 1, 2, 3, 4, 5, 6, 7, 8, 12, 16, 20, 24, 32, 48, 64]


class Hang(Exception):
    pass


def _alarm(signum, frame):
    import traceback
    raise Hang("".join(traceback.format_stack(frame)[-5:]))   # where the call was when the time ran out


def guarded(fn, seconds=10):
    """run fn(); a loop that does not end within `seconds` is reported as Hang"""
    # measured in CPU time of this process (ITIMER_VIRTUAL), not wall-clock time: on a loaded machine a millisecond call can be
    # descheduled for seconds, which a wall-clock alarm reported as a hang (seen once in a thorough run under load 40)
    old = _signal.signal(_signal.SIGVTALRM, _alarm)
    _signal.setitimer(_signal.ITIMER_VIRTUAL, float(seconds))
    try:
        return fn()
    finally:
        _signal.setitimer(_signal.ITIMER_VIRTUAL, 0)
        _signal.signal(_signal.SIGVTALRM, old)


def walk(le, start, size):
    """the numbering in which a signal is an interval: LSB0 bit numbers for Intel, sequential MSB0 for Motorola"""
    return layouts.positions(True, start, size) if le else layouts.bigpos(False, start, size)


def runs_of(mask, nbits):
    """maximal runs (start, length) of set bits of mask"""
    out = []
    i = 0
    while i < nbits:
        if mask >> i & 1:
            j = i
            while j < nbits and mask >> j & 1:
                j += 1
            out.append((i, j - i))
            i = j
        else:
            i += 1
    return out


def cover(rng, runs, maxw=8):
    """cover every run with signals of width 1..maxw: list of (start, width) in walking coordinates"""
    sigs = []
    for st, ln in runs:
        greedy = rng.random() < 0.5
        while ln > 0:
            w = min(maxw, ln) if greedy else rng.randint(1, min(maxw, ln))
            sigs.append((st, w))
            st += w
            ln -= w
    if rng.random() < 0.5:
        rng.shuffle(sigs)
    return sigs


def run(chk):
    chk.rule = ("usage map: random non-overlapping layouts (Intel/Motorola mixed, widths 1..64) and overlapping ones on frames of 0..64 bytes, "
                "each cell compared with the set of occupying signals and, on sampled bits, with the set of signals whose decoded value changes "
                "when that payload bit is flipped; dummies + compress: every subset of used bits of 1- and 2-byte frames covered by signals of "
                "width 1..8 (seeded split and order), both byte orders, 3-byte subsets sampled, plus random layouts up to 64 bytes; length: every "
                "declared length 0..64 x signal sets of 1..64 bytes (disjoint, overlapping, multiplexed groups sharing bits, equal start bits with "
                "different widths in both list orders, nested, mixed byte orders whose start numbers are ordered unlike their ends, shuffled) x "
                "calc_dlc/recalc max/force, each followed by set_fd_type and fit_dlc; matrices of 1..6 such frames (as drawn / descending / ascending need) x the two "
                "strategies, each frame compared with the oracle and with the same frame alone in a fresh matrix, then set_fd_type and a second call; "
                "one frame object edited in place (compress, dummies, length calls, added/moved signals) compared with a fresh frame after every step; "
                "fit_dlc and set_fd_type alone on 0..64. non-trivial = at least one gap before a signal / a cell with >= 1 signal / a length that changes or is kept by the "
                "max rule; distinct by (frame length, signals, operation)")
    ok = chk.build_and_audit()
    if ok and hasattr(core, "translator_tie"):
        # second tie: the bodies of Frame.fit_dlc, Frame.calc_dlc and CanMatrix.recalc_dlc regenerated from the source by py2coq
        # equal Layout.fit_dlc / calc_dlc / recalc_frame / recalc_dlc for all arguments (plain frames)
        core.translator_tie(chk, ['gen/Tie_frame.v', 'gen/Tie_layout.v'], ['gen/Gen_frame.v', 'gen/Gen_layout.v'])
    cm = core.import_impl()
    C = cm.canmatrix
    rng = chk.rng
    thorough = chk.tier == "thorough"
    lines, expect, info = [], [], []

    def add(cmd, groups, exp, inf):
        lines.append(core.fmt_case(cmd, groups))
        expect.append(exp)
        info.append(inf)

    def mk(L, sigs, signed=False):
        """sigs: (start, size, le) triples"""
        fr = C.Frame("f", size=L)
        objs = []
        for i, (st, sz, le) in enumerate(sigs):
            s = C.Signal("s%d" % i, start_bit=st, size=sz, is_little_endian=le, is_signed=signed)
            fr.add_signal(s)
            objs.append(s)
        return fr, objs

    def groups(sigs, signed=False):
        return [[i, st, sz, int(le), int(signed), 0] for i, (st, sz, le) in enumerate(sigs)]

    def desc(L, sigs):
        return dict(length=L, signals=[dict(start=st, size=sz, little_endian=le) for st, sz, le in sigs])

    # ------------------------------------------------------------------ usage map
    def check_layout(L, sigs, search=True, flips=0):
        fr, objs = mk(L, sigs)
        lay = fr.get_frame_layout()
        idx = {id(o): i for i, o in enumerate(objs)}
        cells = [[idx[id(o)] for o in cell] for cell in lay]
        add(1601, [[L]] + groups(sigs), [[len(lay)]] + cells, dict(op="get_frame_layout", **desc(L, sigs)))
        if not search:
            return
        nbits = 8 * L
        occ = [set() for _ in range(nbits)]
        for i, (st, sz, le) in enumerate(sigs):
            for p in layouts.bigpos(le, st, sz):
                occ[p].add(i)
        chk.case(("layout", L, tuple(sigs)), any(occ))
        if len(lay) != nbits:
            chk.violation("layout-length", "usage map does not have one cell per payload bit", desc(L, sigs), nbits, len(lay))
            return
        for p in range(nbits):
            if set(cells[p]) != occ[p] or len(cells[p]) != len(occ[p]):
                chk.violation("layout-wrong-signals", "usage map cell does not list exactly the signals occupying that bit",
                              dict(bit=p, **desc(L, sigs)), sorted(occ[p]), cells[p])
                return
        # the decoder's view: flip one payload bit, the signals whose raw value changes are the cell
        for _ in range(flips):
            p = rng.randrange(nbits)
            d = bytearray(rng.randrange(256) for _ in range(L))
            d2 = bytearray(d)
            d2[p // 8] ^= 1 << (7 - p % 8)
            a = fr.decode(bytes(d))
            b = fr.decode(bytes(d2))
            changed = {i for i, o in enumerate(objs) if a[o.name].raw_value != b[o.name].raw_value}
            chk.count("decoder-flips")
            if changed != set(cells[p]):
                chk.violation("layout-vs-decoder", "usage map cell differs from the set of signals whose decoded value depends on that bit",
                              dict(bit=p, payload=bytes(d).hex(), **desc(L, sigs)), sorted(changed), cells[p])
                return

    per_len = 6 if not thorough else 30
    for L in range(0, 65):
        for k in range(per_len):
            if L == 0:
                sigs = []
            else:
                lay = layouts.gen_layout(rng, L, max_signals=rng.choice([1, 2, 3, 5, 8]), le_prob=rng.choice([0.0, 0.5, 0.5, 1.0]))
                sigs = [(d["start"], d["size"], d["le"]) for d in lay]
            chk.count("layout-nonoverlapping")
            check_layout(L, sigs, flips=(3 if L else 0))
            if L == 0:
                break
        for k in range(per_len):
            if L == 0:
                break
            nb = 8 * L
            sigs = []
            for _ in range(rng.randrange(2, 7)):
                w = rng.randrange(1, min(nb, 24) + 1)
                sigs.append((rng.randrange(0, nb - w + 1), w, rng.random() < 0.5))
            chk.count("layout-overlapping")
            check_layout(L, sigs, flips=3)
    # small frames: every bit flipped
    for L in (1, 2, 3):
        for _ in range(20 if not thorough else 200):
            lay = layouts.gen_layout(rng, L, max_signals=4, max_width=12)
            sigs = [(d["start"], d["size"], d["le"]) for d in lay]
            check_layout(L, sigs, flips=8 * L)
    # (signals that leave the frame, zero and negative widths are outside the property's quantifier: neither judged nor tied)
    chk.sample(dict(op="get_frame_layout", length=2, signals=[(5, 4, "motorola"), (13, 2, "intel")],
                    usage="bits 5-8 -> s0, bits 9-10 -> s1, others unused"))

    # ------------------------------------------------------------------ dummy signals
    def check_dummies(L, sigs, disjoint):
        fr, objs = mk(L, sigs)
        before = [(o.name, o.start_bit, o.size, o.is_little_endian, o.is_signed, o.is_float) for o in objs]
        fr.create_dummy_signals()
        after = fr.signals
        out = []
        for j, s in enumerate(after[:len(objs)]):
            out.append([j, s.start_bit, s.size, int(s.is_little_endian), int(s.is_signed), int(s.is_float)])
        added = sorted(p for s in after[len(objs):] for p in layouts.bigpos(s.is_little_endian, s.start_bit, s.size)) if disjoint else []
        # canonical form (see canon_dummies): the existing signals as they are, then the payload bits owned by added signals
        add(1602, [[L, 1000]] + groups(sigs), [[len(objs)]] + out + [added],
            dict(op="create_dummy_signals", n_existing=len(objs), disjoint=disjoint, **desc(L, sigs)))
        kept = len(after) >= len(objs) and all(a is o for a, o in zip(after, objs)) and \
            [(o.name, o.start_bit, o.size, o.is_little_endian, o.is_signed, o.is_float) for o in after[:len(objs)]] == before
        if not kept:
            chk.violation("dummy-touches-existing", "create_dummy_signals changed or reordered an existing signal", desc(L, sigs), before,
                          [(o.name, o.start_bit, o.size) for o in after])
            return
        if not disjoint:
            return
        nbits = 8 * L
        cnt = [0] * nbits
        for s in after:
            for p in layouts.bigpos(s.is_little_endian, s.start_bit, s.size):
                if 0 <= p < nbits:
                    cnt[p] += 1
                else:
                    cnt = None
                    break
            if cnt is None:
                break
        if cnt is None or any(c != 1 for c in cnt):
            bad = None if cnt is None else [p for p, c in enumerate(cnt) if c != 1][:8]
            chk.violation("dummy-not-partition", "after create_dummy_signals some payload bit does not belong to exactly one signal",
                          desc(L, sigs), "every bit in exactly one signal",
                          dict(bits=bad, signals_after=[(s.name, s.start_bit, s.size, s.is_little_endian) for s in after]))

    # ------------------------------------------------------------------ compress
    hangs = [0]

    def check_compress(L, sigs, envelope):
        """envelope: one byte order, inside, no overlap = the property's quantifier for compress; other frames are neither judged nor tied"""
        if not envelope:
            chk.count("compress-not-run-outside-its-quantifier")
            return
        if hangs[0] >= 3:
            chk.count("compress-skipped-after-3-hangs")
            return
        fr, objs = mk(L, sigs)
        try:
            guarded(fr.compress, 5)
        except Hang as h:
            # reported only when a second, fresh frame of the same definition does not finish within a much longer budget either
            import time as _time
            state = [(o.start_bit, o.size, o.is_little_endian) for o in objs]
            fr2, objs2 = mk(L, sigs)
            t0 = _time.process_time()
            try:
                guarded(fr2.compress, 60)
                chk.count("compress-slow-first-try(retry finished in %.1fs cpu)" % (_time.process_time() - t0))
                fr, objs = fr2, objs2
            except Hang as h2:
                hangs[0] += 1
                chk.violation("compress-hangs", "compress did not terminate within 60 s of CPU time (second attempt on a fresh frame)",
                              desc(L, sigs), None, dict(where=str(h2)[-1200:], positions_when_first_attempt_stopped=state))
                return
        add(1606, [[L]] + groups(sigs), [[1], [o.start_bit for o in objs]], dict(op="compress", **desc(L, sigs)))
        if not envelope:
            return
        nbits = 8 * L
        if fr.signals != objs or any((o.size, o.is_little_endian, o.name) != (sz, le, "s%d" % i) for i, (o, (st, sz, le)) in enumerate(zip(objs, sigs))):
            chk.violation("compress-changes-shape", "compress changed a width, byte order, name or the signal list", desc(L, sigs), None,
                          [(o.name, o.start_bit, o.size, o.is_little_endian) for o in fr.signals])
            return
        new = [o.start_bit for o in objs]
        n = len(sigs)
        for i in range(n):
            for j in range(i + 1, n):
                if (sigs[i][0] < sigs[j][0]) != (new[i] < new[j]) or (sigs[i][0] > sigs[j][0]) != (new[i] > new[j]):
                    chk.violation("compress-reorders", "compress changed the relative order of two signals", desc(L, sigs),
                                  [s[0] for s in sigs], new)
                    return
        usedw = set()
        total = 0
        for o in objs:
            w = walk(o.is_little_endian, o.start_bit, o.size)
            total += len(w)
            usedw |= set(w)
            if o.start_bit < 0 or o.start_bit + o.size > nbits:
                chk.violation("compress-leaves-frame", "compress moved a signal outside the frame", desc(L, sigs), None, new)
                return
        if len(usedw) != total:
            chk.violation("compress-overlap", "signals overlap after compress", desc(L, sigs), None, new)
            return
        if usedw != set(range(total)):
            chk.violation("compress-gap", "an unused bit is left before a signal after compress", desc(L, sigs),
                          "bits 0..%d used (in the frame's bit numbering)" % (total - 1), new)

    def pattern(nbytes, mask):
        nbits = 8 * nbytes
        cov = cover(rng, runs_of(mask, nbits))
        gaps = any((mask >> i & 1) == 0 and (mask >> (i + 1)) != 0 for i in range(nbits))
        for le in (True, False):
            sigs = [(st, w, le) for st, w in cov]
            chk.case(("pattern", nbytes, mask, le, tuple(cov)), gaps)
            check_dummies(nbytes, sigs, True)
            check_compress(nbytes, sigs, True)
        chk.count("gap-pattern-%dB" % nbytes)

    for nbytes in (1, 2):
        for mask in range(1 << (8 * nbytes)):
            pattern(nbytes, mask)
    chk.exhaustive = True
    chk.notes.append("exhaustive part: every subset of used bits of 1-byte (256) and 2-byte (65536) frames, both byte orders, for "
                     "create_dummy_signals and compress; fit_dlc for every size 0..64")
    for _ in range(3000 if not thorough else 450000):
        pattern(3, rng.getrandbits(24) & rng.getrandbits(24) if rng.random() < 0.3 else rng.getrandbits(24))
    # random layouts up to 64 bytes
    for L in range(1, 65):
        for _ in range(3 if not thorough else 25):
            single = rng.random() < 0.7
            lay = layouts.gen_layout(rng, L, max_signals=rng.choice([1, 2, 4, 8, 12]), le_prob=(rng.choice([0.0, 1.0]) if single else 0.5))
            sigs = [(d["start"], d["size"], d["le"]) for d in lay]
            rng.shuffle(sigs)
            orders = {le for _, _, le in sigs}
            chk.case(("big", L, tuple(sigs)), True)
            chk.count("random-layout-single-order" if len(orders) == 1 else "random-layout-mixed-order")
            check_dummies(L, sigs, True)
            check_compress(L, sigs, len(orders) == 1)
    # overlapping frames: existing signals untouched (nothing else is stated for them)
    for _ in range(400 if not thorough else 4000):
        L = rng.choice([1, 2, 2, 3, 4, 8])
        nb = 8 * L
        le0 = rng.random() < 0.5
        sigs = []
        for _ in range(rng.randrange(2, 6)):
            w = rng.randrange(1, min(nb, 12) + 1)
            sigs.append((rng.randrange(0, nb - w + 1), w, le0 if rng.random() < 0.85 else not le0))
        chk.count("overlapping-existing-untouched-only")
        check_dummies(L, sigs, False)
    chk.sample(dict(op="create_dummy_signals", length=1, signals=[(0, 6, "motorola"), (7, 1, "motorola")], dummies=[(6, 1)]))
    chk.sample(dict(op="compress", length=2, signals=[(3, 4, "intel"), (9, 5, "intel")], start_bits_after=[0, 4]))

    # ------------------------------------------------------------------ frame length
    # The quantifier for lengths is "any mix of Intel/Motorola signals": overlap is allowed (multiplexed groups), the signal that
    # ends last need not be the one with the highest start bit, nor the last one in the list.
    def rand_sig(nb, le=None, maxw=64):
        w = rng.randrange(1, min(nb, maxw) + 1)
        return (rng.randrange(0, nb - w + 1), w, (rng.random() < 0.5) if le is None else le)

    def length_shape(Ls):
        """(shape name, signals) on a bit space of Ls bytes; every signal has width >= 1 and start >= 0"""
        nb = 8 * Ls
        kind = rng.choice(["disjoint", "disjoint", "overlap", "overlap", "mux-group", "same-start", "nested", "mixed-crossed", "low-start-long", "empty"])
        if kind == "disjoint":
            sigs = [(d["start"], d["size"], d["le"]) for d in layouts.gen_layout(rng, Ls, max_signals=rng.choice([1, 2, 4, 8]))]
        elif kind == "overlap":
            sigs = [rand_sig(nb) for _ in range(rng.randrange(2, 7))]
        elif kind == "mux-group":
            # a multiplexer plus groups that share the bits behind it, widths differ per group
            le = rng.random() < 0.5
            mw = rng.randrange(1, min(8, nb) + 1)
            sigs = [(0, mw, le)]
            for _ in range(rng.randrange(2, 6)):
                st = rng.randrange(mw, nb) if nb > mw else 0
                sigs.append((st, rng.randrange(1, nb - st + 1), le))
        elif kind == "same-start":
            le = rng.random() < 0.5
            st = rng.randrange(0, nb)
            ws = sorted({rng.randrange(1, nb - st + 1) for _ in range(rng.randrange(2, 5))})
            sigs = [(st, w, le) for w in ws]            # shorter first; the reversed order comes from the shuffle coin below
            if rng.random() < 0.5:
                sigs.reverse()
            if rng.random() < 0.5:
                sigs.append(rand_sig(nb))
            return kind, sigs                           # keep the deliberate order
        elif kind == "nested":
            le = rng.random() < 0.5
            w = rng.randrange(2, nb + 1) if nb >= 2 else 1
            st = rng.randrange(0, nb - w + 1)
            iw = rng.randrange(1, w + 1)
            ist = rng.randrange(st, st + w - iw + 1)
            sigs = [(st, w, le), (ist, iw, le if rng.random() < 0.7 else not le)]
        elif kind == "mixed-crossed":
            # a long Motorola signal with a small internal start number and a short Intel signal with a larger one (and vice versa)
            w = rng.randrange(max(1, nb // 2), nb + 1)
            st = rng.randrange(0, nb - w + 1)
            long_le = rng.random() < 0.5
            sw = rng.randrange(1, min(8, nb) + 1)
            sst = rng.randrange(st, min(st + w, nb - sw) + 1) if st <= nb - sw else nb - sw
            sigs = [(st, w, long_le), (sst, sw, not long_le)]
        elif kind == "low-start-long":
            # the signal with the highest start bit is short, an earlier one reaches further
            le = None if rng.random() < 0.5 else (rng.random() < 0.5)
            w = rng.randrange(max(1, nb // 2), nb + 1)
            st = rng.randrange(0, nb - w + 1)
            sigs = [(st, w, (rng.random() < 0.5) if le is None else le)]
            for _ in range(rng.randrange(1, 4)):
                sw = rng.randrange(1, max(1, min(8, w // 2)) + 1)
                sst = rng.randrange(st + 1, st + w - sw + 1) if w - sw >= 1 else st
                sigs.append((sst, sw, (rng.random() < 0.5) if le is None else le))
        else:
            sigs = []
        rng.shuffle(sigs)
        return kind, sigs

    def check_lengths(declared, kind, sigs):
        used = [n for st, sz, le in sigs for n in layouts.positions(le, st, sz)]     # LSB0 numbers: byte n // 8
        need = max(used) // 8 + 1 if used else 0      # smallest byte count containing every occupied position
        ends_last = max(range(len(sigs)), key=lambda i: max(layouts.positions(sigs[i][2], sigs[i][0], sigs[i][1]))) if sigs else None
        crossed = bool(sigs) and (sigs[ends_last][0] != max(s[0] for s in sigs) or ends_last != len(sigs) - 1)
        for mode in range(3):       # calc_dlc, recalc_dlc("max"), recalc_dlc("force"); other strategy strings are not constrained by the property
            fr, objs = mk(declared, sigs)
            db = C.CanMatrix()
            db.add_frame(fr)
            if mode == 0:
                fr.calc_dlc()
            else:
                db.recalc_dlc(["max", "force"][mode - 1])
            got = fr.size
            want = max(declared, need) if mode in (0, 1) else need
            chk.case(("dlc", declared, mode, tuple(sigs)), crossed or kind == "disjoint")
            chk.count("dlc-" + ["calc_dlc", "recalc-max", "recalc-force"][mode])
            inp = dict(op=["calc_dlc", "recalc_dlc(max)", "recalc_dlc(force)"][mode], declared=declared, shape=kind,
                       **desc(declared, sigs))
            if got != want:
                key = "calc-dlc-shrinks" if (mode in (0, 1) and got < declared) else ("calc-dlc-not-minimal" if mode in (0, 1) else
                                                                                        "recalc-force-not-minimal")
                chk.violation(key, "computed frame length is not the smallest byte count containing all signals (never below the declared "
                              "length unless forced)", inp, want, got)
            add(1603, [[declared, mode]] + groups(sigs), [[got]], inp)
            # the importers' chain: length, then CAN FD type, then fit to a permitted FD length
            was_fd = rng.random() < 0.3
            fr.is_fd = was_fd
            db.set_fd_type()
            if bool(fr.is_fd) != (was_fd or got > 8) or fr.size != got:
                chk.violation("set-fd-type", "set_fd_type after the length computation: a frame longer than 8 bytes must become FD, others stay",
                              dict(inp, is_fd_before=was_fd), was_fd or got > 8, fr.is_fd)
            fr.fit_dlc()
            cands = [x for x in FD if x >= got]
            fit_want = min(cands) if cands else got
            if fr.size != fit_want:
                chk.violation("fit-dlc", "fit_dlc after the length computation does not give the smallest permitted CAN FD length not below it",
                              dict(inp, size_before_fit=got), fit_want, fr.size)
            elif want == got and fr.size < max(need, 0):
                chk.violation("fit-dlc", "fitted length does not contain all signals", dict(inp, size_before_fit=got), need, fr.size)
        chk.count("length-shape-" + kind)
        if crossed:
            chk.count("length-last-ending-signal-is-not-highest-start-or-not-last-listed")

    # the three shapes of the report that motivated this generator, at every declared length that matters
    fixed = [("mux-group", [(8, 40, True), (16, 8, True)]), ("mux-group", [(16, 8, True), (8, 40, True)]),
             ("same-start", [(8, 4, True), (8, 20, True)]), ("same-start", [(8, 20, True), (8, 4, True)]),
             ("same-start", [(3, 2, False), (3, 30, False)]), ("mixed-crossed", [(4, 12, False), (5, 3, True)]),
             ("mixed-crossed", [(5, 3, True), (4, 12, False)]), ("nested", [(0, 64, True), (60, 2, True)])]
    for kind, sigs in fixed:
        for declared in (0, 1, 2, 3, 6, 8, 9):
            check_lengths(declared, kind, sigs)
    for declared in range(0, 65):
        for _ in range(10 if not thorough else 60):
            Ls = rng.choice([1, 1, 2, 2, 3, 4, 8, 8, 12, 16, 24, 32, 48, 64, rng.randrange(1, 65)])
            kind, sigs = length_shape(Ls)
            check_lengths(declared, kind, sigs)
    # ------------------------------------------------------------------ matrix level: several frames in one matrix
    # CanMatrix.recalc_dlc / set_fd_type walk over all frames: every frame must get what it would get alone (independent oracle and a
    # fresh single-frame matrix of the same definition), whatever stands before or after it, and a second call must change nothing.
    def need_of(sigs):
        used = [n for st, sz, le in sigs for n in layouts.positions(le, st, sz)]
        return max(used) // 8 + 1 if used else 0

    def check_matrix(frames, strategy):
        """frames: list of (declared, is_fd, signals)"""
        db = C.CanMatrix()
        objs = []
        for k, (declared, fd, sigs) in enumerate(frames):
            fr, _ = mk(declared, sigs)
            fr.name = "f%d" % k
            fr.arbitration_id = C.ArbitrationId(k + 1, False)
            fr.is_fd = fd
            db.add_frame(fr)
            objs.append(fr)
        db.recalc_dlc(strategy)
        got = [fr.size for fr in objs]
        needs = [need_of(s) for _, _, s in frames]
        want = [max(d, n) if strategy == "max" else n for (d, _, _), n in zip(frames, needs)]
        alone = []
        for declared, fd, sigs in frames:
            fr1, _ = mk(declared, sigs)
            db1 = C.CanMatrix()
            db1.add_frame(fr1)
            db1.recalc_dlc(strategy)
            alone.append(fr1.size)
        later_needs_less = any(needs[j] < max(needs[:j]) for j in range(1, len(needs)))
        inp = dict(op="matrix recalc_dlc(%s)" % strategy,
                   frames=[dict(declared=d, signals=[dict(start=st, size=sz, little_endian=le) for st, sz, le in s]) for d, _, s in frames])
        chk.case(("matrix", strategy, tuple((d, tuple(s)) for d, _, s in frames)), len(frames) >= 2 and later_needs_less)
        chk.count("matrix-recalc-" + strategy)
        chk.count("matrix-frames=%d" % min(len(frames), 6))
        if later_needs_less:
            chk.count("matrix-later-frame-needs-less-than-an-earlier-one")
        if got != alone:
            chk.violation("matrix-frame-depends-on-neighbours", "recalc_dlc on a matrix gives a frame another length than the same frame alone "
                          "in a fresh matrix", inp, alone, got)
        if got != want:
            chk.violation("matrix-recalc-not-per-frame-minimum", "recalc_dlc on a matrix: a frame's length is not the smallest byte count "
                          "containing its own signals (never below its declared length unless forced)", inp, want, got)
        mode = {"max": 0, "force": 1}[strategy]
        flat = []
        for d, _, s in frames:
            flat.append([d, len(s)])
            flat += groups(s)
        add(1607, [[mode]] + flat, [got], inp)
        # a second call is a no-op
        db.recalc_dlc(strategy)
        if [fr.size for fr in objs] != got:
            chk.violation("matrix-recalc-not-idempotent", "a second recalc_dlc with the same strategy changes lengths again", inp, got,
                          [fr.size for fr in objs])
        # set_fd_type over the same matrix
        before_fd = [bool(fr.is_fd) for fr in objs]
        db.set_fd_type()
        got_fd = [bool(fr.is_fd) for fr in objs]
        want_fd = [b or sz > 8 for b, sz in zip(before_fd, got)]
        chk.count("matrix-set_fd_type")
        if got_fd != want_fd or [fr.size for fr in objs] != got:
            chk.violation("matrix-set-fd-type", "set_fd_type on a matrix: exactly the frames longer than 8 bytes become FD, the others keep their type",
                          dict(inp, sizes=got, is_fd_before=before_fd), want_fd, got_fd)
        add(1608, [[x for sz, b in zip(got, before_fd) for x in (sz, int(b))]], [[int(b) for b in got_fd]],
            dict(op="matrix set_fd_type", sizes=got, is_fd_before=before_fd))

    for _ in range(250 if not thorough else 3000):
        nfr = rng.choice([1, 2, 2, 3, 3, 4, 6])
        frames = []
        for _k in range(nfr):
            Ls = rng.choice([1, 1, 2, 3, 4, 8, 8, 9, 12, 16, 32, 64])
            kind, sigs = length_shape(Ls)
            frames.append((rng.choice([0, 1, 2, 8, 8, rng.randrange(0, 65)]), rng.random() < 0.2, sigs))
        order = rng.choice(["as-drawn", "descending", "ascending"])
        if order != "as-drawn":
            frames.sort(key=lambda f: need_of(f[2]), reverse=(order == "descending"))
        chk.count("matrix-order-" + order)
        for strategy in ("max", "force"):      # the two strategies the property speaks about
            check_matrix(frames, strategy)
    chk.sample(dict(op="matrix recalc_dlc(force)", frames=[dict(declared=8, signals=[(0, 48, "intel")]), dict(declared=8, signals=[(0, 12, "intel")])],
                    sizes_after=[6, 2]))

    # ------------------------------------------------------------------ one frame object used again after in-place edits
    # After every step the observable results (usage map, length utilities) of the edited object must equal those of a fresh frame
    # built from its current definition.
    def snapshot(fr):
        return fr.size, [(s.start_bit, s.size, s.is_little_endian) for s in fr.signals]

    def observe(fr):
        lay = fr.get_frame_layout()
        pos = {id(s): i for i, s in enumerate(fr.signals)}
        cells = [[pos[id(s)] for s in cell] for cell in lay]
        size0 = fr.size
        fr.calc_dlc()
        c = fr.size
        fr.size = size0
        db = C.CanMatrix()
        db.add_frame(fr)
        db.recalc_dlc("force")
        f = fr.size
        fr.size = size0
        return cells, c, f

    for _ in range(150 if not thorough else 2000):
        L = rng.choice([1, 2, 2, 3, 4, 8])
        single = rng.random() < 0.6
        lay = layouts.gen_layout(rng, L, max_signals=rng.choice([1, 2, 4]), max_width=16, le_prob=(rng.choice([0.0, 1.0]) if single else 0.5))
        sigs = [(d["start"], d["size"], d["le"]) for d in lay]
        fr, _ = mk(L, sigs)
        steps = []
        for _s in range(rng.randrange(2, 6)):
            op = rng.choice(["layout", "compress", "dummies", "calc_dlc", "force", "fit_dlc", "grow", "add-signal", "move-signal"])
            steps.append(op)
            if op == "layout":
                fr.get_frame_layout()
            elif op == "compress":
                cur = [(s.start_bit, s.size, s.is_little_endian) for s in fr.signals]
                bits = [n for st, sz, le in cur for n in layouts.positions(le, st, sz)]
                if hangs[0] >= 3 or len({le for _, _, le in cur}) > 1 or len(bits) != len(set(bits)) or \
                        any(st < 0 or sz < 1 or st + sz > 8 * fr.size for st, sz, _ in cur):
                    continue                      # outside compress's quantifier
                try:
                    guarded(fr.compress, 5)
                except Hang:
                    hangs[0] += 1
                    chk.violation("compress-hangs", "compress did not terminate within 5 s", dict(length=L, signals=sigs, steps=steps))
                    break
            elif op == "dummies":
                if len(fr.signals) < 40:
                    fr.create_dummy_signals()
            elif op == "calc_dlc":
                fr.calc_dlc()
            elif op == "force":
                db = C.CanMatrix()
                db.add_frame(fr)
                db.recalc_dlc("force")
            elif op == "fit_dlc":
                fr.fit_dlc()
            elif op == "grow":
                fr.size = fr.size + rng.randrange(1, 3)
            elif op == "add-signal":
                nb = 8 * max(fr.size, 1)
                w = rng.randrange(1, min(nb, 12) + 1)
                fr.add_signal(C.Signal("x%d" % len(fr.signals), start_bit=rng.randrange(0, nb - w + 1), size=w,
                                       is_little_endian=rng.random() < 0.5, is_signed=False))
            elif op == "move-signal" and fr.signals:
                s = rng.choice(fr.signals)
                nb = 8 * max(fr.size, 1)
                if s.size <= nb:
                    s.start_bit = rng.randrange(0, nb - s.size + 1)
            size_now, sig_now = snapshot(fr)
            fresh, _ = mk(size_now, sig_now)
            a = observe(fr)
            b = observe(fresh)
            chk.case(("reuse", L, tuple(sigs), tuple(steps)), len(steps) >= 2)
            chk.count("reuse-step-" + op)
            if a != b or snapshot(fr) != (size_now, sig_now):
                chk.violation("reuse-differs-from-fresh", "a frame edited in place answers differently from a fresh frame of the same definition",
                              dict(length=L, signals=sigs, steps=list(steps), definition_now=dict(size=size_now, signals=sig_now)),
                              dict(calc_dlc=b[1], force=b[2], usage=b[0][:16]), dict(calc_dlc=a[1], force=a[2], usage=a[0][:16]))
                break

    sizes = list(range(0, 65))          # the quantifier: lengths 0..64 (larger or negative lengths are neither judged nor tied)
    for size in sizes:
        fr = C.Frame("f", size=size)
        fr.fit_dlc()
        got = fr.size
        cands = [x for x in FD if x >= size]
        want = min(cands) if (cands and size >= 0) else size
        chk.case(("fit", size), 8 < size < 64)
        chk.count("fit_dlc")
        if got != want:
            chk.violation("fit-dlc", "fit_dlc does not give the smallest permitted CAN FD length not below the size", dict(size=size), want, got)
        add(1604, [[size]], [[got]], dict(op="fit_dlc", size=size))
        for fd in (False, True):
            db = C.CanMatrix()
            fr = C.Frame("f", size=size, is_fd=fd)
            db.add_frame(fr)
            db.set_fd_type()
            want_fd = fd or size > 8
            chk.case(("fd", size, fd), size > 8)
            if bool(fr.is_fd) != want_fd or fr.size != size:
                chk.violation("set-fd-type", "set_fd_type: a frame longer than 8 bytes must become FD, others stay", dict(size=size, is_fd=fd), want_fd, fr.is_fd)
            add(1605, [[size, int(fd)]], [[int(bool(fr.is_fd))]], dict(op="set_fd_type", size=size, is_fd=fd))
    chk.sample(dict(op="calc_dlc", declared=1, signals=[(5, 4, "motorola"), (13, 2, "intel")], size_after=2))
    chk.sample(dict(op="fit_dlc", size=9, size_after=12))

    # ------------------------------------------------------------------ tie
    if not ok:
        chk.ties["correspondence"] = "not run (build failed)"
        return
    out = core.run_model(lines)
    bad = 0
    per = {}

    def canon_model(inf, m):
        """model answer brought to the form the expectation is recorded in: only what the property constrains is compared"""
        if inf["op"] == "get_frame_layout":
            return [m[0]] + [sorted(c) for c in m[1:]]          # per bit the SET of signals; no order inside a cell is stated
        if inf["op"] == "create_dummy_signals":
            n = inf["n_existing"]
            sig = m[1:]
            added = sorted(p for g in sig[n:] for p in layouts.bigpos(bool(g[3]), g[1], g[2])) if inf["disjoint"] else []
            return [[n]] + sig[:n] + [added]                     # existing signals as they are + the bits owned by added signals
        return m

    def canon_impl(inf, e):
        if inf["op"] == "get_frame_layout":
            return [e[0]] + [sorted(c) for c in e[1:]]
        return e

    agreed = []
    for k, (inf, exp, o) in enumerate(zip(info, expect, out)):
        per[inf["op"].split("(")[0]] = per.get(inf["op"].split("(")[0], 0) + 1
        if canon_model(inf, core.parse_out(o)) != canon_impl(inf, exp):
            bad += 1
            chk.tie_break("layout-utilities", inf, canon_model(inf, core.parse_out(o))[:40], canon_impl(inf, exp)[:40])
        else:
            agreed.append(k)
    if len(out) != len(lines):
        chk.tie_break("layout-utilities", "model answered %d of %d cases" % (len(out), len(lines)), None, None)
    chk.ties["correspondence"] = {"suite": "layout-utilities (cmd 1601-1608)", "cases": len(lines), "per_operation": per, "disagreements": bad}
    # in-Coq cross-check of the extraction: the extracted model's own answer (which agreed with the implementation in canonical
    # form above) must be what vm_compute gives
    small = [i for i in agreed if len(lines[i]) < 400]
    idx = rng.sample(small, min(300, len(small)))
    shard = []
    for i in idx:
        c, g = lines[i].split(" ", 1)
        shard.append((int(c, 16), core.parse_out(g), core.parse_out(out[i])))
    mm, log = core.coq_shard(shard, "c16")
    chk.ties["vm_compute_shard"] = {"cases": len(shard), "mismatches": mm}
    if mm is None:
        chk.obligation_failures.append("in-Coq shard failed to evaluate")
        chk.build_log = log[-3000:]
    else:
        for i in mm:
            chk.tie_break("layout-utilities-shard", shard[i][1], "vm_compute differs", shard[i][2])
